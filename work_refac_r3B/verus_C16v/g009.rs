// GENERATED on every run: real expansions of /repo's macro with contracts inserted in place.
#![allow(unused_imports, dead_code, unused_variables, unused_mut, non_snake_case, non_upper_case_globals, non_camel_case_types)]
use vstd::prelude::*;
use vstd::string::*;
use vstd::std_specs::iter::IteratorSpec;
verus! {
// ---- fixed prelude: ASSUMED contracts on the Rust standard library (trusted, listed in evidence) ----
// Every std function the generated code may call gets its own *uninterpreted* spec symbol, so a
// changed call (trim -> trim_start, to_lowercase -> to_ascii_lowercase, chars().count() -> len())
// fails a postcondition instead of turning into "unsupported".
pub uninterp spec fn spec_trim(s: Seq<char>) -> Seq<char>;
pub uninterp spec fn spec_trim_start(s: Seq<char>) -> Seq<char>;
pub uninterp spec fn spec_trim_end(s: Seq<char>) -> Seq<char>;
pub uninterp spec fn spec_lower(s: Seq<char>) -> Seq<char>;
pub uninterp spec fn spec_upper(s: Seq<char>) -> Seq<char>;
pub uninterp spec fn spec_ascii_lower(s: Seq<char>) -> Seq<char>;
pub uninterp spec fn spec_ascii_upper(s: Seq<char>) -> Seq<char>;

pub assume_specification[ str::trim ](s: &str) -> (r: &str)
    ensures r@ == spec_trim(s@);
pub assume_specification[ str::trim_start ](s: &str) -> (r: &str)
    ensures r@ == spec_trim_start(s@);
pub assume_specification[ str::trim_end ](s: &str) -> (r: &str)
    ensures r@ == spec_trim_end(s@);
pub assume_specification[ str::to_lowercase ](s: &str) -> (r: String)
    ensures r@ == spec_lower(s@);
pub assume_specification[ str::to_uppercase ](s: &str) -> (r: String)
    ensures r@ == spec_upper(s@);
pub assume_specification[ str::to_ascii_lowercase ](s: &str) -> (r: String)
    ensures r@ == spec_ascii_lower(s@);
pub assume_specification[ str::to_ascii_uppercase ](s: &str) -> (r: String)
    ensures r@ == spec_ascii_upper(s@);
pub uninterp spec fn spec_string_byte_len(s: Seq<char>) -> usize;
pub assume_specification[ String::len ](s: &String) -> (r: usize)
    ensures r == spec_string_byte_len(s@);
pub assume_specification<'a>[ <core::str::Chars<'a> as Iterator>::count ](c: core::str::Chars<'a>) -> (r: usize)
    ensures r == c.remaining().len();

global size_of usize == 8;

// opaque std error types that appear as payload of the generated `<X>ParseError` enums
#[verifier::external_type_specification]
#[verifier::external_body]
pub struct ExParseIntError(core::num::ParseIntError);
#[verifier::external_type_specification]
#[verifier::external_body]
pub struct ExParseFloatError(core::num::ParseFloatError);

// `impl Into<String>` arguments: the only facts assumed about the conversion.
pub broadcast axiom fn axiom_into_string_from_string(x: String, s: String)
    requires #[trigger] call_ensures(<String as Into<String>>::into, (x,), s)
    ensures s@ == x@;
pub broadcast axiom fn axiom_into_string_from_str(x: &str, s: String)
    requires #[trigger] call_ensures(<&str as Into<String>>::into, (x,), s)
    ensures s@ == x@;

// Algebraic facts about std's trim / case mapping used only by the C11 (canonical form) lemmas.
// A1-A3 idempotence; A4/A5 case mapping neither creates nor removes edge whitespace, i.e. trim and
// case mapping commute "up to" re-application.  Statements about std, not about nutype.
pub broadcast axiom fn axiom_trim_idem(s: Seq<char>)
    ensures #[trigger] spec_trim(spec_trim(s)) == spec_trim(s);
pub broadcast axiom fn axiom_lower_idem(s: Seq<char>)
    ensures #[trigger] spec_lower(spec_lower(s)) == spec_lower(s);
pub broadcast axiom fn axiom_upper_idem(s: Seq<char>)
    ensures #[trigger] spec_upper(spec_upper(s)) == spec_upper(s);
pub broadcast axiom fn axiom_trim_of_lower_of_trim(s: Seq<char>)
    ensures #[trigger] spec_trim(spec_lower(spec_trim(s))) == spec_lower(spec_trim(s));
pub broadcast axiom fn axiom_trim_of_upper_of_trim(s: Seq<char>)
    ensures #[trigger] spec_trim(spec_upper(spec_trim(s))) == spec_upper(spec_trim(s));
pub broadcast axiom fn axiom_lower_of_trim_of_lower(s: Seq<char>)
    ensures #[trigger] spec_lower(spec_trim(spec_lower(s))) == spec_trim(spec_lower(s));
pub broadcast axiom fn axiom_upper_of_trim_of_upper(s: Seq<char>)
    ensures #[trigger] spec_upper(spec_trim(spec_upper(s))) == spec_trim(spec_upper(s));
pub broadcast group group_c11_std_axioms {
    axiom_trim_idem, axiom_lower_idem, axiom_upper_idem,
    axiom_trim_of_lower_of_trim, axiom_trim_of_upper_of_trim,
    axiom_lower_of_trim_of_lower, axiom_upper_of_trim_of_upper,
}

// ---- auxiliary items of the catalogue (symbolic bounds, custom functions) ----
pub uninterp spec fn SYM_HI_ISIZE() -> isize;
#[verifier::external_body]
pub fn sym_hi_isize() -> (r: isize) ensures r == SYM_HI_ISIZE() { 100 }

pub mod d_c16_isize_less_sym {
    use super::*;
// NUTYPE_VERIF_INPUT #[nutype(validate(less = sym_hi_isize()), derive(Debug))] pub struct C16IsizeLessSym(isize);
#[doc(hidden)]
#[allow(
    non_snake_case,
    reason = "we keep original structure name which is probably CamelCase"
)]
mod __nutype_C16IsizeLessSym__ {
    use super::*;
    #[derive(Debug)]
    pub struct C16IsizeLessSym(isize);
    #[derive(Debug, Clone, PartialEq, Eq)]
    #[allow(clippy::enum_variant_names)]
    pub enum C16IsizeLessSymError {
        LessViolated,
    }
    #[verifier::external]
impl ::core::fmt::Display for C16IsizeLessSymError {
        fn fmt(&self, f: &mut ::core::fmt::Formatter<'_>) -> ::core::fmt::Result {
            match self {
                C16IsizeLessSymError::LessViolated => write!(
                    f,
                    "{} is too big. The value must be less than {:#?}.",
                    stringify!(C16IsizeLessSym),
                    sym_hi_isize()
                ),
            }
        }
    }
    #[verifier::external]
impl ::core::error::Error for C16IsizeLessSymError {
        fn source(&self) -> Option<&(dyn ::core::error::Error + 'static)> {
            None
        }
    }
    impl C16IsizeLessSym {
        pub fn try_new(raw_value: isize) -> (r: ::core::result::Result<Self, C16IsizeLessSymError>) 
            ensures
                r == Self::spec_try_new(raw_value),
                r is Err ==> Self::spec_validate(Self::spec_sanitize(raw_value)) == Err::<(), C16IsizeLessSymError>(r->Err_0),
        {
            let sanitized_value: isize = Self::__sanitize__(raw_value);
            #[allow(clippy::question_mark)]
            if let Err(e) = Self::__validate__(&sanitized_value) {
                return Err(e);
            }
            Ok(C16IsizeLessSym(sanitized_value))
        }
        fn __sanitize__(mut value: isize) -> (r: isize) 
            ensures
                r == Self::spec_sanitize(value),
        {
            value
        }
        fn __validate__(val: &isize) -> (r: ::core::result::Result<(), C16IsizeLessSymError>) 
            ensures
                r == Self::spec_validate(*val),
                r is Err ==> r == Self::spec_validate(*val),
        {
            let val = *val;
            if val >= sym_hi_isize() {
                return Err(C16IsizeLessSymError::LessViolated);
            }
            Ok(())
        }
    }
    impl C16IsizeLessSym {
        #[inline]
        pub fn into_inner(self) -> (r: isize) 
            ensures
                r == self.spec_view(),
        {
            self.0
        }
    }
    #[cfg(test)]
    mod tests {
        use super::*;
    }

    // ======== inserted by the annotator: spec-mode items only ========
    impl C16IsizeLessSym {
        pub closed spec fn spec_view(self) -> isize { self.0 }
        pub closed spec fn spec_sanitize(x: isize) -> isize { x }
        pub closed spec fn spec_validate(x: isize) -> ::core::result::Result<(), C16IsizeLessSymError> {
            if !(x < (SYM_HI_ISIZE())) { Err(C16IsizeLessSymError::LessViolated) } else { Ok(()) }
        }
        pub closed spec fn spec_post(raw: isize, r: ::core::result::Result<Self, C16IsizeLessSymError>) -> bool { r == Self::spec_try_new(raw) }
        pub closed spec fn spec_try_new(raw: isize) -> ::core::result::Result<Self, C16IsizeLessSymError> {
            match Self::spec_validate(Self::spec_sanitize(raw)) {
                Ok(_) => Ok(C16IsizeLessSym(Self::spec_sanitize(raw))),
                Err(e) => Err(e),
            }
        }
        #[verifier::type_invariant]
        closed spec fn spec_inv(self) -> bool { Self::spec_validate(self.0) is Ok }
    }
    impl C16IsizeLessSym {
        pub proof fn lemma_c16_LessViolated(x: isize)
            ensures (x < (SYM_HI_ISIZE())) <==> (x < (SYM_HI_ISIZE())),
        {
        }
    }
}
pub use __nutype_C16IsizeLessSym__::C16IsizeLessSym;
pub use __nutype_C16IsizeLessSym__::C16IsizeLessSymError;

}
pub mod d_c16_isize_less_lit_p {
    use super::*;
// NUTYPE_VERIF_INPUT #[nutype(validate(less = 7), derive(Debug))] pub struct C16IsizeLessLitP(isize);
#[doc(hidden)]
#[allow(
    non_snake_case,
    reason = "we keep original structure name which is probably CamelCase"
)]
mod __nutype_C16IsizeLessLitP__ {
    use super::*;
    #[derive(Debug)]
    pub struct C16IsizeLessLitP(isize);
    #[derive(Debug, Clone, PartialEq, Eq)]
    #[allow(clippy::enum_variant_names)]
    pub enum C16IsizeLessLitPError {
        LessViolated,
    }
    #[verifier::external]
impl ::core::fmt::Display for C16IsizeLessLitPError {
        fn fmt(&self, f: &mut ::core::fmt::Formatter<'_>) -> ::core::fmt::Result {
            match self {
                C16IsizeLessLitPError::LessViolated => write!(
                    f,
                    "{} is too big. The value must be less than {:#?}.",
                    stringify!(C16IsizeLessLitP),
                    7isize
                ),
            }
        }
    }
    #[verifier::external]
impl ::core::error::Error for C16IsizeLessLitPError {
        fn source(&self) -> Option<&(dyn ::core::error::Error + 'static)> {
            None
        }
    }
    impl C16IsizeLessLitP {
        pub fn try_new(raw_value: isize) -> (r: ::core::result::Result<Self, C16IsizeLessLitPError>) 
            ensures
                r == Self::spec_try_new(raw_value),
                r is Err ==> Self::spec_validate(Self::spec_sanitize(raw_value)) == Err::<(), C16IsizeLessLitPError>(r->Err_0),
        {
            let sanitized_value: isize = Self::__sanitize__(raw_value);
            #[allow(clippy::question_mark)]
            if let Err(e) = Self::__validate__(&sanitized_value) {
                return Err(e);
            }
            Ok(C16IsizeLessLitP(sanitized_value))
        }
        fn __sanitize__(mut value: isize) -> (r: isize) 
            ensures
                r == Self::spec_sanitize(value),
        {
            value
        }
        fn __validate__(val: &isize) -> (r: ::core::result::Result<(), C16IsizeLessLitPError>) 
            ensures
                r == Self::spec_validate(*val),
                r is Err ==> r == Self::spec_validate(*val),
        {
            let val = *val;
            if val >= 7isize {
                return Err(C16IsizeLessLitPError::LessViolated);
            }
            Ok(())
        }
    }
    impl C16IsizeLessLitP {
        #[inline]
        pub fn into_inner(self) -> (r: isize) 
            ensures
                r == self.spec_view(),
        {
            self.0
        }
    }
    #[cfg(test)]
    mod tests {
        use super::*;
    }

    // ======== inserted by the annotator: spec-mode items only ========
    impl C16IsizeLessLitP {
        pub closed spec fn spec_view(self) -> isize { self.0 }
        pub closed spec fn spec_sanitize(x: isize) -> isize { x }
        pub closed spec fn spec_validate(x: isize) -> ::core::result::Result<(), C16IsizeLessLitPError> {
            if !(x < (7)) { Err(C16IsizeLessLitPError::LessViolated) } else { Ok(()) }
        }
        pub closed spec fn spec_post(raw: isize, r: ::core::result::Result<Self, C16IsizeLessLitPError>) -> bool { r == Self::spec_try_new(raw) }
        pub closed spec fn spec_try_new(raw: isize) -> ::core::result::Result<Self, C16IsizeLessLitPError> {
            match Self::spec_validate(Self::spec_sanitize(raw)) {
                Ok(_) => Ok(C16IsizeLessLitP(Self::spec_sanitize(raw))),
                Err(e) => Err(e),
            }
        }
        #[verifier::type_invariant]
        closed spec fn spec_inv(self) -> bool { Self::spec_validate(self.0) is Ok }
    }
    impl C16IsizeLessLitP {
        pub proof fn lemma_c16_LessViolated(x: isize)
            ensures (x < (7)) <==> (x < (7)),
        {
        }
    }
}
pub use __nutype_C16IsizeLessLitP__::C16IsizeLessLitP;
pub use __nutype_C16IsizeLessLitP__::C16IsizeLessLitPError;

}
pub mod d_c16_isize_less_lit_n {
    use super::*;
// NUTYPE_VERIF_INPUT #[nutype(validate(less = -7), derive(Debug))] pub struct C16IsizeLessLitN(isize);
#[doc(hidden)]
#[allow(
    non_snake_case,
    reason = "we keep original structure name which is probably CamelCase"
)]
mod __nutype_C16IsizeLessLitN__ {
    use super::*;
    #[derive(Debug)]
    pub struct C16IsizeLessLitN(isize);
    #[derive(Debug, Clone, PartialEq, Eq)]
    #[allow(clippy::enum_variant_names)]
    pub enum C16IsizeLessLitNError {
        LessViolated,
    }
    #[verifier::external]
impl ::core::fmt::Display for C16IsizeLessLitNError {
        fn fmt(&self, f: &mut ::core::fmt::Formatter<'_>) -> ::core::fmt::Result {
            match self {
                C16IsizeLessLitNError::LessViolated => write!(
                    f,
                    "{} is too big. The value must be less than {:#?}.",
                    stringify!(C16IsizeLessLitN),
                    -7isize
                ),
            }
        }
    }
    #[verifier::external]
impl ::core::error::Error for C16IsizeLessLitNError {
        fn source(&self) -> Option<&(dyn ::core::error::Error + 'static)> {
            None
        }
    }
    impl C16IsizeLessLitN {
        pub fn try_new(raw_value: isize) -> (r: ::core::result::Result<Self, C16IsizeLessLitNError>) 
            ensures
                r == Self::spec_try_new(raw_value),
                r is Err ==> Self::spec_validate(Self::spec_sanitize(raw_value)) == Err::<(), C16IsizeLessLitNError>(r->Err_0),
        {
            let sanitized_value: isize = Self::__sanitize__(raw_value);
            #[allow(clippy::question_mark)]
            if let Err(e) = Self::__validate__(&sanitized_value) {
                return Err(e);
            }
            Ok(C16IsizeLessLitN(sanitized_value))
        }
        fn __sanitize__(mut value: isize) -> (r: isize) 
            ensures
                r == Self::spec_sanitize(value),
        {
            value
        }
        fn __validate__(val: &isize) -> (r: ::core::result::Result<(), C16IsizeLessLitNError>) 
            ensures
                r == Self::spec_validate(*val),
                r is Err ==> r == Self::spec_validate(*val),
        {
            let val = *val;
            if val >= -7isize {
                return Err(C16IsizeLessLitNError::LessViolated);
            }
            Ok(())
        }
    }
    impl C16IsizeLessLitN {
        #[inline]
        pub fn into_inner(self) -> (r: isize) 
            ensures
                r == self.spec_view(),
        {
            self.0
        }
    }
    #[cfg(test)]
    mod tests {
        use super::*;
    }

    // ======== inserted by the annotator: spec-mode items only ========
    impl C16IsizeLessLitN {
        pub closed spec fn spec_view(self) -> isize { self.0 }
        pub closed spec fn spec_sanitize(x: isize) -> isize { x }
        pub closed spec fn spec_validate(x: isize) -> ::core::result::Result<(), C16IsizeLessLitNError> {
            if !(x < ((-7))) { Err(C16IsizeLessLitNError::LessViolated) } else { Ok(()) }
        }
        pub closed spec fn spec_post(raw: isize, r: ::core::result::Result<Self, C16IsizeLessLitNError>) -> bool { r == Self::spec_try_new(raw) }
        pub closed spec fn spec_try_new(raw: isize) -> ::core::result::Result<Self, C16IsizeLessLitNError> {
            match Self::spec_validate(Self::spec_sanitize(raw)) {
                Ok(_) => Ok(C16IsizeLessLitN(Self::spec_sanitize(raw))),
                Err(e) => Err(e),
            }
        }
        #[verifier::type_invariant]
        closed spec fn spec_inv(self) -> bool { Self::spec_validate(self.0) is Ok }
    }
    impl C16IsizeLessLitN {
        pub proof fn lemma_c16_LessViolated(x: isize)
            ensures (x < ((-7))) <==> (x < ((-7))),
        {
        }
    }
}
pub use __nutype_C16IsizeLessLitN__::C16IsizeLessLitN;
pub use __nutype_C16IsizeLessLitN__::C16IsizeLessLitNError;

}
pub mod d_c16_isize_less_lit_big {
    use super::*;
// NUTYPE_VERIF_INPUT #[nutype(validate(less = 100), derive(Debug))] pub struct C16IsizeLessLitBig(isize);
#[doc(hidden)]
#[allow(
    non_snake_case,
    reason = "we keep original structure name which is probably CamelCase"
)]
mod __nutype_C16IsizeLessLitBig__ {
    use super::*;
    #[derive(Debug)]
    pub struct C16IsizeLessLitBig(isize);
    #[derive(Debug, Clone, PartialEq, Eq)]
    #[allow(clippy::enum_variant_names)]
    pub enum C16IsizeLessLitBigError {
        LessViolated,
    }
    #[verifier::external]
impl ::core::fmt::Display for C16IsizeLessLitBigError {
        fn fmt(&self, f: &mut ::core::fmt::Formatter<'_>) -> ::core::fmt::Result {
            match self {
                C16IsizeLessLitBigError::LessViolated => write!(
                    f,
                    "{} is too big. The value must be less than {:#?}.",
                    stringify!(C16IsizeLessLitBig),
                    100isize
                ),
            }
        }
    }
    #[verifier::external]
impl ::core::error::Error for C16IsizeLessLitBigError {
        fn source(&self) -> Option<&(dyn ::core::error::Error + 'static)> {
            None
        }
    }
    impl C16IsizeLessLitBig {
        pub fn try_new(raw_value: isize) -> (r: ::core::result::Result<Self, C16IsizeLessLitBigError>) 
            ensures
                r == Self::spec_try_new(raw_value),
                r is Err ==> Self::spec_validate(Self::spec_sanitize(raw_value)) == Err::<(), C16IsizeLessLitBigError>(r->Err_0),
        {
            let sanitized_value: isize = Self::__sanitize__(raw_value);
            #[allow(clippy::question_mark)]
            if let Err(e) = Self::__validate__(&sanitized_value) {
                return Err(e);
            }
            Ok(C16IsizeLessLitBig(sanitized_value))
        }
        fn __sanitize__(mut value: isize) -> (r: isize) 
            ensures
                r == Self::spec_sanitize(value),
        {
            value
        }
        fn __validate__(val: &isize) -> (r: ::core::result::Result<(), C16IsizeLessLitBigError>) 
            ensures
                r == Self::spec_validate(*val),
                r is Err ==> r == Self::spec_validate(*val),
        {
            let val = *val;
            if val >= 100isize {
                return Err(C16IsizeLessLitBigError::LessViolated);
            }
            Ok(())
        }
    }
    impl C16IsizeLessLitBig {
        #[inline]
        pub fn into_inner(self) -> (r: isize) 
            ensures
                r == self.spec_view(),
        {
            self.0
        }
    }
    #[cfg(test)]
    mod tests {
        use super::*;
    }

    // ======== inserted by the annotator: spec-mode items only ========
    impl C16IsizeLessLitBig {
        pub closed spec fn spec_view(self) -> isize { self.0 }
        pub closed spec fn spec_sanitize(x: isize) -> isize { x }
        pub closed spec fn spec_validate(x: isize) -> ::core::result::Result<(), C16IsizeLessLitBigError> {
            if !(x < (100)) { Err(C16IsizeLessLitBigError::LessViolated) } else { Ok(()) }
        }
        pub closed spec fn spec_post(raw: isize, r: ::core::result::Result<Self, C16IsizeLessLitBigError>) -> bool { r == Self::spec_try_new(raw) }
        pub closed spec fn spec_try_new(raw: isize) -> ::core::result::Result<Self, C16IsizeLessLitBigError> {
            match Self::spec_validate(Self::spec_sanitize(raw)) {
                Ok(_) => Ok(C16IsizeLessLitBig(Self::spec_sanitize(raw))),
                Err(e) => Err(e),
            }
        }
        #[verifier::type_invariant]
        closed spec fn spec_inv(self) -> bool { Self::spec_validate(self.0) is Ok }
    }
    impl C16IsizeLessLitBig {
        pub proof fn lemma_c16_LessViolated(x: isize)
            ensures (x < (100)) <==> (x < (100)),
        {
        }
    }
}
pub use __nutype_C16IsizeLessLitBig__::C16IsizeLessLitBig;
pub use __nutype_C16IsizeLessLitBig__::C16IsizeLessLitBigError;

}
pub mod d_c16_isize_less_or_equal_sym {
    use super::*;
// NUTYPE_VERIF_INPUT #[nutype(validate(less_or_equal = sym_hi_isize()), derive(Debug))] pub struct C16IsizeLessOrEqualSym(isize);
#[doc(hidden)]
#[allow(
    non_snake_case,
    reason = "we keep original structure name which is probably CamelCase"
)]
mod __nutype_C16IsizeLessOrEqualSym__ {
    use super::*;
    #[derive(Debug)]
    pub struct C16IsizeLessOrEqualSym(isize);
    #[derive(Debug, Clone, PartialEq, Eq)]
    #[allow(clippy::enum_variant_names)]
    pub enum C16IsizeLessOrEqualSymError {
        LessOrEqualViolated,
    }
    #[verifier::external]
impl ::core::fmt::Display for C16IsizeLessOrEqualSymError {
        fn fmt(&self, f: &mut ::core::fmt::Formatter<'_>) -> ::core::fmt::Result {
            match self {
                C16IsizeLessOrEqualSymError::LessOrEqualViolated => write!(
                    f,
                    "{} is too big. The value must be less or equal to {:#?}.",
                    stringify!(C16IsizeLessOrEqualSym),
                    sym_hi_isize()
                ),
            }
        }
    }
    #[verifier::external]
impl ::core::error::Error for C16IsizeLessOrEqualSymError {
        fn source(&self) -> Option<&(dyn ::core::error::Error + 'static)> {
            None
        }
    }
    impl C16IsizeLessOrEqualSym {
        pub fn try_new(
            raw_value: isize,
        ) -> (r: ::core::result::Result<Self, C16IsizeLessOrEqualSymError>) 
            ensures
                r == Self::spec_try_new(raw_value),
                r is Err ==> Self::spec_validate(Self::spec_sanitize(raw_value)) == Err::<(), C16IsizeLessOrEqualSymError>(r->Err_0),
        {
            let sanitized_value: isize = Self::__sanitize__(raw_value);
            #[allow(clippy::question_mark)]
            if let Err(e) = Self::__validate__(&sanitized_value) {
                return Err(e);
            }
            Ok(C16IsizeLessOrEqualSym(sanitized_value))
        }
        fn __sanitize__(mut value: isize) -> (r: isize) 
            ensures
                r == Self::spec_sanitize(value),
        {
            value
        }
        fn __validate__(val: &isize) -> (r: ::core::result::Result<(), C16IsizeLessOrEqualSymError>) 
            ensures
                r == Self::spec_validate(*val),
                r is Err ==> r == Self::spec_validate(*val),
        {
            let val = *val;
            if val > sym_hi_isize() {
                return Err(C16IsizeLessOrEqualSymError::LessOrEqualViolated);
            }
            Ok(())
        }
    }
    impl C16IsizeLessOrEqualSym {
        #[inline]
        pub fn into_inner(self) -> (r: isize) 
            ensures
                r == self.spec_view(),
        {
            self.0
        }
    }
    #[cfg(test)]
    mod tests {
        use super::*;
    }

    // ======== inserted by the annotator: spec-mode items only ========
    impl C16IsizeLessOrEqualSym {
        pub closed spec fn spec_view(self) -> isize { self.0 }
        pub closed spec fn spec_sanitize(x: isize) -> isize { x }
        pub closed spec fn spec_validate(x: isize) -> ::core::result::Result<(), C16IsizeLessOrEqualSymError> {
            if !(x <= (SYM_HI_ISIZE())) { Err(C16IsizeLessOrEqualSymError::LessOrEqualViolated) } else { Ok(()) }
        }
        pub closed spec fn spec_post(raw: isize, r: ::core::result::Result<Self, C16IsizeLessOrEqualSymError>) -> bool { r == Self::spec_try_new(raw) }
        pub closed spec fn spec_try_new(raw: isize) -> ::core::result::Result<Self, C16IsizeLessOrEqualSymError> {
            match Self::spec_validate(Self::spec_sanitize(raw)) {
                Ok(_) => Ok(C16IsizeLessOrEqualSym(Self::spec_sanitize(raw))),
                Err(e) => Err(e),
            }
        }
        #[verifier::type_invariant]
        closed spec fn spec_inv(self) -> bool { Self::spec_validate(self.0) is Ok }
    }
    impl C16IsizeLessOrEqualSym {
        pub proof fn lemma_c16_LessOrEqualViolated(x: isize)
            ensures (x <= (SYM_HI_ISIZE())) <==> (x <= (SYM_HI_ISIZE())),
        {
        }
    }
}
pub use __nutype_C16IsizeLessOrEqualSym__::C16IsizeLessOrEqualSym;
pub use __nutype_C16IsizeLessOrEqualSym__::C16IsizeLessOrEqualSymError;

}
pub mod d_c16_isize_less_or_equal_lit_p {
    use super::*;
// NUTYPE_VERIF_INPUT #[nutype(validate(less_or_equal = 7), derive(Debug))] pub struct C16IsizeLessOrEqualLitP(isize);
#[doc(hidden)]
#[allow(
    non_snake_case,
    reason = "we keep original structure name which is probably CamelCase"
)]
mod __nutype_C16IsizeLessOrEqualLitP__ {
    use super::*;
    #[derive(Debug)]
    pub struct C16IsizeLessOrEqualLitP(isize);
    #[derive(Debug, Clone, PartialEq, Eq)]
    #[allow(clippy::enum_variant_names)]
    pub enum C16IsizeLessOrEqualLitPError {
        LessOrEqualViolated,
    }
    #[verifier::external]
impl ::core::fmt::Display for C16IsizeLessOrEqualLitPError {
        fn fmt(&self, f: &mut ::core::fmt::Formatter<'_>) -> ::core::fmt::Result {
            match self {
                C16IsizeLessOrEqualLitPError::LessOrEqualViolated => write!(
                    f,
                    "{} is too big. The value must be less or equal to {:#?}.",
                    stringify!(C16IsizeLessOrEqualLitP),
                    7isize
                ),
            }
        }
    }
    #[verifier::external]
impl ::core::error::Error for C16IsizeLessOrEqualLitPError {
        fn source(&self) -> Option<&(dyn ::core::error::Error + 'static)> {
            None
        }
    }
    impl C16IsizeLessOrEqualLitP {
        pub fn try_new(
            raw_value: isize,
        ) -> (r: ::core::result::Result<Self, C16IsizeLessOrEqualLitPError>) 
            ensures
                r == Self::spec_try_new(raw_value),
                r is Err ==> Self::spec_validate(Self::spec_sanitize(raw_value)) == Err::<(), C16IsizeLessOrEqualLitPError>(r->Err_0),
        {
            let sanitized_value: isize = Self::__sanitize__(raw_value);
            #[allow(clippy::question_mark)]
            if let Err(e) = Self::__validate__(&sanitized_value) {
                return Err(e);
            }
            Ok(C16IsizeLessOrEqualLitP(sanitized_value))
        }
        fn __sanitize__(mut value: isize) -> (r: isize) 
            ensures
                r == Self::spec_sanitize(value),
        {
            value
        }
        fn __validate__(val: &isize) -> (r: ::core::result::Result<(), C16IsizeLessOrEqualLitPError>) 
            ensures
                r == Self::spec_validate(*val),
                r is Err ==> r == Self::spec_validate(*val),
        {
            let val = *val;
            if val > 7isize {
                return Err(C16IsizeLessOrEqualLitPError::LessOrEqualViolated);
            }
            Ok(())
        }
    }
    impl C16IsizeLessOrEqualLitP {
        #[inline]
        pub fn into_inner(self) -> (r: isize) 
            ensures
                r == self.spec_view(),
        {
            self.0
        }
    }
    #[cfg(test)]
    mod tests {
        use super::*;
    }

    // ======== inserted by the annotator: spec-mode items only ========
    impl C16IsizeLessOrEqualLitP {
        pub closed spec fn spec_view(self) -> isize { self.0 }
        pub closed spec fn spec_sanitize(x: isize) -> isize { x }
        pub closed spec fn spec_validate(x: isize) -> ::core::result::Result<(), C16IsizeLessOrEqualLitPError> {
            if !(x <= (7)) { Err(C16IsizeLessOrEqualLitPError::LessOrEqualViolated) } else { Ok(()) }
        }
        pub closed spec fn spec_post(raw: isize, r: ::core::result::Result<Self, C16IsizeLessOrEqualLitPError>) -> bool { r == Self::spec_try_new(raw) }
        pub closed spec fn spec_try_new(raw: isize) -> ::core::result::Result<Self, C16IsizeLessOrEqualLitPError> {
            match Self::spec_validate(Self::spec_sanitize(raw)) {
                Ok(_) => Ok(C16IsizeLessOrEqualLitP(Self::spec_sanitize(raw))),
                Err(e) => Err(e),
            }
        }
        #[verifier::type_invariant]
        closed spec fn spec_inv(self) -> bool { Self::spec_validate(self.0) is Ok }
    }
    impl C16IsizeLessOrEqualLitP {
        pub proof fn lemma_c16_LessOrEqualViolated(x: isize)
            ensures (x <= (7)) <==> (x <= (7)),
        {
        }
    }
}
pub use __nutype_C16IsizeLessOrEqualLitP__::C16IsizeLessOrEqualLitP;
pub use __nutype_C16IsizeLessOrEqualLitP__::C16IsizeLessOrEqualLitPError;

}
pub mod d_c16_isize_less_or_equal_lit_n {
    use super::*;
// NUTYPE_VERIF_INPUT #[nutype(validate(less_or_equal = -7), derive(Debug))] pub struct C16IsizeLessOrEqualLitN(isize);
#[doc(hidden)]
#[allow(
    non_snake_case,
    reason = "we keep original structure name which is probably CamelCase"
)]
mod __nutype_C16IsizeLessOrEqualLitN__ {
    use super::*;
    #[derive(Debug)]
    pub struct C16IsizeLessOrEqualLitN(isize);
    #[derive(Debug, Clone, PartialEq, Eq)]
    #[allow(clippy::enum_variant_names)]
    pub enum C16IsizeLessOrEqualLitNError {
        LessOrEqualViolated,
    }
    #[verifier::external]
impl ::core::fmt::Display for C16IsizeLessOrEqualLitNError {
        fn fmt(&self, f: &mut ::core::fmt::Formatter<'_>) -> ::core::fmt::Result {
            match self {
                C16IsizeLessOrEqualLitNError::LessOrEqualViolated => write!(
                    f,
                    "{} is too big. The value must be less or equal to {:#?}.",
                    stringify!(C16IsizeLessOrEqualLitN),
                    -7isize
                ),
            }
        }
    }
    #[verifier::external]
impl ::core::error::Error for C16IsizeLessOrEqualLitNError {
        fn source(&self) -> Option<&(dyn ::core::error::Error + 'static)> {
            None
        }
    }
    impl C16IsizeLessOrEqualLitN {
        pub fn try_new(
            raw_value: isize,
        ) -> (r: ::core::result::Result<Self, C16IsizeLessOrEqualLitNError>) 
            ensures
                r == Self::spec_try_new(raw_value),
                r is Err ==> Self::spec_validate(Self::spec_sanitize(raw_value)) == Err::<(), C16IsizeLessOrEqualLitNError>(r->Err_0),
        {
            let sanitized_value: isize = Self::__sanitize__(raw_value);
            #[allow(clippy::question_mark)]
            if let Err(e) = Self::__validate__(&sanitized_value) {
                return Err(e);
            }
            Ok(C16IsizeLessOrEqualLitN(sanitized_value))
        }
        fn __sanitize__(mut value: isize) -> (r: isize) 
            ensures
                r == Self::spec_sanitize(value),
        {
            value
        }
        fn __validate__(val: &isize) -> (r: ::core::result::Result<(), C16IsizeLessOrEqualLitNError>) 
            ensures
                r == Self::spec_validate(*val),
                r is Err ==> r == Self::spec_validate(*val),
        {
            let val = *val;
            if val > -7isize {
                return Err(C16IsizeLessOrEqualLitNError::LessOrEqualViolated);
            }
            Ok(())
        }
    }
    impl C16IsizeLessOrEqualLitN {
        #[inline]
        pub fn into_inner(self) -> (r: isize) 
            ensures
                r == self.spec_view(),
        {
            self.0
        }
    }
    #[cfg(test)]
    mod tests {
        use super::*;
    }

    // ======== inserted by the annotator: spec-mode items only ========
    impl C16IsizeLessOrEqualLitN {
        pub closed spec fn spec_view(self) -> isize { self.0 }
        pub closed spec fn spec_sanitize(x: isize) -> isize { x }
        pub closed spec fn spec_validate(x: isize) -> ::core::result::Result<(), C16IsizeLessOrEqualLitNError> {
            if !(x <= ((-7))) { Err(C16IsizeLessOrEqualLitNError::LessOrEqualViolated) } else { Ok(()) }
        }
        pub closed spec fn spec_post(raw: isize, r: ::core::result::Result<Self, C16IsizeLessOrEqualLitNError>) -> bool { r == Self::spec_try_new(raw) }
        pub closed spec fn spec_try_new(raw: isize) -> ::core::result::Result<Self, C16IsizeLessOrEqualLitNError> {
            match Self::spec_validate(Self::spec_sanitize(raw)) {
                Ok(_) => Ok(C16IsizeLessOrEqualLitN(Self::spec_sanitize(raw))),
                Err(e) => Err(e),
            }
        }
        #[verifier::type_invariant]
        closed spec fn spec_inv(self) -> bool { Self::spec_validate(self.0) is Ok }
    }
    impl C16IsizeLessOrEqualLitN {
        pub proof fn lemma_c16_LessOrEqualViolated(x: isize)
            ensures (x <= ((-7))) <==> (x <= ((-7))),
        {
        }
    }
}
pub use __nutype_C16IsizeLessOrEqualLitN__::C16IsizeLessOrEqualLitN;
pub use __nutype_C16IsizeLessOrEqualLitN__::C16IsizeLessOrEqualLitNError;

}
pub mod d_c16_isize_less_or_equal_lit_big {
    use super::*;
// NUTYPE_VERIF_INPUT #[nutype(validate(less_or_equal = 100), derive(Debug))] pub struct C16IsizeLessOrEqualLitBig(isize);
#[doc(hidden)]
#[allow(
    non_snake_case,
    reason = "we keep original structure name which is probably CamelCase"
)]
mod __nutype_C16IsizeLessOrEqualLitBig__ {
    use super::*;
    #[derive(Debug)]
    pub struct C16IsizeLessOrEqualLitBig(isize);
    #[derive(Debug, Clone, PartialEq, Eq)]
    #[allow(clippy::enum_variant_names)]
    pub enum C16IsizeLessOrEqualLitBigError {
        LessOrEqualViolated,
    }
    #[verifier::external]
impl ::core::fmt::Display for C16IsizeLessOrEqualLitBigError {
        fn fmt(&self, f: &mut ::core::fmt::Formatter<'_>) -> ::core::fmt::Result {
            match self {
                C16IsizeLessOrEqualLitBigError::LessOrEqualViolated => write!(
                    f,
                    "{} is too big. The value must be less or equal to {:#?}.",
                    stringify!(C16IsizeLessOrEqualLitBig),
                    100isize
                ),
            }
        }
    }
    #[verifier::external]
impl ::core::error::Error for C16IsizeLessOrEqualLitBigError {
        fn source(&self) -> Option<&(dyn ::core::error::Error + 'static)> {
            None
        }
    }
    impl C16IsizeLessOrEqualLitBig {
        pub fn try_new(
            raw_value: isize,
        ) -> (r: ::core::result::Result<Self, C16IsizeLessOrEqualLitBigError>) 
            ensures
                r == Self::spec_try_new(raw_value),
                r is Err ==> Self::spec_validate(Self::spec_sanitize(raw_value)) == Err::<(), C16IsizeLessOrEqualLitBigError>(r->Err_0),
        {
            let sanitized_value: isize = Self::__sanitize__(raw_value);
            #[allow(clippy::question_mark)]
            if let Err(e) = Self::__validate__(&sanitized_value) {
                return Err(e);
            }
            Ok(C16IsizeLessOrEqualLitBig(sanitized_value))
        }
        fn __sanitize__(mut value: isize) -> (r: isize) 
            ensures
                r == Self::spec_sanitize(value),
        {
            value
        }
        fn __validate__(val: &isize) -> (r: ::core::result::Result<(), C16IsizeLessOrEqualLitBigError>) 
            ensures
                r == Self::spec_validate(*val),
                r is Err ==> r == Self::spec_validate(*val),
        {
            let val = *val;
            if val > 100isize {
                return Err(C16IsizeLessOrEqualLitBigError::LessOrEqualViolated);
            }
            Ok(())
        }
    }
    impl C16IsizeLessOrEqualLitBig {
        #[inline]
        pub fn into_inner(self) -> (r: isize) 
            ensures
                r == self.spec_view(),
        {
            self.0
        }
    }
    #[cfg(test)]
    mod tests {
        use super::*;
    }

    // ======== inserted by the annotator: spec-mode items only ========
    impl C16IsizeLessOrEqualLitBig {
        pub closed spec fn spec_view(self) -> isize { self.0 }
        pub closed spec fn spec_sanitize(x: isize) -> isize { x }
        pub closed spec fn spec_validate(x: isize) -> ::core::result::Result<(), C16IsizeLessOrEqualLitBigError> {
            if !(x <= (100)) { Err(C16IsizeLessOrEqualLitBigError::LessOrEqualViolated) } else { Ok(()) }
        }
        pub closed spec fn spec_post(raw: isize, r: ::core::result::Result<Self, C16IsizeLessOrEqualLitBigError>) -> bool { r == Self::spec_try_new(raw) }
        pub closed spec fn spec_try_new(raw: isize) -> ::core::result::Result<Self, C16IsizeLessOrEqualLitBigError> {
            match Self::spec_validate(Self::spec_sanitize(raw)) {
                Ok(_) => Ok(C16IsizeLessOrEqualLitBig(Self::spec_sanitize(raw))),
                Err(e) => Err(e),
            }
        }
        #[verifier::type_invariant]
        closed spec fn spec_inv(self) -> bool { Self::spec_validate(self.0) is Ok }
    }
    impl C16IsizeLessOrEqualLitBig {
        pub proof fn lemma_c16_LessOrEqualViolated(x: isize)
            ensures (x <= (100)) <==> (x <= (100)),
        {
        }
    }
}
pub use __nutype_C16IsizeLessOrEqualLitBig__::C16IsizeLessOrEqualLitBig;
pub use __nutype_C16IsizeLessOrEqualLitBig__::C16IsizeLessOrEqualLitBigError;

}

// vacuity canary: this MUST fail; if it verifies the assumptions are inconsistent
proof fn __verif_canary() ensures false {}
} // verus!
fn main() {}
