// GENERATED on every run: real expansions of /repo's macro with contracts inserted in place.
#![allow(unused_imports, dead_code, unused_variables, unused_mut, non_snake_case, non_upper_case_globals, non_camel_case_types)]
use vstd::prelude::*;
use vstd::string::*;
use vstd::std_specs::iter::IteratorSpec;
verus! {
// ---- fixed prelude: ASSUMED contracts on the Rust standard library (trusted, listed in evidence) ----
// Every std function the generated code may call gets its own *uninterpreted* spec symbol, so a
// changed call (trim -> trim_start, to_lowercase -> to_ascii_lowercase, chars().count() -> len())
// fails a postcondition instead of turning into "unsupported".
pub uninterp spec fn spec_trim(s: Seq<char>) -> Seq<char>;
pub uninterp spec fn spec_trim_start(s: Seq<char>) -> Seq<char>;
pub uninterp spec fn spec_trim_end(s: Seq<char>) -> Seq<char>;
pub uninterp spec fn spec_lower(s: Seq<char>) -> Seq<char>;
pub uninterp spec fn spec_upper(s: Seq<char>) -> Seq<char>;
pub uninterp spec fn spec_ascii_lower(s: Seq<char>) -> Seq<char>;
pub uninterp spec fn spec_ascii_upper(s: Seq<char>) -> Seq<char>;

pub assume_specification[ str::trim ](s: &str) -> (r: &str)
    ensures r@ == spec_trim(s@);
pub assume_specification[ str::trim_start ](s: &str) -> (r: &str)
    ensures r@ == spec_trim_start(s@);
pub assume_specification[ str::trim_end ](s: &str) -> (r: &str)
    ensures r@ == spec_trim_end(s@);
pub assume_specification[ str::to_lowercase ](s: &str) -> (r: String)
    ensures r@ == spec_lower(s@);
pub assume_specification[ str::to_uppercase ](s: &str) -> (r: String)
    ensures r@ == spec_upper(s@);
pub assume_specification[ str::to_ascii_lowercase ](s: &str) -> (r: String)
    ensures r@ == spec_ascii_lower(s@);
pub assume_specification[ str::to_ascii_uppercase ](s: &str) -> (r: String)
    ensures r@ == spec_ascii_upper(s@);
pub uninterp spec fn spec_string_byte_len(s: Seq<char>) -> usize;
pub assume_specification[ String::len ](s: &String) -> (r: usize)
    ensures r == spec_string_byte_len(s@);
pub assume_specification<'a>[ <core::str::Chars<'a> as Iterator>::count ](c: core::str::Chars<'a>) -> (r: usize)
    ensures r == c.remaining().len();

global size_of usize == 8;

// opaque std error types that appear as payload of the generated `<X>ParseError` enums
#[verifier::external_type_specification]
#[verifier::external_body]
pub struct ExParseIntError(core::num::ParseIntError);
#[verifier::external_type_specification]
#[verifier::external_body]
pub struct ExParseFloatError(core::num::ParseFloatError);

// `impl Into<String>` arguments: the only facts assumed about the conversion.
pub broadcast axiom fn axiom_into_string_from_string(x: String, s: String)
    requires #[trigger] call_ensures(<String as Into<String>>::into, (x,), s)
    ensures s@ == x@;
pub broadcast axiom fn axiom_into_string_from_str(x: &str, s: String)
    requires #[trigger] call_ensures(<&str as Into<String>>::into, (x,), s)
    ensures s@ == x@;

// Algebraic facts about std's trim / case mapping used only by the C11 (canonical form) lemmas.
// A1-A3 idempotence; A4/A5 case mapping neither creates nor removes edge whitespace, i.e. trim and
// case mapping commute "up to" re-application.  Statements about std, not about nutype.
pub broadcast axiom fn axiom_trim_idem(s: Seq<char>)
    ensures #[trigger] spec_trim(spec_trim(s)) == spec_trim(s);
pub broadcast axiom fn axiom_lower_idem(s: Seq<char>)
    ensures #[trigger] spec_lower(spec_lower(s)) == spec_lower(s);
pub broadcast axiom fn axiom_upper_idem(s: Seq<char>)
    ensures #[trigger] spec_upper(spec_upper(s)) == spec_upper(s);
pub broadcast axiom fn axiom_trim_of_lower_of_trim(s: Seq<char>)
    ensures #[trigger] spec_trim(spec_lower(spec_trim(s))) == spec_lower(spec_trim(s));
pub broadcast axiom fn axiom_trim_of_upper_of_trim(s: Seq<char>)
    ensures #[trigger] spec_trim(spec_upper(spec_trim(s))) == spec_upper(spec_trim(s));
pub broadcast axiom fn axiom_lower_of_trim_of_lower(s: Seq<char>)
    ensures #[trigger] spec_lower(spec_trim(spec_lower(s))) == spec_trim(spec_lower(s));
pub broadcast axiom fn axiom_upper_of_trim_of_upper(s: Seq<char>)
    ensures #[trigger] spec_upper(spec_trim(spec_upper(s))) == spec_trim(spec_upper(s));
pub broadcast group group_c11_std_axioms {
    axiom_trim_idem, axiom_lower_idem, axiom_upper_idem,
    axiom_trim_of_lower_of_trim, axiom_trim_of_upper_of_trim,
    axiom_lower_of_trim_of_lower, axiom_upper_of_trim_of_upper,
}

// ---- auxiliary items of the catalogue (symbolic bounds, custom functions) ----
pub uninterp spec fn SYM_LO_I64() -> i64;
#[verifier::external_body]
pub fn sym_lo_i64() -> (r: i64) ensures r == SYM_LO_I64() { 3 }
pub uninterp spec fn SYM_HI_I64() -> i64;
#[verifier::external_body]
pub fn sym_hi_i64() -> (r: i64) ensures r == SYM_HI_I64() { 100 }
pub uninterp spec fn SYM_LO_U128() -> u128;
#[verifier::external_body]
pub fn sym_lo_u128() -> (r: u128) ensures r == SYM_LO_U128() { 3 }

pub mod d_c16_i64_ge_lt_embed {
    use super::*;
// NUTYPE_VERIF_INPUT #[nutype(validate(greater_or_equal = sym_lo_i64(), less = sym_hi_i64()), derive(Debug))] pub struct C16I64GeLtEmbed(i64);
#[doc(hidden)]
#[allow(
    non_snake_case,
    reason = "we keep original structure name which is probably CamelCase"
)]
mod __nutype_C16I64GeLtEmbed__ {
    use super::*;
    #[derive(Debug)]
    pub struct C16I64GeLtEmbed(i64);
    #[derive(Debug, Clone, PartialEq, Eq)]
    #[allow(clippy::enum_variant_names)]
    pub enum C16I64GeLtEmbedError {
        GreaterOrEqualViolated,
        LessViolated,
    }
    #[verifier::external]
impl ::core::fmt::Display for C16I64GeLtEmbedError {
        fn fmt(&self, f: &mut ::core::fmt::Formatter<'_>) -> ::core::fmt::Result {
            match self {
                C16I64GeLtEmbedError::GreaterOrEqualViolated => write!(
                    f,
                    "{} is too small. The value must be greater or equal to {:#?}.",
                    stringify!(C16I64GeLtEmbed),
                    sym_lo_i64()
                ),
                C16I64GeLtEmbedError::LessViolated => write!(
                    f,
                    "{} is too big. The value must be less than {:#?}.",
                    stringify!(C16I64GeLtEmbed),
                    sym_hi_i64()
                ),
            }
        }
    }
    #[verifier::external]
impl ::core::error::Error for C16I64GeLtEmbedError {
        fn source(&self) -> Option<&(dyn ::core::error::Error + 'static)> {
            None
        }
    }
    impl C16I64GeLtEmbed {
        pub fn try_new(raw_value: i64) -> (r: ::core::result::Result<Self, C16I64GeLtEmbedError>) 
            ensures
                r == Self::spec_try_new(raw_value),
                r is Err ==> Self::spec_validate(Self::spec_sanitize(raw_value)) == Err::<(), C16I64GeLtEmbedError>(r->Err_0),
        {
            let sanitized_value: i64 = Self::__sanitize__(raw_value);
            #[allow(clippy::question_mark)]
            if let Err(e) = Self::__validate__(&sanitized_value) {
                return Err(e);
            }
            Ok(C16I64GeLtEmbed(sanitized_value))
        }
        fn __sanitize__(mut value: i64) -> (r: i64) 
            ensures
                r == Self::spec_sanitize(value),
        {
            value
        }
        fn __validate__(val: &i64) -> (r: ::core::result::Result<(), C16I64GeLtEmbedError>) 
            ensures
                r == Self::spec_validate(*val),
                r is Err ==> r == Self::spec_validate(*val),
        {
            let val = *val;
            if val < sym_lo_i64() {
                return Err(C16I64GeLtEmbedError::GreaterOrEqualViolated);
            }
            if val >= sym_hi_i64() {
                return Err(C16I64GeLtEmbedError::LessViolated);
            }
            Ok(())
        }
    }
    impl C16I64GeLtEmbed {
        #[inline]
        pub fn into_inner(self) -> (r: i64) 
            ensures
                r == self.spec_view(),
        {
            self.0
        }
    }
    #[cfg(test)]
    mod tests {
        use super::*;
        #[test]
        fn should_have_consistent_lower_and_upper_boundaries() {
            assert!
            (sym_hi_i64() >= sym_lo_i64(),
            "\nInconsistent lower and upper boundaries for type `C16I64GeLtEmbed`\nThe upper boundary `sym_hi_i64()` must be greater than or equal to the lower boundary `sym_lo_i64()`\nNote: the test is generated automatically by #[nutype] macro.\n");
        }
    }

    // ======== inserted by the annotator: spec-mode items only ========
    impl C16I64GeLtEmbed {
        pub closed spec fn spec_view(self) -> i64 { self.0 }
        pub closed spec fn spec_sanitize(x: i64) -> i64 { x }
        pub closed spec fn spec_validate(x: i64) -> ::core::result::Result<(), C16I64GeLtEmbedError> {
            if !(x >= (SYM_LO_I64())) { Err(C16I64GeLtEmbedError::GreaterOrEqualViolated) } else if !(x < (SYM_HI_I64())) { Err(C16I64GeLtEmbedError::LessViolated) } else { Ok(()) }
        }
        pub closed spec fn spec_post(raw: i64, r: ::core::result::Result<Self, C16I64GeLtEmbedError>) -> bool { r == Self::spec_try_new(raw) }
        pub closed spec fn spec_try_new(raw: i64) -> ::core::result::Result<Self, C16I64GeLtEmbedError> {
            match Self::spec_validate(Self::spec_sanitize(raw)) {
                Ok(_) => Ok(C16I64GeLtEmbed(Self::spec_sanitize(raw))),
                Err(e) => Err(e),
            }
        }
        #[verifier::type_invariant]
        closed spec fn spec_inv(self) -> bool { Self::spec_validate(self.0) is Ok }
    }
    impl C16I64GeLtEmbed {
        pub proof fn lemma_c16_GreaterOrEqualViolated(x: i64)
            ensures (x >= (SYM_LO_I64())) <==> (x >= (SYM_LO_I64())),
        {
        }
    }
    impl C16I64GeLtEmbed {
        pub proof fn lemma_c16_LessViolated(x: i64)
            ensures (x < (SYM_HI_I64())) <==> (x < (SYM_HI_I64())),
        {
        }
    }
}
pub use __nutype_C16I64GeLtEmbed__::C16I64GeLtEmbed;
pub use __nutype_C16I64GeLtEmbed__::C16I64GeLtEmbedError;

}
pub mod d_c16_i64_le_gt_embed {
    use super::*;
// NUTYPE_VERIF_INPUT #[nutype(validate(less_or_equal = sym_hi_i64(), greater = sym_lo_i64()), derive(Debug))] pub struct C16I64LeGtEmbed(i64);
#[doc(hidden)]
#[allow(
    non_snake_case,
    reason = "we keep original structure name which is probably CamelCase"
)]
mod __nutype_C16I64LeGtEmbed__ {
    use super::*;
    #[derive(Debug)]
    pub struct C16I64LeGtEmbed(i64);
    #[derive(Debug, Clone, PartialEq, Eq)]
    #[allow(clippy::enum_variant_names)]
    pub enum C16I64LeGtEmbedError {
        LessOrEqualViolated,
        GreaterViolated,
    }
    #[verifier::external]
impl ::core::fmt::Display for C16I64LeGtEmbedError {
        fn fmt(&self, f: &mut ::core::fmt::Formatter<'_>) -> ::core::fmt::Result {
            match self {
                C16I64LeGtEmbedError::LessOrEqualViolated => write!(
                    f,
                    "{} is too big. The value must be less or equal to {:#?}.",
                    stringify!(C16I64LeGtEmbed),
                    sym_hi_i64()
                ),
                C16I64LeGtEmbedError::GreaterViolated => write!(
                    f,
                    "{} is too small. The value must be greater than {:#?}.",
                    stringify!(C16I64LeGtEmbed),
                    sym_lo_i64()
                ),
            }
        }
    }
    #[verifier::external]
impl ::core::error::Error for C16I64LeGtEmbedError {
        fn source(&self) -> Option<&(dyn ::core::error::Error + 'static)> {
            None
        }
    }
    impl C16I64LeGtEmbed {
        pub fn try_new(raw_value: i64) -> (r: ::core::result::Result<Self, C16I64LeGtEmbedError>) 
            ensures
                r == Self::spec_try_new(raw_value),
                r is Err ==> Self::spec_validate(Self::spec_sanitize(raw_value)) == Err::<(), C16I64LeGtEmbedError>(r->Err_0),
        {
            let sanitized_value: i64 = Self::__sanitize__(raw_value);
            #[allow(clippy::question_mark)]
            if let Err(e) = Self::__validate__(&sanitized_value) {
                return Err(e);
            }
            Ok(C16I64LeGtEmbed(sanitized_value))
        }
        fn __sanitize__(mut value: i64) -> (r: i64) 
            ensures
                r == Self::spec_sanitize(value),
        {
            value
        }
        fn __validate__(val: &i64) -> (r: ::core::result::Result<(), C16I64LeGtEmbedError>) 
            ensures
                r == Self::spec_validate(*val),
                r is Err ==> r == Self::spec_validate(*val),
        {
            let val = *val;
            if val > sym_hi_i64() {
                return Err(C16I64LeGtEmbedError::LessOrEqualViolated);
            }
            if val <= sym_lo_i64() {
                return Err(C16I64LeGtEmbedError::GreaterViolated);
            }
            Ok(())
        }
    }
    impl C16I64LeGtEmbed {
        #[inline]
        pub fn into_inner(self) -> (r: i64) 
            ensures
                r == self.spec_view(),
        {
            self.0
        }
    }
    #[cfg(test)]
    mod tests {
        use super::*;
        #[test]
        fn should_have_consistent_lower_and_upper_boundaries() {
            assert!
            (sym_hi_i64() >= sym_lo_i64(),
            "\nInconsistent lower and upper boundaries for type `C16I64LeGtEmbed`\nThe upper boundary `sym_hi_i64()` must be greater than or equal to the lower boundary `sym_lo_i64()`\nNote: the test is generated automatically by #[nutype] macro.\n");
        }
    }

    // ======== inserted by the annotator: spec-mode items only ========
    impl C16I64LeGtEmbed {
        pub closed spec fn spec_view(self) -> i64 { self.0 }
        pub closed spec fn spec_sanitize(x: i64) -> i64 { x }
        pub closed spec fn spec_validate(x: i64) -> ::core::result::Result<(), C16I64LeGtEmbedError> {
            if !(x <= (SYM_HI_I64())) { Err(C16I64LeGtEmbedError::LessOrEqualViolated) } else if !(x > (SYM_LO_I64())) { Err(C16I64LeGtEmbedError::GreaterViolated) } else { Ok(()) }
        }
        pub closed spec fn spec_post(raw: i64, r: ::core::result::Result<Self, C16I64LeGtEmbedError>) -> bool { r == Self::spec_try_new(raw) }
        pub closed spec fn spec_try_new(raw: i64) -> ::core::result::Result<Self, C16I64LeGtEmbedError> {
            match Self::spec_validate(Self::spec_sanitize(raw)) {
                Ok(_) => Ok(C16I64LeGtEmbed(Self::spec_sanitize(raw))),
                Err(e) => Err(e),
            }
        }
        #[verifier::type_invariant]
        closed spec fn spec_inv(self) -> bool { Self::spec_validate(self.0) is Ok }
    }
    impl C16I64LeGtEmbed {
        pub proof fn lemma_c16_LessOrEqualViolated(x: i64)
            ensures (x <= (SYM_HI_I64())) <==> (x <= (SYM_HI_I64())),
        {
        }
    }
    impl C16I64LeGtEmbed {
        pub proof fn lemma_c16_GreaterViolated(x: i64)
            ensures (x > (SYM_LO_I64())) <==> (x > (SYM_LO_I64())),
        {
        }
    }
}
pub use __nutype_C16I64LeGtEmbed__::C16I64LeGtEmbed;
pub use __nutype_C16I64LeGtEmbed__::C16I64LeGtEmbedError;

}
pub mod d_c16_u128_greater_sym {
    use super::*;
// NUTYPE_VERIF_INPUT #[nutype(validate(greater = sym_lo_u128()), derive(Debug))] pub struct C16U128GreaterSym(u128);
#[doc(hidden)]
#[allow(
    non_snake_case,
    reason = "we keep original structure name which is probably CamelCase"
)]
mod __nutype_C16U128GreaterSym__ {
    use super::*;
    #[derive(Debug)]
    pub struct C16U128GreaterSym(u128);
    #[derive(Debug, Clone, PartialEq, Eq)]
    #[allow(clippy::enum_variant_names)]
    pub enum C16U128GreaterSymError {
        GreaterViolated,
    }
    #[verifier::external]
impl ::core::fmt::Display for C16U128GreaterSymError {
        fn fmt(&self, f: &mut ::core::fmt::Formatter<'_>) -> ::core::fmt::Result {
            match self {
                C16U128GreaterSymError::GreaterViolated => write!(
                    f,
                    "{} is too small. The value must be greater than {:#?}.",
                    stringify!(C16U128GreaterSym),
                    sym_lo_u128()
                ),
            }
        }
    }
    #[verifier::external]
impl ::core::error::Error for C16U128GreaterSymError {
        fn source(&self) -> Option<&(dyn ::core::error::Error + 'static)> {
            None
        }
    }
    impl C16U128GreaterSym {
        pub fn try_new(raw_value: u128) -> (r: ::core::result::Result<Self, C16U128GreaterSymError>) 
            ensures
                r == Self::spec_try_new(raw_value),
                r is Err ==> Self::spec_validate(Self::spec_sanitize(raw_value)) == Err::<(), C16U128GreaterSymError>(r->Err_0),
        {
            let sanitized_value: u128 = Self::__sanitize__(raw_value);
            #[allow(clippy::question_mark)]
            if let Err(e) = Self::__validate__(&sanitized_value) {
                return Err(e);
            }
            Ok(C16U128GreaterSym(sanitized_value))
        }
        fn __sanitize__(mut value: u128) -> (r: u128) 
            ensures
                r == Self::spec_sanitize(value),
        {
            value
        }
        fn __validate__(val: &u128) -> (r: ::core::result::Result<(), C16U128GreaterSymError>) 
            ensures
                r == Self::spec_validate(*val),
                r is Err ==> r == Self::spec_validate(*val),
        {
            let val = *val;
            if val <= sym_lo_u128() {
                return Err(C16U128GreaterSymError::GreaterViolated);
            }
            Ok(())
        }
    }
    impl C16U128GreaterSym {
        #[inline]
        pub fn into_inner(self) -> (r: u128) 
            ensures
                r == self.spec_view(),
        {
            self.0
        }
    }
    #[cfg(test)]
    mod tests {
        use super::*;
    }

    // ======== inserted by the annotator: spec-mode items only ========
    impl C16U128GreaterSym {
        pub closed spec fn spec_view(self) -> u128 { self.0 }
        pub closed spec fn spec_sanitize(x: u128) -> u128 { x }
        pub closed spec fn spec_validate(x: u128) -> ::core::result::Result<(), C16U128GreaterSymError> {
            if !(x > (SYM_LO_U128())) { Err(C16U128GreaterSymError::GreaterViolated) } else { Ok(()) }
        }
        pub closed spec fn spec_post(raw: u128, r: ::core::result::Result<Self, C16U128GreaterSymError>) -> bool { r == Self::spec_try_new(raw) }
        pub closed spec fn spec_try_new(raw: u128) -> ::core::result::Result<Self, C16U128GreaterSymError> {
            match Self::spec_validate(Self::spec_sanitize(raw)) {
                Ok(_) => Ok(C16U128GreaterSym(Self::spec_sanitize(raw))),
                Err(e) => Err(e),
            }
        }
        #[verifier::type_invariant]
        closed spec fn spec_inv(self) -> bool { Self::spec_validate(self.0) is Ok }
    }
    impl C16U128GreaterSym {
        pub proof fn lemma_c16_GreaterViolated(x: u128)
            ensures (x > (SYM_LO_U128())) <==> (x > (SYM_LO_U128())),
        {
        }
    }
}
pub use __nutype_C16U128GreaterSym__::C16U128GreaterSym;
pub use __nutype_C16U128GreaterSym__::C16U128GreaterSymError;

}
pub mod d_c16_u128_greater_lit_p {
    use super::*;
// NUTYPE_VERIF_INPUT #[nutype(validate(greater = 7), derive(Debug))] pub struct C16U128GreaterLitP(u128);
#[doc(hidden)]
#[allow(
    non_snake_case,
    reason = "we keep original structure name which is probably CamelCase"
)]
mod __nutype_C16U128GreaterLitP__ {
    use super::*;
    #[derive(Debug)]
    pub struct C16U128GreaterLitP(u128);
    #[derive(Debug, Clone, PartialEq, Eq)]
    #[allow(clippy::enum_variant_names)]
    pub enum C16U128GreaterLitPError {
        GreaterViolated,
    }
    #[verifier::external]
impl ::core::fmt::Display for C16U128GreaterLitPError {
        fn fmt(&self, f: &mut ::core::fmt::Formatter<'_>) -> ::core::fmt::Result {
            match self {
                C16U128GreaterLitPError::GreaterViolated => write!(
                    f,
                    "{} is too small. The value must be greater than {:#?}.",
                    stringify!(C16U128GreaterLitP),
                    7u128
                ),
            }
        }
    }
    #[verifier::external]
impl ::core::error::Error for C16U128GreaterLitPError {
        fn source(&self) -> Option<&(dyn ::core::error::Error + 'static)> {
            None
        }
    }
    impl C16U128GreaterLitP {
        pub fn try_new(raw_value: u128) -> (r: ::core::result::Result<Self, C16U128GreaterLitPError>) 
            ensures
                r == Self::spec_try_new(raw_value),
                r is Err ==> Self::spec_validate(Self::spec_sanitize(raw_value)) == Err::<(), C16U128GreaterLitPError>(r->Err_0),
        {
            let sanitized_value: u128 = Self::__sanitize__(raw_value);
            #[allow(clippy::question_mark)]
            if let Err(e) = Self::__validate__(&sanitized_value) {
                return Err(e);
            }
            Ok(C16U128GreaterLitP(sanitized_value))
        }
        fn __sanitize__(mut value: u128) -> (r: u128) 
            ensures
                r == Self::spec_sanitize(value),
        {
            value
        }
        fn __validate__(val: &u128) -> (r: ::core::result::Result<(), C16U128GreaterLitPError>) 
            ensures
                r == Self::spec_validate(*val),
                r is Err ==> r == Self::spec_validate(*val),
        {
            let val = *val;
            if val <= 7u128 {
                return Err(C16U128GreaterLitPError::GreaterViolated);
            }
            Ok(())
        }
    }
    impl C16U128GreaterLitP {
        #[inline]
        pub fn into_inner(self) -> (r: u128) 
            ensures
                r == self.spec_view(),
        {
            self.0
        }
    }
    #[cfg(test)]
    mod tests {
        use super::*;
    }

    // ======== inserted by the annotator: spec-mode items only ========
    impl C16U128GreaterLitP {
        pub closed spec fn spec_view(self) -> u128 { self.0 }
        pub closed spec fn spec_sanitize(x: u128) -> u128 { x }
        pub closed spec fn spec_validate(x: u128) -> ::core::result::Result<(), C16U128GreaterLitPError> {
            if !(x > (7)) { Err(C16U128GreaterLitPError::GreaterViolated) } else { Ok(()) }
        }
        pub closed spec fn spec_post(raw: u128, r: ::core::result::Result<Self, C16U128GreaterLitPError>) -> bool { r == Self::spec_try_new(raw) }
        pub closed spec fn spec_try_new(raw: u128) -> ::core::result::Result<Self, C16U128GreaterLitPError> {
            match Self::spec_validate(Self::spec_sanitize(raw)) {
                Ok(_) => Ok(C16U128GreaterLitP(Self::spec_sanitize(raw))),
                Err(e) => Err(e),
            }
        }
        #[verifier::type_invariant]
        closed spec fn spec_inv(self) -> bool { Self::spec_validate(self.0) is Ok }
    }
    impl C16U128GreaterLitP {
        pub proof fn lemma_c16_GreaterViolated(x: u128)
            ensures (x > (7)) <==> (x > (7)),
        {
        }
    }
}
pub use __nutype_C16U128GreaterLitP__::C16U128GreaterLitP;
pub use __nutype_C16U128GreaterLitP__::C16U128GreaterLitPError;

}
pub mod d_c16_u128_greater_lit_big {
    use super::*;
// NUTYPE_VERIF_INPUT #[nutype(validate(greater = 100), derive(Debug))] pub struct C16U128GreaterLitBig(u128);
#[doc(hidden)]
#[allow(
    non_snake_case,
    reason = "we keep original structure name which is probably CamelCase"
)]
mod __nutype_C16U128GreaterLitBig__ {
    use super::*;
    #[derive(Debug)]
    pub struct C16U128GreaterLitBig(u128);
    #[derive(Debug, Clone, PartialEq, Eq)]
    #[allow(clippy::enum_variant_names)]
    pub enum C16U128GreaterLitBigError {
        GreaterViolated,
    }
    #[verifier::external]
impl ::core::fmt::Display for C16U128GreaterLitBigError {
        fn fmt(&self, f: &mut ::core::fmt::Formatter<'_>) -> ::core::fmt::Result {
            match self {
                C16U128GreaterLitBigError::GreaterViolated => write!(
                    f,
                    "{} is too small. The value must be greater than {:#?}.",
                    stringify!(C16U128GreaterLitBig),
                    100u128
                ),
            }
        }
    }
    #[verifier::external]
impl ::core::error::Error for C16U128GreaterLitBigError {
        fn source(&self) -> Option<&(dyn ::core::error::Error + 'static)> {
            None
        }
    }
    impl C16U128GreaterLitBig {
        pub fn try_new(raw_value: u128) -> (r: ::core::result::Result<Self, C16U128GreaterLitBigError>) 
            ensures
                r == Self::spec_try_new(raw_value),
                r is Err ==> Self::spec_validate(Self::spec_sanitize(raw_value)) == Err::<(), C16U128GreaterLitBigError>(r->Err_0),
        {
            let sanitized_value: u128 = Self::__sanitize__(raw_value);
            #[allow(clippy::question_mark)]
            if let Err(e) = Self::__validate__(&sanitized_value) {
                return Err(e);
            }
            Ok(C16U128GreaterLitBig(sanitized_value))
        }
        fn __sanitize__(mut value: u128) -> (r: u128) 
            ensures
                r == Self::spec_sanitize(value),
        {
            value
        }
        fn __validate__(val: &u128) -> (r: ::core::result::Result<(), C16U128GreaterLitBigError>) 
            ensures
                r == Self::spec_validate(*val),
                r is Err ==> r == Self::spec_validate(*val),
        {
            let val = *val;
            if val <= 100u128 {
                return Err(C16U128GreaterLitBigError::GreaterViolated);
            }
            Ok(())
        }
    }
    impl C16U128GreaterLitBig {
        #[inline]
        pub fn into_inner(self) -> (r: u128) 
            ensures
                r == self.spec_view(),
        {
            self.0
        }
    }
    #[cfg(test)]
    mod tests {
        use super::*;
    }

    // ======== inserted by the annotator: spec-mode items only ========
    impl C16U128GreaterLitBig {
        pub closed spec fn spec_view(self) -> u128 { self.0 }
        pub closed spec fn spec_sanitize(x: u128) -> u128 { x }
        pub closed spec fn spec_validate(x: u128) -> ::core::result::Result<(), C16U128GreaterLitBigError> {
            if !(x > (100)) { Err(C16U128GreaterLitBigError::GreaterViolated) } else { Ok(()) }
        }
        pub closed spec fn spec_post(raw: u128, r: ::core::result::Result<Self, C16U128GreaterLitBigError>) -> bool { r == Self::spec_try_new(raw) }
        pub closed spec fn spec_try_new(raw: u128) -> ::core::result::Result<Self, C16U128GreaterLitBigError> {
            match Self::spec_validate(Self::spec_sanitize(raw)) {
                Ok(_) => Ok(C16U128GreaterLitBig(Self::spec_sanitize(raw))),
                Err(e) => Err(e),
            }
        }
        #[verifier::type_invariant]
        closed spec fn spec_inv(self) -> bool { Self::spec_validate(self.0) is Ok }
    }
    impl C16U128GreaterLitBig {
        pub proof fn lemma_c16_GreaterViolated(x: u128)
            ensures (x > (100)) <==> (x > (100)),
        {
        }
    }
}
pub use __nutype_C16U128GreaterLitBig__::C16U128GreaterLitBig;
pub use __nutype_C16U128GreaterLitBig__::C16U128GreaterLitBigError;

}
pub mod d_c16_u128_greater_or_equal_sym {
    use super::*;
// NUTYPE_VERIF_INPUT #[nutype(validate(greater_or_equal = sym_lo_u128()), derive(Debug))] pub struct C16U128GreaterOrEqualSym(u128);
#[doc(hidden)]
#[allow(
    non_snake_case,
    reason = "we keep original structure name which is probably CamelCase"
)]
mod __nutype_C16U128GreaterOrEqualSym__ {
    use super::*;
    #[derive(Debug)]
    pub struct C16U128GreaterOrEqualSym(u128);
    #[derive(Debug, Clone, PartialEq, Eq)]
    #[allow(clippy::enum_variant_names)]
    pub enum C16U128GreaterOrEqualSymError {
        GreaterOrEqualViolated,
    }
    #[verifier::external]
impl ::core::fmt::Display for C16U128GreaterOrEqualSymError {
        fn fmt(&self, f: &mut ::core::fmt::Formatter<'_>) -> ::core::fmt::Result {
            match self {
                C16U128GreaterOrEqualSymError::GreaterOrEqualViolated => write!(
                    f,
                    "{} is too small. The value must be greater or equal to {:#?}.",
                    stringify!(C16U128GreaterOrEqualSym),
                    sym_lo_u128()
                ),
            }
        }
    }
    #[verifier::external]
impl ::core::error::Error for C16U128GreaterOrEqualSymError {
        fn source(&self) -> Option<&(dyn ::core::error::Error + 'static)> {
            None
        }
    }
    impl C16U128GreaterOrEqualSym {
        pub fn try_new(
            raw_value: u128,
        ) -> (r: ::core::result::Result<Self, C16U128GreaterOrEqualSymError>) 
            ensures
                r == Self::spec_try_new(raw_value),
                r is Err ==> Self::spec_validate(Self::spec_sanitize(raw_value)) == Err::<(), C16U128GreaterOrEqualSymError>(r->Err_0),
        {
            let sanitized_value: u128 = Self::__sanitize__(raw_value);
            #[allow(clippy::question_mark)]
            if let Err(e) = Self::__validate__(&sanitized_value) {
                return Err(e);
            }
            Ok(C16U128GreaterOrEqualSym(sanitized_value))
        }
        fn __sanitize__(mut value: u128) -> (r: u128) 
            ensures
                r == Self::spec_sanitize(value),
        {
            value
        }
        fn __validate__(val: &u128) -> (r: ::core::result::Result<(), C16U128GreaterOrEqualSymError>) 
            ensures
                r == Self::spec_validate(*val),
                r is Err ==> r == Self::spec_validate(*val),
        {
            let val = *val;
            if val < sym_lo_u128() {
                return Err(C16U128GreaterOrEqualSymError::GreaterOrEqualViolated);
            }
            Ok(())
        }
    }
    impl C16U128GreaterOrEqualSym {
        #[inline]
        pub fn into_inner(self) -> (r: u128) 
            ensures
                r == self.spec_view(),
        {
            self.0
        }
    }
    #[cfg(test)]
    mod tests {
        use super::*;
    }

    // ======== inserted by the annotator: spec-mode items only ========
    impl C16U128GreaterOrEqualSym {
        pub closed spec fn spec_view(self) -> u128 { self.0 }
        pub closed spec fn spec_sanitize(x: u128) -> u128 { x }
        pub closed spec fn spec_validate(x: u128) -> ::core::result::Result<(), C16U128GreaterOrEqualSymError> {
            if !(x >= (SYM_LO_U128())) { Err(C16U128GreaterOrEqualSymError::GreaterOrEqualViolated) } else { Ok(()) }
        }
        pub closed spec fn spec_post(raw: u128, r: ::core::result::Result<Self, C16U128GreaterOrEqualSymError>) -> bool { r == Self::spec_try_new(raw) }
        pub closed spec fn spec_try_new(raw: u128) -> ::core::result::Result<Self, C16U128GreaterOrEqualSymError> {
            match Self::spec_validate(Self::spec_sanitize(raw)) {
                Ok(_) => Ok(C16U128GreaterOrEqualSym(Self::spec_sanitize(raw))),
                Err(e) => Err(e),
            }
        }
        #[verifier::type_invariant]
        closed spec fn spec_inv(self) -> bool { Self::spec_validate(self.0) is Ok }
    }
    impl C16U128GreaterOrEqualSym {
        pub proof fn lemma_c16_GreaterOrEqualViolated(x: u128)
            ensures (x >= (SYM_LO_U128())) <==> (x >= (SYM_LO_U128())),
        {
        }
    }
}
pub use __nutype_C16U128GreaterOrEqualSym__::C16U128GreaterOrEqualSym;
pub use __nutype_C16U128GreaterOrEqualSym__::C16U128GreaterOrEqualSymError;

}
pub mod d_c16_u128_greater_or_equal_lit_p {
    use super::*;
// NUTYPE_VERIF_INPUT #[nutype(validate(greater_or_equal = 7), derive(Debug))] pub struct C16U128GreaterOrEqualLitP(u128);
#[doc(hidden)]
#[allow(
    non_snake_case,
    reason = "we keep original structure name which is probably CamelCase"
)]
mod __nutype_C16U128GreaterOrEqualLitP__ {
    use super::*;
    #[derive(Debug)]
    pub struct C16U128GreaterOrEqualLitP(u128);
    #[derive(Debug, Clone, PartialEq, Eq)]
    #[allow(clippy::enum_variant_names)]
    pub enum C16U128GreaterOrEqualLitPError {
        GreaterOrEqualViolated,
    }
    #[verifier::external]
impl ::core::fmt::Display for C16U128GreaterOrEqualLitPError {
        fn fmt(&self, f: &mut ::core::fmt::Formatter<'_>) -> ::core::fmt::Result {
            match self {
                C16U128GreaterOrEqualLitPError::GreaterOrEqualViolated => write!(
                    f,
                    "{} is too small. The value must be greater or equal to {:#?}.",
                    stringify!(C16U128GreaterOrEqualLitP),
                    7u128
                ),
            }
        }
    }
    #[verifier::external]
impl ::core::error::Error for C16U128GreaterOrEqualLitPError {
        fn source(&self) -> Option<&(dyn ::core::error::Error + 'static)> {
            None
        }
    }
    impl C16U128GreaterOrEqualLitP {
        pub fn try_new(
            raw_value: u128,
        ) -> (r: ::core::result::Result<Self, C16U128GreaterOrEqualLitPError>) 
            ensures
                r == Self::spec_try_new(raw_value),
                r is Err ==> Self::spec_validate(Self::spec_sanitize(raw_value)) == Err::<(), C16U128GreaterOrEqualLitPError>(r->Err_0),
        {
            let sanitized_value: u128 = Self::__sanitize__(raw_value);
            #[allow(clippy::question_mark)]
            if let Err(e) = Self::__validate__(&sanitized_value) {
                return Err(e);
            }
            Ok(C16U128GreaterOrEqualLitP(sanitized_value))
        }
        fn __sanitize__(mut value: u128) -> (r: u128) 
            ensures
                r == Self::spec_sanitize(value),
        {
            value
        }
        fn __validate__(val: &u128) -> (r: ::core::result::Result<(), C16U128GreaterOrEqualLitPError>) 
            ensures
                r == Self::spec_validate(*val),
                r is Err ==> r == Self::spec_validate(*val),
        {
            let val = *val;
            if val < 7u128 {
                return Err(C16U128GreaterOrEqualLitPError::GreaterOrEqualViolated);
            }
            Ok(())
        }
    }
    impl C16U128GreaterOrEqualLitP {
        #[inline]
        pub fn into_inner(self) -> (r: u128) 
            ensures
                r == self.spec_view(),
        {
            self.0
        }
    }
    #[cfg(test)]
    mod tests {
        use super::*;
    }

    // ======== inserted by the annotator: spec-mode items only ========
    impl C16U128GreaterOrEqualLitP {
        pub closed spec fn spec_view(self) -> u128 { self.0 }
        pub closed spec fn spec_sanitize(x: u128) -> u128 { x }
        pub closed spec fn spec_validate(x: u128) -> ::core::result::Result<(), C16U128GreaterOrEqualLitPError> {
            if !(x >= (7)) { Err(C16U128GreaterOrEqualLitPError::GreaterOrEqualViolated) } else { Ok(()) }
        }
        pub closed spec fn spec_post(raw: u128, r: ::core::result::Result<Self, C16U128GreaterOrEqualLitPError>) -> bool { r == Self::spec_try_new(raw) }
        pub closed spec fn spec_try_new(raw: u128) -> ::core::result::Result<Self, C16U128GreaterOrEqualLitPError> {
            match Self::spec_validate(Self::spec_sanitize(raw)) {
                Ok(_) => Ok(C16U128GreaterOrEqualLitP(Self::spec_sanitize(raw))),
                Err(e) => Err(e),
            }
        }
        #[verifier::type_invariant]
        closed spec fn spec_inv(self) -> bool { Self::spec_validate(self.0) is Ok }
    }
    impl C16U128GreaterOrEqualLitP {
        pub proof fn lemma_c16_GreaterOrEqualViolated(x: u128)
            ensures (x >= (7)) <==> (x >= (7)),
        {
        }
    }
}
pub use __nutype_C16U128GreaterOrEqualLitP__::C16U128GreaterOrEqualLitP;
pub use __nutype_C16U128GreaterOrEqualLitP__::C16U128GreaterOrEqualLitPError;

}
pub mod d_c16_u128_greater_or_equal_lit_big {
    use super::*;
// NUTYPE_VERIF_INPUT #[nutype(validate(greater_or_equal = 100), derive(Debug))] pub struct C16U128GreaterOrEqualLitBig(u128);
#[doc(hidden)]
#[allow(
    non_snake_case,
    reason = "we keep original structure name which is probably CamelCase"
)]
mod __nutype_C16U128GreaterOrEqualLitBig__ {
    use super::*;
    #[derive(Debug)]
    pub struct C16U128GreaterOrEqualLitBig(u128);
    #[derive(Debug, Clone, PartialEq, Eq)]
    #[allow(clippy::enum_variant_names)]
    pub enum C16U128GreaterOrEqualLitBigError {
        GreaterOrEqualViolated,
    }
    #[verifier::external]
impl ::core::fmt::Display for C16U128GreaterOrEqualLitBigError {
        fn fmt(&self, f: &mut ::core::fmt::Formatter<'_>) -> ::core::fmt::Result {
            match self {
                C16U128GreaterOrEqualLitBigError::GreaterOrEqualViolated => write!(
                    f,
                    "{} is too small. The value must be greater or equal to {:#?}.",
                    stringify!(C16U128GreaterOrEqualLitBig),
                    100u128
                ),
            }
        }
    }
    #[verifier::external]
impl ::core::error::Error for C16U128GreaterOrEqualLitBigError {
        fn source(&self) -> Option<&(dyn ::core::error::Error + 'static)> {
            None
        }
    }
    impl C16U128GreaterOrEqualLitBig {
        pub fn try_new(
            raw_value: u128,
        ) -> (r: ::core::result::Result<Self, C16U128GreaterOrEqualLitBigError>) 
            ensures
                r == Self::spec_try_new(raw_value),
                r is Err ==> Self::spec_validate(Self::spec_sanitize(raw_value)) == Err::<(), C16U128GreaterOrEqualLitBigError>(r->Err_0),
        {
            let sanitized_value: u128 = Self::__sanitize__(raw_value);
            #[allow(clippy::question_mark)]
            if let Err(e) = Self::__validate__(&sanitized_value) {
                return Err(e);
            }
            Ok(C16U128GreaterOrEqualLitBig(sanitized_value))
        }
        fn __sanitize__(mut value: u128) -> (r: u128) 
            ensures
                r == Self::spec_sanitize(value),
        {
            value
        }
        fn __validate__(
            val: &u128,
        ) -> (r: ::core::result::Result<(), C16U128GreaterOrEqualLitBigError>) 
            ensures
                r == Self::spec_validate(*val),
                r is Err ==> r == Self::spec_validate(*val),
        {
            let val = *val;
            if val < 100u128 {
                return Err(C16U128GreaterOrEqualLitBigError::GreaterOrEqualViolated);
            }
            Ok(())
        }
    }
    impl C16U128GreaterOrEqualLitBig {
        #[inline]
        pub fn into_inner(self) -> (r: u128) 
            ensures
                r == self.spec_view(),
        {
            self.0
        }
    }
    #[cfg(test)]
    mod tests {
        use super::*;
    }

    // ======== inserted by the annotator: spec-mode items only ========
    impl C16U128GreaterOrEqualLitBig {
        pub closed spec fn spec_view(self) -> u128 { self.0 }
        pub closed spec fn spec_sanitize(x: u128) -> u128 { x }
        pub closed spec fn spec_validate(x: u128) -> ::core::result::Result<(), C16U128GreaterOrEqualLitBigError> {
            if !(x >= (100)) { Err(C16U128GreaterOrEqualLitBigError::GreaterOrEqualViolated) } else { Ok(()) }
        }
        pub closed spec fn spec_post(raw: u128, r: ::core::result::Result<Self, C16U128GreaterOrEqualLitBigError>) -> bool { r == Self::spec_try_new(raw) }
        pub closed spec fn spec_try_new(raw: u128) -> ::core::result::Result<Self, C16U128GreaterOrEqualLitBigError> {
            match Self::spec_validate(Self::spec_sanitize(raw)) {
                Ok(_) => Ok(C16U128GreaterOrEqualLitBig(Self::spec_sanitize(raw))),
                Err(e) => Err(e),
            }
        }
        #[verifier::type_invariant]
        closed spec fn spec_inv(self) -> bool { Self::spec_validate(self.0) is Ok }
    }
    impl C16U128GreaterOrEqualLitBig {
        pub proof fn lemma_c16_GreaterOrEqualViolated(x: u128)
            ensures (x >= (100)) <==> (x >= (100)),
        {
        }
    }
}
pub use __nutype_C16U128GreaterOrEqualLitBig__::C16U128GreaterOrEqualLitBig;
pub use __nutype_C16U128GreaterOrEqualLitBig__::C16U128GreaterOrEqualLitBigError;

}

// vacuity canary: this MUST fail; if it verifies the assumptions are inconsistent
proof fn __verif_canary() ensures false {}
} // verus!
fn main() {}
