// GENERATED on every run: real expansions of /repo's macro with contracts inserted in place.
#![allow(unused_imports, dead_code, unused_variables, unused_mut, non_snake_case, non_upper_case_globals, non_camel_case_types)]
use vstd::prelude::*;
use vstd::string::*;
use vstd::std_specs::iter::IteratorSpec;
verus! {
// ---- fixed prelude: ASSUMED contracts on the Rust standard library (trusted, listed in evidence) ----
// Every std function the generated code may call gets its own *uninterpreted* spec symbol, so a
// changed call (trim -> trim_start, to_lowercase -> to_ascii_lowercase, chars().count() -> len())
// fails a postcondition instead of turning into "unsupported".
pub uninterp spec fn spec_trim(s: Seq<char>) -> Seq<char>;
pub uninterp spec fn spec_trim_start(s: Seq<char>) -> Seq<char>;
pub uninterp spec fn spec_trim_end(s: Seq<char>) -> Seq<char>;
pub uninterp spec fn spec_lower(s: Seq<char>) -> Seq<char>;
pub uninterp spec fn spec_upper(s: Seq<char>) -> Seq<char>;
pub uninterp spec fn spec_ascii_lower(s: Seq<char>) -> Seq<char>;
pub uninterp spec fn spec_ascii_upper(s: Seq<char>) -> Seq<char>;

pub assume_specification[ str::trim ](s: &str) -> (r: &str)
    ensures r@ == spec_trim(s@);
pub assume_specification[ str::trim_start ](s: &str) -> (r: &str)
    ensures r@ == spec_trim_start(s@);
pub assume_specification[ str::trim_end ](s: &str) -> (r: &str)
    ensures r@ == spec_trim_end(s@);
pub assume_specification[ str::to_lowercase ](s: &str) -> (r: String)
    ensures r@ == spec_lower(s@);
pub assume_specification[ str::to_uppercase ](s: &str) -> (r: String)
    ensures r@ == spec_upper(s@);
pub assume_specification[ str::to_ascii_lowercase ](s: &str) -> (r: String)
    ensures r@ == spec_ascii_lower(s@);
pub assume_specification[ str::to_ascii_uppercase ](s: &str) -> (r: String)
    ensures r@ == spec_ascii_upper(s@);
pub uninterp spec fn spec_string_byte_len(s: Seq<char>) -> usize;
pub assume_specification[ String::len ](s: &String) -> (r: usize)
    ensures r == spec_string_byte_len(s@);
pub assume_specification<'a>[ <core::str::Chars<'a> as Iterator>::count ](c: core::str::Chars<'a>) -> (r: usize)
    ensures r == c.remaining().len();

global size_of usize == 8;

// opaque std error types that appear as payload of the generated `<X>ParseError` enums
#[verifier::external_type_specification]
#[verifier::external_body]
pub struct ExParseIntError(core::num::ParseIntError);
#[verifier::external_type_specification]
#[verifier::external_body]
pub struct ExParseFloatError(core::num::ParseFloatError);

// `impl Into<String>` arguments: the only facts assumed about the conversion.
pub broadcast axiom fn axiom_into_string_from_string(x: String, s: String)
    requires #[trigger] call_ensures(<String as Into<String>>::into, (x,), s)
    ensures s@ == x@;
pub broadcast axiom fn axiom_into_string_from_str(x: &str, s: String)
    requires #[trigger] call_ensures(<&str as Into<String>>::into, (x,), s)
    ensures s@ == x@;

// Algebraic facts about std's trim / case mapping used only by the C11 (canonical form) lemmas.
// A1-A3 idempotence; A4/A5 case mapping neither creates nor removes edge whitespace, i.e. trim and
// case mapping commute "up to" re-application.  Statements about std, not about nutype.
pub broadcast axiom fn axiom_trim_idem(s: Seq<char>)
    ensures #[trigger] spec_trim(spec_trim(s)) == spec_trim(s);
pub broadcast axiom fn axiom_lower_idem(s: Seq<char>)
    ensures #[trigger] spec_lower(spec_lower(s)) == spec_lower(s);
pub broadcast axiom fn axiom_upper_idem(s: Seq<char>)
    ensures #[trigger] spec_upper(spec_upper(s)) == spec_upper(s);
pub broadcast axiom fn axiom_trim_of_lower_of_trim(s: Seq<char>)
    ensures #[trigger] spec_trim(spec_lower(spec_trim(s))) == spec_lower(spec_trim(s));
pub broadcast axiom fn axiom_trim_of_upper_of_trim(s: Seq<char>)
    ensures #[trigger] spec_trim(spec_upper(spec_trim(s))) == spec_upper(spec_trim(s));
pub broadcast axiom fn axiom_lower_of_trim_of_lower(s: Seq<char>)
    ensures #[trigger] spec_lower(spec_trim(spec_lower(s))) == spec_trim(spec_lower(s));
pub broadcast axiom fn axiom_upper_of_trim_of_upper(s: Seq<char>)
    ensures #[trigger] spec_upper(spec_trim(spec_upper(s))) == spec_trim(spec_upper(s));
pub broadcast group group_c11_std_axioms {
    axiom_trim_idem, axiom_lower_idem, axiom_upper_idem,
    axiom_trim_of_lower_of_trim, axiom_trim_of_upper_of_trim,
    axiom_lower_of_trim_of_lower, axiom_upper_of_trim_of_upper,
}

// ---- auxiliary items of the catalogue (symbolic bounds, custom functions) ----
pub uninterp spec fn SYM_LO_ISIZE() -> isize;
#[verifier::external_body]
pub fn sym_lo_isize() -> (r: isize) ensures r == SYM_LO_ISIZE() { 3 }
pub uninterp spec fn SYM_HI_ISIZE() -> isize;
#[verifier::external_body]
pub fn sym_hi_isize() -> (r: isize) ensures r == SYM_HI_ISIZE() { 100 }
pub uninterp spec fn SYM_LEN_LO() -> usize;
#[verifier::external_body]
pub fn sym_len_lo() -> (r: usize) ensures r == SYM_LEN_LO() { 2 }
pub uninterp spec fn SYM_LEN_HI() -> usize;
#[verifier::external_body]
pub fn sym_len_hi() -> (r: usize) ensures r == SYM_LEN_HI() { 8 }

pub mod d_c16_isize_ge_lt_embed {
    use super::*;
// NUTYPE_VERIF_INPUT #[nutype(validate(greater_or_equal = sym_lo_isize(), less = sym_hi_isize()), derive(Debug))] pub struct C16IsizeGeLtEmbed(isize);
#[doc(hidden)]
#[allow(
    non_snake_case,
    reason = "we keep original structure name which is probably CamelCase"
)]
mod __nutype_C16IsizeGeLtEmbed__ {
    use super::*;
    #[derive(Debug)]
    pub struct C16IsizeGeLtEmbed(isize);
    #[derive(Debug, Clone, PartialEq, Eq)]
    #[allow(clippy::enum_variant_names)]
    pub enum C16IsizeGeLtEmbedError {
        GreaterOrEqualViolated,
        LessViolated,
    }
    #[verifier::external]
impl ::core::fmt::Display for C16IsizeGeLtEmbedError {
        fn fmt(&self, f: &mut ::core::fmt::Formatter<'_>) -> ::core::fmt::Result {
            match self {
                C16IsizeGeLtEmbedError::GreaterOrEqualViolated => write!(
                    f,
                    "{} is too small. The value must be greater or equal to {:#?}.",
                    stringify!(C16IsizeGeLtEmbed),
                    sym_lo_isize()
                ),
                C16IsizeGeLtEmbedError::LessViolated => write!(
                    f,
                    "{} is too big. The value must be less than {:#?}.",
                    stringify!(C16IsizeGeLtEmbed),
                    sym_hi_isize()
                ),
            }
        }
    }
    #[verifier::external]
impl ::core::error::Error for C16IsizeGeLtEmbedError {
        fn source(&self) -> Option<&(dyn ::core::error::Error + 'static)> {
            None
        }
    }
    impl C16IsizeGeLtEmbed {
        pub fn try_new(raw_value: isize) -> (r: ::core::result::Result<Self, C16IsizeGeLtEmbedError>) 
            ensures
                r == Self::spec_try_new(raw_value),
                r is Err ==> Self::spec_validate(Self::spec_sanitize(raw_value)) == Err::<(), C16IsizeGeLtEmbedError>(r->Err_0),
        {
            let sanitized_value: isize = Self::__sanitize__(raw_value);
            #[allow(clippy::question_mark)]
            if let Err(e) = Self::__validate__(&sanitized_value) {
                return Err(e);
            }
            Ok(C16IsizeGeLtEmbed(sanitized_value))
        }
        fn __sanitize__(mut value: isize) -> (r: isize) 
            ensures
                r == Self::spec_sanitize(value),
        {
            value
        }
        fn __validate__(val: &isize) -> (r: ::core::result::Result<(), C16IsizeGeLtEmbedError>) 
            ensures
                r == Self::spec_validate(*val),
                r is Err ==> r == Self::spec_validate(*val),
        {
            let val = *val;
            if val < sym_lo_isize() {
                return Err(C16IsizeGeLtEmbedError::GreaterOrEqualViolated);
            }
            if val >= sym_hi_isize() {
                return Err(C16IsizeGeLtEmbedError::LessViolated);
            }
            Ok(())
        }
    }
    impl C16IsizeGeLtEmbed {
        #[inline]
        pub fn into_inner(self) -> (r: isize) 
            ensures
                r == self.spec_view(),
        {
            self.0
        }
    }
    #[cfg(test)]
    mod tests {
        use super::*;
        #[test]
        fn should_have_consistent_lower_and_upper_boundaries() {
            assert!
            (sym_hi_isize() >= sym_lo_isize(),
            "\nInconsistent lower and upper boundaries for type `C16IsizeGeLtEmbed`\nThe upper boundary `sym_hi_isize()` must be greater than or equal to the lower boundary `sym_lo_isize()`\nNote: the test is generated automatically by #[nutype] macro.\n");
        }
    }

    // ======== inserted by the annotator: spec-mode items only ========
    impl C16IsizeGeLtEmbed {
        pub closed spec fn spec_view(self) -> isize { self.0 }
        pub closed spec fn spec_sanitize(x: isize) -> isize { x }
        pub closed spec fn spec_validate(x: isize) -> ::core::result::Result<(), C16IsizeGeLtEmbedError> {
            if !(x >= (SYM_LO_ISIZE())) { Err(C16IsizeGeLtEmbedError::GreaterOrEqualViolated) } else if !(x < (SYM_HI_ISIZE())) { Err(C16IsizeGeLtEmbedError::LessViolated) } else { Ok(()) }
        }
        pub closed spec fn spec_post(raw: isize, r: ::core::result::Result<Self, C16IsizeGeLtEmbedError>) -> bool { r == Self::spec_try_new(raw) }
        pub closed spec fn spec_try_new(raw: isize) -> ::core::result::Result<Self, C16IsizeGeLtEmbedError> {
            match Self::spec_validate(Self::spec_sanitize(raw)) {
                Ok(_) => Ok(C16IsizeGeLtEmbed(Self::spec_sanitize(raw))),
                Err(e) => Err(e),
            }
        }
        #[verifier::type_invariant]
        closed spec fn spec_inv(self) -> bool { Self::spec_validate(self.0) is Ok }
    }
    impl C16IsizeGeLtEmbed {
        pub proof fn lemma_c16_GreaterOrEqualViolated(x: isize)
            ensures (x >= (SYM_LO_ISIZE())) <==> (x >= (SYM_LO_ISIZE())),
        {
        }
    }
    impl C16IsizeGeLtEmbed {
        pub proof fn lemma_c16_LessViolated(x: isize)
            ensures (x < (SYM_HI_ISIZE())) <==> (x < (SYM_HI_ISIZE())),
        {
        }
    }
}
pub use __nutype_C16IsizeGeLtEmbed__::C16IsizeGeLtEmbed;
pub use __nutype_C16IsizeGeLtEmbed__::C16IsizeGeLtEmbedError;

}
pub mod d_c16_isize_le_gt_embed {
    use super::*;
// NUTYPE_VERIF_INPUT #[nutype(validate(less_or_equal = sym_hi_isize(), greater = sym_lo_isize()), derive(Debug))] pub struct C16IsizeLeGtEmbed(isize);
#[doc(hidden)]
#[allow(
    non_snake_case,
    reason = "we keep original structure name which is probably CamelCase"
)]
mod __nutype_C16IsizeLeGtEmbed__ {
    use super::*;
    #[derive(Debug)]
    pub struct C16IsizeLeGtEmbed(isize);
    #[derive(Debug, Clone, PartialEq, Eq)]
    #[allow(clippy::enum_variant_names)]
    pub enum C16IsizeLeGtEmbedError {
        LessOrEqualViolated,
        GreaterViolated,
    }
    #[verifier::external]
impl ::core::fmt::Display for C16IsizeLeGtEmbedError {
        fn fmt(&self, f: &mut ::core::fmt::Formatter<'_>) -> ::core::fmt::Result {
            match self {
                C16IsizeLeGtEmbedError::LessOrEqualViolated => write!(
                    f,
                    "{} is too big. The value must be less or equal to {:#?}.",
                    stringify!(C16IsizeLeGtEmbed),
                    sym_hi_isize()
                ),
                C16IsizeLeGtEmbedError::GreaterViolated => write!(
                    f,
                    "{} is too small. The value must be greater than {:#?}.",
                    stringify!(C16IsizeLeGtEmbed),
                    sym_lo_isize()
                ),
            }
        }
    }
    #[verifier::external]
impl ::core::error::Error for C16IsizeLeGtEmbedError {
        fn source(&self) -> Option<&(dyn ::core::error::Error + 'static)> {
            None
        }
    }
    impl C16IsizeLeGtEmbed {
        pub fn try_new(raw_value: isize) -> (r: ::core::result::Result<Self, C16IsizeLeGtEmbedError>) 
            ensures
                r == Self::spec_try_new(raw_value),
                r is Err ==> Self::spec_validate(Self::spec_sanitize(raw_value)) == Err::<(), C16IsizeLeGtEmbedError>(r->Err_0),
        {
            let sanitized_value: isize = Self::__sanitize__(raw_value);
            #[allow(clippy::question_mark)]
            if let Err(e) = Self::__validate__(&sanitized_value) {
                return Err(e);
            }
            Ok(C16IsizeLeGtEmbed(sanitized_value))
        }
        fn __sanitize__(mut value: isize) -> (r: isize) 
            ensures
                r == Self::spec_sanitize(value),
        {
            value
        }
        fn __validate__(val: &isize) -> (r: ::core::result::Result<(), C16IsizeLeGtEmbedError>) 
            ensures
                r == Self::spec_validate(*val),
                r is Err ==> r == Self::spec_validate(*val),
        {
            let val = *val;
            if val > sym_hi_isize() {
                return Err(C16IsizeLeGtEmbedError::LessOrEqualViolated);
            }
            if val <= sym_lo_isize() {
                return Err(C16IsizeLeGtEmbedError::GreaterViolated);
            }
            Ok(())
        }
    }
    impl C16IsizeLeGtEmbed {
        #[inline]
        pub fn into_inner(self) -> (r: isize) 
            ensures
                r == self.spec_view(),
        {
            self.0
        }
    }
    #[cfg(test)]
    mod tests {
        use super::*;
        #[test]
        fn should_have_consistent_lower_and_upper_boundaries() {
            assert!
            (sym_hi_isize() >= sym_lo_isize(),
            "\nInconsistent lower and upper boundaries for type `C16IsizeLeGtEmbed`\nThe upper boundary `sym_hi_isize()` must be greater than or equal to the lower boundary `sym_lo_isize()`\nNote: the test is generated automatically by #[nutype] macro.\n");
        }
    }

    // ======== inserted by the annotator: spec-mode items only ========
    impl C16IsizeLeGtEmbed {
        pub closed spec fn spec_view(self) -> isize { self.0 }
        pub closed spec fn spec_sanitize(x: isize) -> isize { x }
        pub closed spec fn spec_validate(x: isize) -> ::core::result::Result<(), C16IsizeLeGtEmbedError> {
            if !(x <= (SYM_HI_ISIZE())) { Err(C16IsizeLeGtEmbedError::LessOrEqualViolated) } else if !(x > (SYM_LO_ISIZE())) { Err(C16IsizeLeGtEmbedError::GreaterViolated) } else { Ok(()) }
        }
        pub closed spec fn spec_post(raw: isize, r: ::core::result::Result<Self, C16IsizeLeGtEmbedError>) -> bool { r == Self::spec_try_new(raw) }
        pub closed spec fn spec_try_new(raw: isize) -> ::core::result::Result<Self, C16IsizeLeGtEmbedError> {
            match Self::spec_validate(Self::spec_sanitize(raw)) {
                Ok(_) => Ok(C16IsizeLeGtEmbed(Self::spec_sanitize(raw))),
                Err(e) => Err(e),
            }
        }
        #[verifier::type_invariant]
        closed spec fn spec_inv(self) -> bool { Self::spec_validate(self.0) is Ok }
    }
    impl C16IsizeLeGtEmbed {
        pub proof fn lemma_c16_LessOrEqualViolated(x: isize)
            ensures (x <= (SYM_HI_ISIZE())) <==> (x <= (SYM_HI_ISIZE())),
        {
        }
    }
    impl C16IsizeLeGtEmbed {
        pub proof fn lemma_c16_GreaterViolated(x: isize)
            ensures (x > (SYM_LO_ISIZE())) <==> (x > (SYM_LO_ISIZE())),
        {
        }
    }
}
pub use __nutype_C16IsizeLeGtEmbed__::C16IsizeLeGtEmbed;
pub use __nutype_C16IsizeLeGtEmbed__::C16IsizeLeGtEmbedError;

}
pub mod d_c16_str_min_sym {
    use super::*;
// NUTYPE_VERIF_INPUT #[nutype(validate(len_char_min = sym_len_lo()), derive(Debug))] pub struct C16StrMinSym(String);
#[doc(hidden)]
#[allow(
    non_snake_case,
    reason = "we keep original structure name which is probably CamelCase"
)]
mod __nutype_C16StrMinSym__ {
    use super::*;
    broadcast use {axiom_into_string_from_string, axiom_into_string_from_str};
    #[derive(Debug)]
    pub struct C16StrMinSym(String);
    #[derive(Debug, Clone, PartialEq, Eq)]
    #[allow(clippy::enum_variant_names)]
    pub enum C16StrMinSymError {
        LenCharMinViolated,
    }
    #[verifier::external]
impl ::core::fmt::Display for C16StrMinSymError {
        fn fmt(&self, f: &mut ::core::fmt::Formatter<'_>) -> ::core::fmt::Result {
            match self {
                C16StrMinSymError::LenCharMinViolated => write!(
                    f,
                    "{} is too short. The value length must be at least {:#?} character(s).",
                    stringify!(C16StrMinSym),
                    sym_len_lo()
                ),
            }
        }
    }
    #[verifier::external]
impl ::core::error::Error for C16StrMinSymError {
        fn source(&self) -> Option<&(dyn ::core::error::Error + 'static)> {
            None
        }
    }
    impl C16StrMinSym {
        pub fn try_new(
            raw_value: impl Into<String>,
        ) -> (r: ::core::result::Result<Self, C16StrMinSymError>) 
            ensures
                exists|s: String| #![auto] call_ensures(Into::<String>::into, (raw_value,), s) && Self::spec_post(s@, r),
                r is Err ==> exists|s: String| #![auto] call_ensures(Into::<String>::into, (raw_value,), s) && Self::spec_validate(Self::spec_sanitize(s@)) == Err::<(), C16StrMinSymError>(r->Err_0),
        {
            let raw_value = raw_value.into();
            let sanitized_value: String = Self::__sanitize__(raw_value);
            #[allow(clippy::question_mark)]
            if let Err(e) = Self::__validate__(&sanitized_value) {
                return Err(e);
            }
            Ok(C16StrMinSym(sanitized_value))
        }
        fn __sanitize__(value: String) -> (r: String) 
            ensures
                r@ == Self::spec_sanitize(value@),
        {
            value
        }
        fn __validate__(val: &str) -> (r: ::core::result::Result<(), C16StrMinSymError>) 
            ensures
                r == Self::spec_validate(val@),
                r is Err ==> r == Self::spec_validate(val@),
        {
            let chars_count = val.chars().count();
            if chars_count < sym_len_lo() {
                return Err(C16StrMinSymError::LenCharMinViolated);
            }
            Ok(())
        }
    }
    impl C16StrMinSym {
        #[inline]
        pub fn into_inner(self) -> (r: String) 
            ensures
                r@ == self.spec_view(),
        {
            self.0
        }
    }
    #[cfg(test)]
    mod tests {
        use super::*;
    }

    // ======== inserted by the annotator: spec-mode items only ========
    impl C16StrMinSym {
        pub closed spec fn spec_view(self) -> Seq<char> { self.0@ }
        pub closed spec fn spec_sanitize(x: Seq<char>) -> Seq<char> { x }
        pub closed spec fn spec_validate(x: Seq<char>) -> ::core::result::Result<(), C16StrMinSymError> {
            if !(x.len() >= (SYM_LEN_LO())) { Err(C16StrMinSymError::LenCharMinViolated) } else { Ok(()) }
        }
        pub closed spec fn spec_post(raw: Seq<char>, r: ::core::result::Result<Self, C16StrMinSymError>) -> bool {
            match Self::spec_validate(Self::spec_sanitize(raw)) {
                Ok(_) => r is Ok && r->Ok_0.spec_view() == Self::spec_sanitize(raw),
                Err(e) => r == Err::<Self, C16StrMinSymError>(e),
            }
        }
        #[verifier::type_invariant]
        closed spec fn spec_inv(self) -> bool { Self::spec_validate(self.0@) is Ok }
    }
    impl C16StrMinSym {
        pub proof fn lemma_c16_LenCharMinViolated(x: Seq<char>)
            ensures (x.len() >= (SYM_LEN_LO())) <==> (x.len() >= (SYM_LEN_LO())),
        {
        }
    }
}
pub use __nutype_C16StrMinSym__::C16StrMinSym;
pub use __nutype_C16StrMinSym__::C16StrMinSymError;

}
pub mod d_c16_str_max_sym {
    use super::*;
// NUTYPE_VERIF_INPUT #[nutype(validate(len_char_max = sym_len_hi()), derive(Debug))] pub struct C16StrMaxSym(String);
#[doc(hidden)]
#[allow(
    non_snake_case,
    reason = "we keep original structure name which is probably CamelCase"
)]
mod __nutype_C16StrMaxSym__ {
    use super::*;
    broadcast use {axiom_into_string_from_string, axiom_into_string_from_str};
    #[derive(Debug)]
    pub struct C16StrMaxSym(String);
    #[derive(Debug, Clone, PartialEq, Eq)]
    #[allow(clippy::enum_variant_names)]
    pub enum C16StrMaxSymError {
        LenCharMaxViolated,
    }
    #[verifier::external]
impl ::core::fmt::Display for C16StrMaxSymError {
        fn fmt(&self, f: &mut ::core::fmt::Formatter<'_>) -> ::core::fmt::Result {
            match self {
                C16StrMaxSymError::LenCharMaxViolated => write!(
                    f,
                    "{} is too long. The value length must be at most {:#?} character(s).",
                    stringify!(C16StrMaxSym),
                    sym_len_hi()
                ),
            }
        }
    }
    #[verifier::external]
impl ::core::error::Error for C16StrMaxSymError {
        fn source(&self) -> Option<&(dyn ::core::error::Error + 'static)> {
            None
        }
    }
    impl C16StrMaxSym {
        pub fn try_new(
            raw_value: impl Into<String>,
        ) -> (r: ::core::result::Result<Self, C16StrMaxSymError>) 
            ensures
                exists|s: String| #![auto] call_ensures(Into::<String>::into, (raw_value,), s) && Self::spec_post(s@, r),
                r is Err ==> exists|s: String| #![auto] call_ensures(Into::<String>::into, (raw_value,), s) && Self::spec_validate(Self::spec_sanitize(s@)) == Err::<(), C16StrMaxSymError>(r->Err_0),
        {
            let raw_value = raw_value.into();
            let sanitized_value: String = Self::__sanitize__(raw_value);
            #[allow(clippy::question_mark)]
            if let Err(e) = Self::__validate__(&sanitized_value) {
                return Err(e);
            }
            Ok(C16StrMaxSym(sanitized_value))
        }
        fn __sanitize__(value: String) -> (r: String) 
            ensures
                r@ == Self::spec_sanitize(value@),
        {
            value
        }
        fn __validate__(val: &str) -> (r: ::core::result::Result<(), C16StrMaxSymError>) 
            ensures
                r == Self::spec_validate(val@),
                r is Err ==> r == Self::spec_validate(val@),
        {
            let chars_count = val.chars().count();
            if chars_count > sym_len_hi() {
                return Err(C16StrMaxSymError::LenCharMaxViolated);
            }
            Ok(())
        }
    }
    impl C16StrMaxSym {
        #[inline]
        pub fn into_inner(self) -> (r: String) 
            ensures
                r@ == self.spec_view(),
        {
            self.0
        }
    }
    #[cfg(test)]
    mod tests {
        use super::*;
    }

    // ======== inserted by the annotator: spec-mode items only ========
    impl C16StrMaxSym {
        pub closed spec fn spec_view(self) -> Seq<char> { self.0@ }
        pub closed spec fn spec_sanitize(x: Seq<char>) -> Seq<char> { x }
        pub closed spec fn spec_validate(x: Seq<char>) -> ::core::result::Result<(), C16StrMaxSymError> {
            if !(x.len() <= (SYM_LEN_HI())) { Err(C16StrMaxSymError::LenCharMaxViolated) } else { Ok(()) }
        }
        pub closed spec fn spec_post(raw: Seq<char>, r: ::core::result::Result<Self, C16StrMaxSymError>) -> bool {
            match Self::spec_validate(Self::spec_sanitize(raw)) {
                Ok(_) => r is Ok && r->Ok_0.spec_view() == Self::spec_sanitize(raw),
                Err(e) => r == Err::<Self, C16StrMaxSymError>(e),
            }
        }
        #[verifier::type_invariant]
        closed spec fn spec_inv(self) -> bool { Self::spec_validate(self.0@) is Ok }
    }
    impl C16StrMaxSym {
        pub proof fn lemma_c16_LenCharMaxViolated(x: Seq<char>)
            ensures (x.len() <= (SYM_LEN_HI())) <==> (x.len() <= (SYM_LEN_HI())),
        {
        }
    }
}
pub use __nutype_C16StrMaxSym__::C16StrMaxSym;
pub use __nutype_C16StrMaxSym__::C16StrMaxSymError;

}
pub mod d_c16_str_min_max_lit {
    use super::*;
// NUTYPE_VERIF_INPUT #[nutype(sanitize(trim), validate(len_char_min = 3, not_empty, len_char_max = 20), derive(Debug))] pub struct C16StrMinMaxLit(String);
#[doc(hidden)]
#[allow(
    non_snake_case,
    reason = "we keep original structure name which is probably CamelCase"
)]
mod __nutype_C16StrMinMaxLit__ {
    use super::*;
    broadcast use {axiom_into_string_from_string, axiom_into_string_from_str};
    #[derive(Debug)]
    pub struct C16StrMinMaxLit(String);
    #[derive(Debug, Clone, PartialEq, Eq)]
    #[allow(clippy::enum_variant_names)]
    pub enum C16StrMinMaxLitError {
        LenCharMinViolated,
        NotEmptyViolated,
        LenCharMaxViolated,
    }
    #[verifier::external]
impl ::core::fmt::Display for C16StrMinMaxLitError {
        fn fmt(&self, f: &mut ::core::fmt::Formatter<'_>) -> ::core::fmt::Result {
            match self {
                C16StrMinMaxLitError::LenCharMinViolated => write!(
                    f,
                    "{} is too short. The value length must be at least {:#?} character(s).",
                    stringify!(C16StrMinMaxLit),
                    3usize
                ),
                C16StrMinMaxLitError::NotEmptyViolated => {
                    write!(f, "{} is empty.", stringify!(C16StrMinMaxLit))
                }
                C16StrMinMaxLitError::LenCharMaxViolated => write!(
                    f,
                    "{} is too long. The value length must be at most {:#?} character(s).",
                    stringify!(C16StrMinMaxLit),
                    20usize
                ),
            }
        }
    }
    #[verifier::external]
impl ::core::error::Error for C16StrMinMaxLitError {
        fn source(&self) -> Option<&(dyn ::core::error::Error + 'static)> {
            None
        }
    }
    impl C16StrMinMaxLit {
        pub fn try_new(
            raw_value: impl Into<String>,
        ) -> (r: ::core::result::Result<Self, C16StrMinMaxLitError>) 
            ensures
                exists|s: String| #![auto] call_ensures(Into::<String>::into, (raw_value,), s) && Self::spec_post(s@, r),
                r is Err ==> exists|s: String| #![auto] call_ensures(Into::<String>::into, (raw_value,), s) && Self::spec_validate(Self::spec_sanitize(s@)) == Err::<(), C16StrMinMaxLitError>(r->Err_0),
        {
            let raw_value = raw_value.into();
            let sanitized_value: String = Self::__sanitize__(raw_value);
            #[allow(clippy::question_mark)]
            if let Err(e) = Self::__validate__(&sanitized_value) {
                return Err(e);
            }
            Ok(C16StrMinMaxLit(sanitized_value))
        }
        fn __sanitize__(value: String) -> (r: String) 
            ensures
                r@ == Self::spec_sanitize(value@),
        {
            let value: String = value.trim().to_string();
            value
        }
        fn __validate__(val: &str) -> (r: ::core::result::Result<(), C16StrMinMaxLitError>) 
            ensures
                r == Self::spec_validate(val@),
                r is Err ==> r == Self::spec_validate(val@),
        {
            let chars_count = val.chars().count();
            if chars_count < 3usize {
                return Err(C16StrMinMaxLitError::LenCharMinViolated);
            }
            if val.is_empty() {
                return Err(C16StrMinMaxLitError::NotEmptyViolated);
            }
            if chars_count > 20usize {
                return Err(C16StrMinMaxLitError::LenCharMaxViolated);
            }
            Ok(())
        }
    }
    impl C16StrMinMaxLit {
        #[inline]
        pub fn into_inner(self) -> (r: String) 
            ensures
                r@ == self.spec_view(),
        {
            self.0
        }
    }
    #[cfg(test)]
    mod tests {
        use super::*;
        #[test]
        fn should_have_consistent_len_char_boundaries() {
            assert!
            (20usize >= 3usize,
            "\nInconsistent lower and upper boundaries for type `C16StrMinMaxLit`\nThe upper boundary `20usize` must be greater than or equal to the lower boundary `3usize`\n");
        }
    }

    // ======== inserted by the annotator: spec-mode items only ========
    impl C16StrMinMaxLit {
        pub closed spec fn spec_view(self) -> Seq<char> { self.0@ }
        pub closed spec fn spec_sanitize(x: Seq<char>) -> Seq<char> { spec_trim(x) }
        pub closed spec fn spec_validate(x: Seq<char>) -> ::core::result::Result<(), C16StrMinMaxLitError> {
            if !(x.len() >= (3)) { Err(C16StrMinMaxLitError::LenCharMinViolated) } else if !(x.len() != 0) { Err(C16StrMinMaxLitError::NotEmptyViolated) } else if !(x.len() <= (20)) { Err(C16StrMinMaxLitError::LenCharMaxViolated) } else { Ok(()) }
        }
        pub closed spec fn spec_post(raw: Seq<char>, r: ::core::result::Result<Self, C16StrMinMaxLitError>) -> bool {
            match Self::spec_validate(Self::spec_sanitize(raw)) {
                Ok(_) => r is Ok && r->Ok_0.spec_view() == Self::spec_sanitize(raw),
                Err(e) => r == Err::<Self, C16StrMinMaxLitError>(e),
            }
        }
        #[verifier::type_invariant]
        closed spec fn spec_inv(self) -> bool { Self::spec_validate(self.0@) is Ok }
    }
    impl C16StrMinMaxLit {
        pub proof fn lemma_c16_LenCharMinViolated(x: Seq<char>)
            ensures (x.len() >= (3)) <==> (x.len() >= (3)),
        {
        }
    }
    impl C16StrMinMaxLit {
        pub proof fn lemma_c16_LenCharMaxViolated(x: Seq<char>)
            ensures (x.len() <= (20)) <==> (x.len() <= (20)),
        {
        }
    }
}
pub use __nutype_C16StrMinMaxLit__::C16StrMinMaxLit;
pub use __nutype_C16StrMinMaxLit__::C16StrMinMaxLitError;

}
pub mod d_c16_str_max0 {
    use super::*;
// NUTYPE_VERIF_INPUT #[nutype(validate(len_char_max = 0), derive(Debug))] pub struct C16StrMax0(String);
#[doc(hidden)]
#[allow(
    non_snake_case,
    reason = "we keep original structure name which is probably CamelCase"
)]
mod __nutype_C16StrMax0__ {
    use super::*;
    broadcast use {axiom_into_string_from_string, axiom_into_string_from_str};
    #[derive(Debug)]
    pub struct C16StrMax0(String);
    #[derive(Debug, Clone, PartialEq, Eq)]
    #[allow(clippy::enum_variant_names)]
    pub enum C16StrMax0Error {
        LenCharMaxViolated,
    }
    #[verifier::external]
impl ::core::fmt::Display for C16StrMax0Error {
        fn fmt(&self, f: &mut ::core::fmt::Formatter<'_>) -> ::core::fmt::Result {
            match self {
                C16StrMax0Error::LenCharMaxViolated => write!(
                    f,
                    "{} is too long. The value length must be at most {:#?} character(s).",
                    stringify!(C16StrMax0),
                    0usize
                ),
            }
        }
    }
    #[verifier::external]
impl ::core::error::Error for C16StrMax0Error {
        fn source(&self) -> Option<&(dyn ::core::error::Error + 'static)> {
            None
        }
    }
    impl C16StrMax0 {
        pub fn try_new(
            raw_value: impl Into<String>,
        ) -> (r: ::core::result::Result<Self, C16StrMax0Error>) 
            ensures
                exists|s: String| #![auto] call_ensures(Into::<String>::into, (raw_value,), s) && Self::spec_post(s@, r),
                r is Err ==> exists|s: String| #![auto] call_ensures(Into::<String>::into, (raw_value,), s) && Self::spec_validate(Self::spec_sanitize(s@)) == Err::<(), C16StrMax0Error>(r->Err_0),
        {
            let raw_value = raw_value.into();
            let sanitized_value: String = Self::__sanitize__(raw_value);
            #[allow(clippy::question_mark)]
            if let Err(e) = Self::__validate__(&sanitized_value) {
                return Err(e);
            }
            Ok(C16StrMax0(sanitized_value))
        }
        fn __sanitize__(value: String) -> (r: String) 
            ensures
                r@ == Self::spec_sanitize(value@),
        {
            value
        }
        fn __validate__(val: &str) -> (r: ::core::result::Result<(), C16StrMax0Error>) 
            ensures
                r == Self::spec_validate(val@),
                r is Err ==> r == Self::spec_validate(val@),
        {
            let chars_count = val.chars().count();
            if chars_count > 0usize {
                return Err(C16StrMax0Error::LenCharMaxViolated);
            }
            Ok(())
        }
    }
    impl C16StrMax0 {
        #[inline]
        pub fn into_inner(self) -> (r: String) 
            ensures
                r@ == self.spec_view(),
        {
            self.0
        }
    }
    #[cfg(test)]
    mod tests {
        use super::*;
    }

    // ======== inserted by the annotator: spec-mode items only ========
    impl C16StrMax0 {
        pub closed spec fn spec_view(self) -> Seq<char> { self.0@ }
        pub closed spec fn spec_sanitize(x: Seq<char>) -> Seq<char> { x }
        pub closed spec fn spec_validate(x: Seq<char>) -> ::core::result::Result<(), C16StrMax0Error> {
            if !(x.len() <= (0)) { Err(C16StrMax0Error::LenCharMaxViolated) } else { Ok(()) }
        }
        pub closed spec fn spec_post(raw: Seq<char>, r: ::core::result::Result<Self, C16StrMax0Error>) -> bool {
            match Self::spec_validate(Self::spec_sanitize(raw)) {
                Ok(_) => r is Ok && r->Ok_0.spec_view() == Self::spec_sanitize(raw),
                Err(e) => r == Err::<Self, C16StrMax0Error>(e),
            }
        }
        #[verifier::type_invariant]
        closed spec fn spec_inv(self) -> bool { Self::spec_validate(self.0@) is Ok }
    }
    impl C16StrMax0 {
        pub proof fn lemma_c16_LenCharMaxViolated(x: Seq<char>)
            ensures (x.len() <= (0)) <==> (x.len() <= (0)),
        {
        }
    }
}
pub use __nutype_C16StrMax0__::C16StrMax0;
pub use __nutype_C16StrMax0__::C16StrMax0Error;

}

// vacuity canary: this MUST fail; if it verifies the assumptions are inconsistent
proof fn __verif_canary() ensures false {}
} // verus!
fn main() {}
