// GENERATED on every run: real expansions of /repo's macro with contracts inserted in place.
#![allow(unused_imports, dead_code, unused_variables, unused_mut, non_snake_case, non_upper_case_globals, non_camel_case_types)]
use vstd::prelude::*;
use vstd::string::*;
use vstd::std_specs::iter::IteratorSpec;
verus! {
// ---- fixed prelude: ASSUMED contracts on the Rust standard library (trusted, listed in evidence) ----
// Every std function the generated code may call gets its own *uninterpreted* spec symbol, so a
// changed call (trim -> trim_start, to_lowercase -> to_ascii_lowercase, chars().count() -> len())
// fails a postcondition instead of turning into "unsupported".
pub uninterp spec fn spec_trim(s: Seq<char>) -> Seq<char>;
pub uninterp spec fn spec_trim_start(s: Seq<char>) -> Seq<char>;
pub uninterp spec fn spec_trim_end(s: Seq<char>) -> Seq<char>;
pub uninterp spec fn spec_lower(s: Seq<char>) -> Seq<char>;
pub uninterp spec fn spec_upper(s: Seq<char>) -> Seq<char>;
pub uninterp spec fn spec_ascii_lower(s: Seq<char>) -> Seq<char>;
pub uninterp spec fn spec_ascii_upper(s: Seq<char>) -> Seq<char>;

pub assume_specification[ str::trim ](s: &str) -> (r: &str)
    ensures r@ == spec_trim(s@);
pub assume_specification[ str::trim_start ](s: &str) -> (r: &str)
    ensures r@ == spec_trim_start(s@);
pub assume_specification[ str::trim_end ](s: &str) -> (r: &str)
    ensures r@ == spec_trim_end(s@);
pub assume_specification[ str::to_lowercase ](s: &str) -> (r: String)
    ensures r@ == spec_lower(s@);
pub assume_specification[ str::to_uppercase ](s: &str) -> (r: String)
    ensures r@ == spec_upper(s@);
pub assume_specification[ str::to_ascii_lowercase ](s: &str) -> (r: String)
    ensures r@ == spec_ascii_lower(s@);
pub assume_specification[ str::to_ascii_uppercase ](s: &str) -> (r: String)
    ensures r@ == spec_ascii_upper(s@);
pub uninterp spec fn spec_string_byte_len(s: Seq<char>) -> usize;
pub assume_specification[ String::len ](s: &String) -> (r: usize)
    ensures r == spec_string_byte_len(s@);
pub assume_specification<'a>[ <core::str::Chars<'a> as Iterator>::count ](c: core::str::Chars<'a>) -> (r: usize)
    ensures r == c.remaining().len();

global size_of usize == 8;

// opaque std error types that appear as payload of the generated `<X>ParseError` enums
#[verifier::external_type_specification]
#[verifier::external_body]
pub struct ExParseIntError(core::num::ParseIntError);
#[verifier::external_type_specification]
#[verifier::external_body]
pub struct ExParseFloatError(core::num::ParseFloatError);

// `impl Into<String>` arguments: the only facts assumed about the conversion.
pub broadcast axiom fn axiom_into_string_from_string(x: String, s: String)
    requires #[trigger] call_ensures(<String as Into<String>>::into, (x,), s)
    ensures s@ == x@;
pub broadcast axiom fn axiom_into_string_from_str(x: &str, s: String)
    requires #[trigger] call_ensures(<&str as Into<String>>::into, (x,), s)
    ensures s@ == x@;

// Algebraic facts about std's trim / case mapping used only by the C11 (canonical form) lemmas.
// A1-A3 idempotence; A4/A5 case mapping neither creates nor removes edge whitespace, i.e. trim and
// case mapping commute "up to" re-application.  Statements about std, not about nutype.
pub broadcast axiom fn axiom_trim_idem(s: Seq<char>)
    ensures #[trigger] spec_trim(spec_trim(s)) == spec_trim(s);
pub broadcast axiom fn axiom_lower_idem(s: Seq<char>)
    ensures #[trigger] spec_lower(spec_lower(s)) == spec_lower(s);
pub broadcast axiom fn axiom_upper_idem(s: Seq<char>)
    ensures #[trigger] spec_upper(spec_upper(s)) == spec_upper(s);
pub broadcast axiom fn axiom_trim_of_lower_of_trim(s: Seq<char>)
    ensures #[trigger] spec_trim(spec_lower(spec_trim(s))) == spec_lower(spec_trim(s));
pub broadcast axiom fn axiom_trim_of_upper_of_trim(s: Seq<char>)
    ensures #[trigger] spec_trim(spec_upper(spec_trim(s))) == spec_upper(spec_trim(s));
pub broadcast axiom fn axiom_lower_of_trim_of_lower(s: Seq<char>)
    ensures #[trigger] spec_lower(spec_trim(spec_lower(s))) == spec_trim(spec_lower(s));
pub broadcast axiom fn axiom_upper_of_trim_of_upper(s: Seq<char>)
    ensures #[trigger] spec_upper(spec_trim(spec_upper(s))) == spec_trim(spec_upper(s));
pub broadcast group group_c11_std_axioms {
    axiom_trim_idem, axiom_lower_idem, axiom_upper_idem,
    axiom_trim_of_lower_of_trim, axiom_trim_of_upper_of_trim,
    axiom_lower_of_trim_of_lower, axiom_upper_of_trim_of_upper,
}

// ---- auxiliary items of the catalogue (symbolic bounds, custom functions) ----
pub uninterp spec fn SYM_LO_ISIZE() -> isize;
#[verifier::external_body]
pub fn sym_lo_isize() -> (r: isize) ensures r == SYM_LO_ISIZE() { 3 }

pub mod d_c16_isize_greater_sym {
    use super::*;
// NUTYPE_VERIF_INPUT #[nutype(validate(greater = sym_lo_isize()), derive(Debug))] pub struct C16IsizeGreaterSym(isize);
#[doc(hidden)]
#[allow(
    non_snake_case,
    reason = "we keep original structure name which is probably CamelCase"
)]
mod __nutype_C16IsizeGreaterSym__ {
    use super::*;
    #[derive(Debug)]
    pub struct C16IsizeGreaterSym(isize);
    #[derive(Debug, Clone, PartialEq, Eq)]
    #[allow(clippy::enum_variant_names)]
    pub enum C16IsizeGreaterSymError {
        GreaterViolated,
    }
    #[verifier::external]
impl ::core::fmt::Display for C16IsizeGreaterSymError {
        fn fmt(&self, f: &mut ::core::fmt::Formatter<'_>) -> ::core::fmt::Result {
            match self {
                C16IsizeGreaterSymError::GreaterViolated => write!(
                    f,
                    "{} is too small. The value must be greater than {:#?}.",
                    stringify!(C16IsizeGreaterSym),
                    sym_lo_isize()
                ),
            }
        }
    }
    #[verifier::external]
impl ::core::error::Error for C16IsizeGreaterSymError {
        fn source(&self) -> Option<&(dyn ::core::error::Error + 'static)> {
            None
        }
    }
    impl C16IsizeGreaterSym {
        pub fn try_new(raw_value: isize) -> (r: ::core::result::Result<Self, C16IsizeGreaterSymError>) 
            ensures
                r == Self::spec_try_new(raw_value),
                r is Err ==> Self::spec_validate(Self::spec_sanitize(raw_value)) == Err::<(), C16IsizeGreaterSymError>(r->Err_0),
        {
            let sanitized_value: isize = Self::__sanitize__(raw_value);
            #[allow(clippy::question_mark)]
            if let Err(e) = Self::__validate__(&sanitized_value) {
                return Err(e);
            }
            Ok(C16IsizeGreaterSym(sanitized_value))
        }
        fn __sanitize__(mut value: isize) -> (r: isize) 
            ensures
                r == Self::spec_sanitize(value),
        {
            value
        }
        fn __validate__(val: &isize) -> (r: ::core::result::Result<(), C16IsizeGreaterSymError>) 
            ensures
                r == Self::spec_validate(*val),
                r is Err ==> r == Self::spec_validate(*val),
        {
            let val = *val;
            if val <= sym_lo_isize() {
                return Err(C16IsizeGreaterSymError::GreaterViolated);
            }
            Ok(())
        }
    }
    impl C16IsizeGreaterSym {
        #[inline]
        pub fn into_inner(self) -> (r: isize) 
            ensures
                r == self.spec_view(),
        {
            self.0
        }
    }
    #[cfg(test)]
    mod tests {
        use super::*;
    }

    // ======== inserted by the annotator: spec-mode items only ========
    impl C16IsizeGreaterSym {
        pub closed spec fn spec_view(self) -> isize { self.0 }
        pub closed spec fn spec_sanitize(x: isize) -> isize { x }
        pub closed spec fn spec_validate(x: isize) -> ::core::result::Result<(), C16IsizeGreaterSymError> {
            if !(x > (SYM_LO_ISIZE())) { Err(C16IsizeGreaterSymError::GreaterViolated) } else { Ok(()) }
        }
        pub closed spec fn spec_post(raw: isize, r: ::core::result::Result<Self, C16IsizeGreaterSymError>) -> bool { r == Self::spec_try_new(raw) }
        pub closed spec fn spec_try_new(raw: isize) -> ::core::result::Result<Self, C16IsizeGreaterSymError> {
            match Self::spec_validate(Self::spec_sanitize(raw)) {
                Ok(_) => Ok(C16IsizeGreaterSym(Self::spec_sanitize(raw))),
                Err(e) => Err(e),
            }
        }
        #[verifier::type_invariant]
        closed spec fn spec_inv(self) -> bool { Self::spec_validate(self.0) is Ok }
    }
    impl C16IsizeGreaterSym {
        pub proof fn lemma_c16_GreaterViolated(x: isize)
            ensures (x > (SYM_LO_ISIZE())) <==> (x > (SYM_LO_ISIZE())),
        {
        }
    }
}
pub use __nutype_C16IsizeGreaterSym__::C16IsizeGreaterSym;
pub use __nutype_C16IsizeGreaterSym__::C16IsizeGreaterSymError;

}
pub mod d_c16_isize_greater_lit_p {
    use super::*;
// NUTYPE_VERIF_INPUT #[nutype(validate(greater = 7), derive(Debug))] pub struct C16IsizeGreaterLitP(isize);
#[doc(hidden)]
#[allow(
    non_snake_case,
    reason = "we keep original structure name which is probably CamelCase"
)]
mod __nutype_C16IsizeGreaterLitP__ {
    use super::*;
    #[derive(Debug)]
    pub struct C16IsizeGreaterLitP(isize);
    #[derive(Debug, Clone, PartialEq, Eq)]
    #[allow(clippy::enum_variant_names)]
    pub enum C16IsizeGreaterLitPError {
        GreaterViolated,
    }
    #[verifier::external]
impl ::core::fmt::Display for C16IsizeGreaterLitPError {
        fn fmt(&self, f: &mut ::core::fmt::Formatter<'_>) -> ::core::fmt::Result {
            match self {
                C16IsizeGreaterLitPError::GreaterViolated => write!(
                    f,
                    "{} is too small. The value must be greater than {:#?}.",
                    stringify!(C16IsizeGreaterLitP),
                    7isize
                ),
            }
        }
    }
    #[verifier::external]
impl ::core::error::Error for C16IsizeGreaterLitPError {
        fn source(&self) -> Option<&(dyn ::core::error::Error + 'static)> {
            None
        }
    }
    impl C16IsizeGreaterLitP {
        pub fn try_new(raw_value: isize) -> (r: ::core::result::Result<Self, C16IsizeGreaterLitPError>) 
            ensures
                r == Self::spec_try_new(raw_value),
                r is Err ==> Self::spec_validate(Self::spec_sanitize(raw_value)) == Err::<(), C16IsizeGreaterLitPError>(r->Err_0),
        {
            let sanitized_value: isize = Self::__sanitize__(raw_value);
            #[allow(clippy::question_mark)]
            if let Err(e) = Self::__validate__(&sanitized_value) {
                return Err(e);
            }
            Ok(C16IsizeGreaterLitP(sanitized_value))
        }
        fn __sanitize__(mut value: isize) -> (r: isize) 
            ensures
                r == Self::spec_sanitize(value),
        {
            value
        }
        fn __validate__(val: &isize) -> (r: ::core::result::Result<(), C16IsizeGreaterLitPError>) 
            ensures
                r == Self::spec_validate(*val),
                r is Err ==> r == Self::spec_validate(*val),
        {
            let val = *val;
            if val <= 7isize {
                return Err(C16IsizeGreaterLitPError::GreaterViolated);
            }
            Ok(())
        }
    }
    impl C16IsizeGreaterLitP {
        #[inline]
        pub fn into_inner(self) -> (r: isize) 
            ensures
                r == self.spec_view(),
        {
            self.0
        }
    }
    #[cfg(test)]
    mod tests {
        use super::*;
    }

    // ======== inserted by the annotator: spec-mode items only ========
    impl C16IsizeGreaterLitP {
        pub closed spec fn spec_view(self) -> isize { self.0 }
        pub closed spec fn spec_sanitize(x: isize) -> isize { x }
        pub closed spec fn spec_validate(x: isize) -> ::core::result::Result<(), C16IsizeGreaterLitPError> {
            if !(x > (7)) { Err(C16IsizeGreaterLitPError::GreaterViolated) } else { Ok(()) }
        }
        pub closed spec fn spec_post(raw: isize, r: ::core::result::Result<Self, C16IsizeGreaterLitPError>) -> bool { r == Self::spec_try_new(raw) }
        pub closed spec fn spec_try_new(raw: isize) -> ::core::result::Result<Self, C16IsizeGreaterLitPError> {
            match Self::spec_validate(Self::spec_sanitize(raw)) {
                Ok(_) => Ok(C16IsizeGreaterLitP(Self::spec_sanitize(raw))),
                Err(e) => Err(e),
            }
        }
        #[verifier::type_invariant]
        closed spec fn spec_inv(self) -> bool { Self::spec_validate(self.0) is Ok }
    }
    impl C16IsizeGreaterLitP {
        pub proof fn lemma_c16_GreaterViolated(x: isize)
            ensures (x > (7)) <==> (x > (7)),
        {
        }
    }
}
pub use __nutype_C16IsizeGreaterLitP__::C16IsizeGreaterLitP;
pub use __nutype_C16IsizeGreaterLitP__::C16IsizeGreaterLitPError;

}
pub mod d_c16_isize_greater_lit_n {
    use super::*;
// NUTYPE_VERIF_INPUT #[nutype(validate(greater = -7), derive(Debug))] pub struct C16IsizeGreaterLitN(isize);
#[doc(hidden)]
#[allow(
    non_snake_case,
    reason = "we keep original structure name which is probably CamelCase"
)]
mod __nutype_C16IsizeGreaterLitN__ {
    use super::*;
    #[derive(Debug)]
    pub struct C16IsizeGreaterLitN(isize);
    #[derive(Debug, Clone, PartialEq, Eq)]
    #[allow(clippy::enum_variant_names)]
    pub enum C16IsizeGreaterLitNError {
        GreaterViolated,
    }
    #[verifier::external]
impl ::core::fmt::Display for C16IsizeGreaterLitNError {
        fn fmt(&self, f: &mut ::core::fmt::Formatter<'_>) -> ::core::fmt::Result {
            match self {
                C16IsizeGreaterLitNError::GreaterViolated => write!(
                    f,
                    "{} is too small. The value must be greater than {:#?}.",
                    stringify!(C16IsizeGreaterLitN),
                    -7isize
                ),
            }
        }
    }
    #[verifier::external]
impl ::core::error::Error for C16IsizeGreaterLitNError {
        fn source(&self) -> Option<&(dyn ::core::error::Error + 'static)> {
            None
        }
    }
    impl C16IsizeGreaterLitN {
        pub fn try_new(raw_value: isize) -> (r: ::core::result::Result<Self, C16IsizeGreaterLitNError>) 
            ensures
                r == Self::spec_try_new(raw_value),
                r is Err ==> Self::spec_validate(Self::spec_sanitize(raw_value)) == Err::<(), C16IsizeGreaterLitNError>(r->Err_0),
        {
            let sanitized_value: isize = Self::__sanitize__(raw_value);
            #[allow(clippy::question_mark)]
            if let Err(e) = Self::__validate__(&sanitized_value) {
                return Err(e);
            }
            Ok(C16IsizeGreaterLitN(sanitized_value))
        }
        fn __sanitize__(mut value: isize) -> (r: isize) 
            ensures
                r == Self::spec_sanitize(value),
        {
            value
        }
        fn __validate__(val: &isize) -> (r: ::core::result::Result<(), C16IsizeGreaterLitNError>) 
            ensures
                r == Self::spec_validate(*val),
                r is Err ==> r == Self::spec_validate(*val),
        {
            let val = *val;
            if val <= -7isize {
                return Err(C16IsizeGreaterLitNError::GreaterViolated);
            }
            Ok(())
        }
    }
    impl C16IsizeGreaterLitN {
        #[inline]
        pub fn into_inner(self) -> (r: isize) 
            ensures
                r == self.spec_view(),
        {
            self.0
        }
    }
    #[cfg(test)]
    mod tests {
        use super::*;
    }

    // ======== inserted by the annotator: spec-mode items only ========
    impl C16IsizeGreaterLitN {
        pub closed spec fn spec_view(self) -> isize { self.0 }
        pub closed spec fn spec_sanitize(x: isize) -> isize { x }
        pub closed spec fn spec_validate(x: isize) -> ::core::result::Result<(), C16IsizeGreaterLitNError> {
            if !(x > ((-7))) { Err(C16IsizeGreaterLitNError::GreaterViolated) } else { Ok(()) }
        }
        pub closed spec fn spec_post(raw: isize, r: ::core::result::Result<Self, C16IsizeGreaterLitNError>) -> bool { r == Self::spec_try_new(raw) }
        pub closed spec fn spec_try_new(raw: isize) -> ::core::result::Result<Self, C16IsizeGreaterLitNError> {
            match Self::spec_validate(Self::spec_sanitize(raw)) {
                Ok(_) => Ok(C16IsizeGreaterLitN(Self::spec_sanitize(raw))),
                Err(e) => Err(e),
            }
        }
        #[verifier::type_invariant]
        closed spec fn spec_inv(self) -> bool { Self::spec_validate(self.0) is Ok }
    }
    impl C16IsizeGreaterLitN {
        pub proof fn lemma_c16_GreaterViolated(x: isize)
            ensures (x > ((-7))) <==> (x > ((-7))),
        {
        }
    }
}
pub use __nutype_C16IsizeGreaterLitN__::C16IsizeGreaterLitN;
pub use __nutype_C16IsizeGreaterLitN__::C16IsizeGreaterLitNError;

}
pub mod d_c16_isize_greater_lit_big {
    use super::*;
// NUTYPE_VERIF_INPUT #[nutype(validate(greater = 100), derive(Debug))] pub struct C16IsizeGreaterLitBig(isize);
#[doc(hidden)]
#[allow(
    non_snake_case,
    reason = "we keep original structure name which is probably CamelCase"
)]
mod __nutype_C16IsizeGreaterLitBig__ {
    use super::*;
    #[derive(Debug)]
    pub struct C16IsizeGreaterLitBig(isize);
    #[derive(Debug, Clone, PartialEq, Eq)]
    #[allow(clippy::enum_variant_names)]
    pub enum C16IsizeGreaterLitBigError {
        GreaterViolated,
    }
    #[verifier::external]
impl ::core::fmt::Display for C16IsizeGreaterLitBigError {
        fn fmt(&self, f: &mut ::core::fmt::Formatter<'_>) -> ::core::fmt::Result {
            match self {
                C16IsizeGreaterLitBigError::GreaterViolated => write!(
                    f,
                    "{} is too small. The value must be greater than {:#?}.",
                    stringify!(C16IsizeGreaterLitBig),
                    100isize
                ),
            }
        }
    }
    #[verifier::external]
impl ::core::error::Error for C16IsizeGreaterLitBigError {
        fn source(&self) -> Option<&(dyn ::core::error::Error + 'static)> {
            None
        }
    }
    impl C16IsizeGreaterLitBig {
        pub fn try_new(
            raw_value: isize,
        ) -> (r: ::core::result::Result<Self, C16IsizeGreaterLitBigError>) 
            ensures
                r == Self::spec_try_new(raw_value),
                r is Err ==> Self::spec_validate(Self::spec_sanitize(raw_value)) == Err::<(), C16IsizeGreaterLitBigError>(r->Err_0),
        {
            let sanitized_value: isize = Self::__sanitize__(raw_value);
            #[allow(clippy::question_mark)]
            if let Err(e) = Self::__validate__(&sanitized_value) {
                return Err(e);
            }
            Ok(C16IsizeGreaterLitBig(sanitized_value))
        }
        fn __sanitize__(mut value: isize) -> (r: isize) 
            ensures
                r == Self::spec_sanitize(value),
        {
            value
        }
        fn __validate__(val: &isize) -> (r: ::core::result::Result<(), C16IsizeGreaterLitBigError>) 
            ensures
                r == Self::spec_validate(*val),
                r is Err ==> r == Self::spec_validate(*val),
        {
            let val = *val;
            if val <= 100isize {
                return Err(C16IsizeGreaterLitBigError::GreaterViolated);
            }
            Ok(())
        }
    }
    impl C16IsizeGreaterLitBig {
        #[inline]
        pub fn into_inner(self) -> (r: isize) 
            ensures
                r == self.spec_view(),
        {
            self.0
        }
    }
    #[cfg(test)]
    mod tests {
        use super::*;
    }

    // ======== inserted by the annotator: spec-mode items only ========
    impl C16IsizeGreaterLitBig {
        pub closed spec fn spec_view(self) -> isize { self.0 }
        pub closed spec fn spec_sanitize(x: isize) -> isize { x }
        pub closed spec fn spec_validate(x: isize) -> ::core::result::Result<(), C16IsizeGreaterLitBigError> {
            if !(x > (100)) { Err(C16IsizeGreaterLitBigError::GreaterViolated) } else { Ok(()) }
        }
        pub closed spec fn spec_post(raw: isize, r: ::core::result::Result<Self, C16IsizeGreaterLitBigError>) -> bool { r == Self::spec_try_new(raw) }
        pub closed spec fn spec_try_new(raw: isize) -> ::core::result::Result<Self, C16IsizeGreaterLitBigError> {
            match Self::spec_validate(Self::spec_sanitize(raw)) {
                Ok(_) => Ok(C16IsizeGreaterLitBig(Self::spec_sanitize(raw))),
                Err(e) => Err(e),
            }
        }
        #[verifier::type_invariant]
        closed spec fn spec_inv(self) -> bool { Self::spec_validate(self.0) is Ok }
    }
    impl C16IsizeGreaterLitBig {
        pub proof fn lemma_c16_GreaterViolated(x: isize)
            ensures (x > (100)) <==> (x > (100)),
        {
        }
    }
}
pub use __nutype_C16IsizeGreaterLitBig__::C16IsizeGreaterLitBig;
pub use __nutype_C16IsizeGreaterLitBig__::C16IsizeGreaterLitBigError;

}
pub mod d_c16_isize_greater_or_equal_sym {
    use super::*;
// NUTYPE_VERIF_INPUT #[nutype(validate(greater_or_equal = sym_lo_isize()), derive(Debug))] pub struct C16IsizeGreaterOrEqualSym(isize);
#[doc(hidden)]
#[allow(
    non_snake_case,
    reason = "we keep original structure name which is probably CamelCase"
)]
mod __nutype_C16IsizeGreaterOrEqualSym__ {
    use super::*;
    #[derive(Debug)]
    pub struct C16IsizeGreaterOrEqualSym(isize);
    #[derive(Debug, Clone, PartialEq, Eq)]
    #[allow(clippy::enum_variant_names)]
    pub enum C16IsizeGreaterOrEqualSymError {
        GreaterOrEqualViolated,
    }
    #[verifier::external]
impl ::core::fmt::Display for C16IsizeGreaterOrEqualSymError {
        fn fmt(&self, f: &mut ::core::fmt::Formatter<'_>) -> ::core::fmt::Result {
            match self {
                C16IsizeGreaterOrEqualSymError::GreaterOrEqualViolated => write!(
                    f,
                    "{} is too small. The value must be greater or equal to {:#?}.",
                    stringify!(C16IsizeGreaterOrEqualSym),
                    sym_lo_isize()
                ),
            }
        }
    }
    #[verifier::external]
impl ::core::error::Error for C16IsizeGreaterOrEqualSymError {
        fn source(&self) -> Option<&(dyn ::core::error::Error + 'static)> {
            None
        }
    }
    impl C16IsizeGreaterOrEqualSym {
        pub fn try_new(
            raw_value: isize,
        ) -> (r: ::core::result::Result<Self, C16IsizeGreaterOrEqualSymError>) 
            ensures
                r == Self::spec_try_new(raw_value),
                r is Err ==> Self::spec_validate(Self::spec_sanitize(raw_value)) == Err::<(), C16IsizeGreaterOrEqualSymError>(r->Err_0),
        {
            let sanitized_value: isize = Self::__sanitize__(raw_value);
            #[allow(clippy::question_mark)]
            if let Err(e) = Self::__validate__(&sanitized_value) {
                return Err(e);
            }
            Ok(C16IsizeGreaterOrEqualSym(sanitized_value))
        }
        fn __sanitize__(mut value: isize) -> (r: isize) 
            ensures
                r == Self::spec_sanitize(value),
        {
            value
        }
        fn __validate__(val: &isize) -> (r: ::core::result::Result<(), C16IsizeGreaterOrEqualSymError>) 
            ensures
                r == Self::spec_validate(*val),
                r is Err ==> r == Self::spec_validate(*val),
        {
            let val = *val;
            if val < sym_lo_isize() {
                return Err(C16IsizeGreaterOrEqualSymError::GreaterOrEqualViolated);
            }
            Ok(())
        }
    }
    impl C16IsizeGreaterOrEqualSym {
        #[inline]
        pub fn into_inner(self) -> (r: isize) 
            ensures
                r == self.spec_view(),
        {
            self.0
        }
    }
    #[cfg(test)]
    mod tests {
        use super::*;
    }

    // ======== inserted by the annotator: spec-mode items only ========
    impl C16IsizeGreaterOrEqualSym {
        pub closed spec fn spec_view(self) -> isize { self.0 }
        pub closed spec fn spec_sanitize(x: isize) -> isize { x }
        pub closed spec fn spec_validate(x: isize) -> ::core::result::Result<(), C16IsizeGreaterOrEqualSymError> {
            if !(x >= (SYM_LO_ISIZE())) { Err(C16IsizeGreaterOrEqualSymError::GreaterOrEqualViolated) } else { Ok(()) }
        }
        pub closed spec fn spec_post(raw: isize, r: ::core::result::Result<Self, C16IsizeGreaterOrEqualSymError>) -> bool { r == Self::spec_try_new(raw) }
        pub closed spec fn spec_try_new(raw: isize) -> ::core::result::Result<Self, C16IsizeGreaterOrEqualSymError> {
            match Self::spec_validate(Self::spec_sanitize(raw)) {
                Ok(_) => Ok(C16IsizeGreaterOrEqualSym(Self::spec_sanitize(raw))),
                Err(e) => Err(e),
            }
        }
        #[verifier::type_invariant]
        closed spec fn spec_inv(self) -> bool { Self::spec_validate(self.0) is Ok }
    }
    impl C16IsizeGreaterOrEqualSym {
        pub proof fn lemma_c16_GreaterOrEqualViolated(x: isize)
            ensures (x >= (SYM_LO_ISIZE())) <==> (x >= (SYM_LO_ISIZE())),
        {
        }
    }
}
pub use __nutype_C16IsizeGreaterOrEqualSym__::C16IsizeGreaterOrEqualSym;
pub use __nutype_C16IsizeGreaterOrEqualSym__::C16IsizeGreaterOrEqualSymError;

}
pub mod d_c16_isize_greater_or_equal_lit_p {
    use super::*;
// NUTYPE_VERIF_INPUT #[nutype(validate(greater_or_equal = 7), derive(Debug))] pub struct C16IsizeGreaterOrEqualLitP(isize);
#[doc(hidden)]
#[allow(
    non_snake_case,
    reason = "we keep original structure name which is probably CamelCase"
)]
mod __nutype_C16IsizeGreaterOrEqualLitP__ {
    use super::*;
    #[derive(Debug)]
    pub struct C16IsizeGreaterOrEqualLitP(isize);
    #[derive(Debug, Clone, PartialEq, Eq)]
    #[allow(clippy::enum_variant_names)]
    pub enum C16IsizeGreaterOrEqualLitPError {
        GreaterOrEqualViolated,
    }
    #[verifier::external]
impl ::core::fmt::Display for C16IsizeGreaterOrEqualLitPError {
        fn fmt(&self, f: &mut ::core::fmt::Formatter<'_>) -> ::core::fmt::Result {
            match self {
                C16IsizeGreaterOrEqualLitPError::GreaterOrEqualViolated => write!(
                    f,
                    "{} is too small. The value must be greater or equal to {:#?}.",
                    stringify!(C16IsizeGreaterOrEqualLitP),
                    7isize
                ),
            }
        }
    }
    #[verifier::external]
impl ::core::error::Error for C16IsizeGreaterOrEqualLitPError {
        fn source(&self) -> Option<&(dyn ::core::error::Error + 'static)> {
            None
        }
    }
    impl C16IsizeGreaterOrEqualLitP {
        pub fn try_new(
            raw_value: isize,
        ) -> (r: ::core::result::Result<Self, C16IsizeGreaterOrEqualLitPError>) 
            ensures
                r == Self::spec_try_new(raw_value),
                r is Err ==> Self::spec_validate(Self::spec_sanitize(raw_value)) == Err::<(), C16IsizeGreaterOrEqualLitPError>(r->Err_0),
        {
            let sanitized_value: isize = Self::__sanitize__(raw_value);
            #[allow(clippy::question_mark)]
            if let Err(e) = Self::__validate__(&sanitized_value) {
                return Err(e);
            }
            Ok(C16IsizeGreaterOrEqualLitP(sanitized_value))
        }
        fn __sanitize__(mut value: isize) -> (r: isize) 
            ensures
                r == Self::spec_sanitize(value),
        {
            value
        }
        fn __validate__(
            val: &isize,
        ) -> (r: ::core::result::Result<(), C16IsizeGreaterOrEqualLitPError>) 
            ensures
                r == Self::spec_validate(*val),
                r is Err ==> r == Self::spec_validate(*val),
        {
            let val = *val;
            if val < 7isize {
                return Err(C16IsizeGreaterOrEqualLitPError::GreaterOrEqualViolated);
            }
            Ok(())
        }
    }
    impl C16IsizeGreaterOrEqualLitP {
        #[inline]
        pub fn into_inner(self) -> (r: isize) 
            ensures
                r == self.spec_view(),
        {
            self.0
        }
    }
    #[cfg(test)]
    mod tests {
        use super::*;
    }

    // ======== inserted by the annotator: spec-mode items only ========
    impl C16IsizeGreaterOrEqualLitP {
        pub closed spec fn spec_view(self) -> isize { self.0 }
        pub closed spec fn spec_sanitize(x: isize) -> isize { x }
        pub closed spec fn spec_validate(x: isize) -> ::core::result::Result<(), C16IsizeGreaterOrEqualLitPError> {
            if !(x >= (7)) { Err(C16IsizeGreaterOrEqualLitPError::GreaterOrEqualViolated) } else { Ok(()) }
        }
        pub closed spec fn spec_post(raw: isize, r: ::core::result::Result<Self, C16IsizeGreaterOrEqualLitPError>) -> bool { r == Self::spec_try_new(raw) }
        pub closed spec fn spec_try_new(raw: isize) -> ::core::result::Result<Self, C16IsizeGreaterOrEqualLitPError> {
            match Self::spec_validate(Self::spec_sanitize(raw)) {
                Ok(_) => Ok(C16IsizeGreaterOrEqualLitP(Self::spec_sanitize(raw))),
                Err(e) => Err(e),
            }
        }
        #[verifier::type_invariant]
        closed spec fn spec_inv(self) -> bool { Self::spec_validate(self.0) is Ok }
    }
    impl C16IsizeGreaterOrEqualLitP {
        pub proof fn lemma_c16_GreaterOrEqualViolated(x: isize)
            ensures (x >= (7)) <==> (x >= (7)),
        {
        }
    }
}
pub use __nutype_C16IsizeGreaterOrEqualLitP__::C16IsizeGreaterOrEqualLitP;
pub use __nutype_C16IsizeGreaterOrEqualLitP__::C16IsizeGreaterOrEqualLitPError;

}
pub mod d_c16_isize_greater_or_equal_lit_n {
    use super::*;
// NUTYPE_VERIF_INPUT #[nutype(validate(greater_or_equal = -7), derive(Debug))] pub struct C16IsizeGreaterOrEqualLitN(isize);
#[doc(hidden)]
#[allow(
    non_snake_case,
    reason = "we keep original structure name which is probably CamelCase"
)]
mod __nutype_C16IsizeGreaterOrEqualLitN__ {
    use super::*;
    #[derive(Debug)]
    pub struct C16IsizeGreaterOrEqualLitN(isize);
    #[derive(Debug, Clone, PartialEq, Eq)]
    #[allow(clippy::enum_variant_names)]
    pub enum C16IsizeGreaterOrEqualLitNError {
        GreaterOrEqualViolated,
    }
    #[verifier::external]
impl ::core::fmt::Display for C16IsizeGreaterOrEqualLitNError {
        fn fmt(&self, f: &mut ::core::fmt::Formatter<'_>) -> ::core::fmt::Result {
            match self {
                C16IsizeGreaterOrEqualLitNError::GreaterOrEqualViolated => write!(
                    f,
                    "{} is too small. The value must be greater or equal to {:#?}.",
                    stringify!(C16IsizeGreaterOrEqualLitN),
                    -7isize
                ),
            }
        }
    }
    #[verifier::external]
impl ::core::error::Error for C16IsizeGreaterOrEqualLitNError {
        fn source(&self) -> Option<&(dyn ::core::error::Error + 'static)> {
            None
        }
    }
    impl C16IsizeGreaterOrEqualLitN {
        pub fn try_new(
            raw_value: isize,
        ) -> (r: ::core::result::Result<Self, C16IsizeGreaterOrEqualLitNError>) 
            ensures
                r == Self::spec_try_new(raw_value),
                r is Err ==> Self::spec_validate(Self::spec_sanitize(raw_value)) == Err::<(), C16IsizeGreaterOrEqualLitNError>(r->Err_0),
        {
            let sanitized_value: isize = Self::__sanitize__(raw_value);
            #[allow(clippy::question_mark)]
            if let Err(e) = Self::__validate__(&sanitized_value) {
                return Err(e);
            }
            Ok(C16IsizeGreaterOrEqualLitN(sanitized_value))
        }
        fn __sanitize__(mut value: isize) -> (r: isize) 
            ensures
                r == Self::spec_sanitize(value),
        {
            value
        }
        fn __validate__(
            val: &isize,
        ) -> (r: ::core::result::Result<(), C16IsizeGreaterOrEqualLitNError>) 
            ensures
                r == Self::spec_validate(*val),
                r is Err ==> r == Self::spec_validate(*val),
        {
            let val = *val;
            if val < -7isize {
                return Err(C16IsizeGreaterOrEqualLitNError::GreaterOrEqualViolated);
            }
            Ok(())
        }
    }
    impl C16IsizeGreaterOrEqualLitN {
        #[inline]
        pub fn into_inner(self) -> (r: isize) 
            ensures
                r == self.spec_view(),
        {
            self.0
        }
    }
    #[cfg(test)]
    mod tests {
        use super::*;
    }

    // ======== inserted by the annotator: spec-mode items only ========
    impl C16IsizeGreaterOrEqualLitN {
        pub closed spec fn spec_view(self) -> isize { self.0 }
        pub closed spec fn spec_sanitize(x: isize) -> isize { x }
        pub closed spec fn spec_validate(x: isize) -> ::core::result::Result<(), C16IsizeGreaterOrEqualLitNError> {
            if !(x >= ((-7))) { Err(C16IsizeGreaterOrEqualLitNError::GreaterOrEqualViolated) } else { Ok(()) }
        }
        pub closed spec fn spec_post(raw: isize, r: ::core::result::Result<Self, C16IsizeGreaterOrEqualLitNError>) -> bool { r == Self::spec_try_new(raw) }
        pub closed spec fn spec_try_new(raw: isize) -> ::core::result::Result<Self, C16IsizeGreaterOrEqualLitNError> {
            match Self::spec_validate(Self::spec_sanitize(raw)) {
                Ok(_) => Ok(C16IsizeGreaterOrEqualLitN(Self::spec_sanitize(raw))),
                Err(e) => Err(e),
            }
        }
        #[verifier::type_invariant]
        closed spec fn spec_inv(self) -> bool { Self::spec_validate(self.0) is Ok }
    }
    impl C16IsizeGreaterOrEqualLitN {
        pub proof fn lemma_c16_GreaterOrEqualViolated(x: isize)
            ensures (x >= ((-7))) <==> (x >= ((-7))),
        {
        }
    }
}
pub use __nutype_C16IsizeGreaterOrEqualLitN__::C16IsizeGreaterOrEqualLitN;
pub use __nutype_C16IsizeGreaterOrEqualLitN__::C16IsizeGreaterOrEqualLitNError;

}
pub mod d_c16_isize_greater_or_equal_lit_big {
    use super::*;
// NUTYPE_VERIF_INPUT #[nutype(validate(greater_or_equal = 100), derive(Debug))] pub struct C16IsizeGreaterOrEqualLitBig(isize);
#[doc(hidden)]
#[allow(
    non_snake_case,
    reason = "we keep original structure name which is probably CamelCase"
)]
mod __nutype_C16IsizeGreaterOrEqualLitBig__ {
    use super::*;
    #[derive(Debug)]
    pub struct C16IsizeGreaterOrEqualLitBig(isize);
    #[derive(Debug, Clone, PartialEq, Eq)]
    #[allow(clippy::enum_variant_names)]
    pub enum C16IsizeGreaterOrEqualLitBigError {
        GreaterOrEqualViolated,
    }
    #[verifier::external]
impl ::core::fmt::Display for C16IsizeGreaterOrEqualLitBigError {
        fn fmt(&self, f: &mut ::core::fmt::Formatter<'_>) -> ::core::fmt::Result {
            match self {
                C16IsizeGreaterOrEqualLitBigError::GreaterOrEqualViolated => write!(
                    f,
                    "{} is too small. The value must be greater or equal to {:#?}.",
                    stringify!(C16IsizeGreaterOrEqualLitBig),
                    100isize
                ),
            }
        }
    }
    #[verifier::external]
impl ::core::error::Error for C16IsizeGreaterOrEqualLitBigError {
        fn source(&self) -> Option<&(dyn ::core::error::Error + 'static)> {
            None
        }
    }
    impl C16IsizeGreaterOrEqualLitBig {
        pub fn try_new(
            raw_value: isize,
        ) -> (r: ::core::result::Result<Self, C16IsizeGreaterOrEqualLitBigError>) 
            ensures
                r == Self::spec_try_new(raw_value),
                r is Err ==> Self::spec_validate(Self::spec_sanitize(raw_value)) == Err::<(), C16IsizeGreaterOrEqualLitBigError>(r->Err_0),
        {
            let sanitized_value: isize = Self::__sanitize__(raw_value);
            #[allow(clippy::question_mark)]
            if let Err(e) = Self::__validate__(&sanitized_value) {
                return Err(e);
            }
            Ok(C16IsizeGreaterOrEqualLitBig(sanitized_value))
        }
        fn __sanitize__(mut value: isize) -> (r: isize) 
            ensures
                r == Self::spec_sanitize(value),
        {
            value
        }
        fn __validate__(
            val: &isize,
        ) -> (r: ::core::result::Result<(), C16IsizeGreaterOrEqualLitBigError>) 
            ensures
                r == Self::spec_validate(*val),
                r is Err ==> r == Self::spec_validate(*val),
        {
            let val = *val;
            if val < 100isize {
                return Err(C16IsizeGreaterOrEqualLitBigError::GreaterOrEqualViolated);
            }
            Ok(())
        }
    }
    impl C16IsizeGreaterOrEqualLitBig {
        #[inline]
        pub fn into_inner(self) -> (r: isize) 
            ensures
                r == self.spec_view(),
        {
            self.0
        }
    }
    #[cfg(test)]
    mod tests {
        use super::*;
    }

    // ======== inserted by the annotator: spec-mode items only ========
    impl C16IsizeGreaterOrEqualLitBig {
        pub closed spec fn spec_view(self) -> isize { self.0 }
        pub closed spec fn spec_sanitize(x: isize) -> isize { x }
        pub closed spec fn spec_validate(x: isize) -> ::core::result::Result<(), C16IsizeGreaterOrEqualLitBigError> {
            if !(x >= (100)) { Err(C16IsizeGreaterOrEqualLitBigError::GreaterOrEqualViolated) } else { Ok(()) }
        }
        pub closed spec fn spec_post(raw: isize, r: ::core::result::Result<Self, C16IsizeGreaterOrEqualLitBigError>) -> bool { r == Self::spec_try_new(raw) }
        pub closed spec fn spec_try_new(raw: isize) -> ::core::result::Result<Self, C16IsizeGreaterOrEqualLitBigError> {
            match Self::spec_validate(Self::spec_sanitize(raw)) {
                Ok(_) => Ok(C16IsizeGreaterOrEqualLitBig(Self::spec_sanitize(raw))),
                Err(e) => Err(e),
            }
        }
        #[verifier::type_invariant]
        closed spec fn spec_inv(self) -> bool { Self::spec_validate(self.0) is Ok }
    }
    impl C16IsizeGreaterOrEqualLitBig {
        pub proof fn lemma_c16_GreaterOrEqualViolated(x: isize)
            ensures (x >= (100)) <==> (x >= (100)),
        {
        }
    }
}
pub use __nutype_C16IsizeGreaterOrEqualLitBig__::C16IsizeGreaterOrEqualLitBig;
pub use __nutype_C16IsizeGreaterOrEqualLitBig__::C16IsizeGreaterOrEqualLitBigError;

}

// vacuity canary: this MUST fail; if it verifies the assumptions are inconsistent
proof fn __verif_canary() ensures false {}
} // verus!
fn main() {}
