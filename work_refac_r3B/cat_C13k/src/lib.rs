#![allow(dead_code, unused_imports, unused_variables, unused_mut, non_snake_case, non_upper_case_globals, clippy::all)]
use nutype::nutype;
#[derive(Debug, Clone, Copy, PartialEq, Eq)]
pub enum MyErr { Bad, Worse }
impl ::core::fmt::Display for MyErr { fn fmt(&self, f: &mut ::core::fmt::Formatter<'_>) -> ::core::fmt::Result { write!(f, "my err") } }
impl ::core::error::Error for MyErr {}
#[derive(Debug, Clone, Copy, PartialEq)]
pub struct Probe(pub u8);
pub static mut PROBE_LOG: [u64; 8] = [0; 8];
impl ::core::fmt::Display for Probe { fn fmt(&self, f: &mut ::core::fmt::Formatter<'_>) -> ::core::fmt::Result { unsafe { PROBE_LOG[0] += 1; PROBE_LOG[1] = match f.width() { Some(w) => w as u64 + 1, None => 0 }; PROBE_LOG[2] = match f.precision() { Some(w) => w as u64 + 1, None => 0 }; PROBE_LOG[3] = (f.sign_plus() as u64) | ((f.sign_minus() as u64) << 1) | ((f.alternate() as u64) << 2) | ((f.sign_aware_zero_pad() as u64) << 3); PROBE_LOG[4] = match f.align() { None => 0, Some(::core::fmt::Alignment::Left) => 1, Some(::core::fmt::Alignment::Right) => 2, Some(::core::fmt::Alignment::Center) => 3 }; PROBE_LOG[5] = f.fill() as u64; PROBE_LOG[6] = self.0 as u64; } f.write_str("P") } }
pub struct CountWriter { pub n: usize, pub acc: u64 }
impl ::core::fmt::Write for CountWriter { fn write_str(&mut self, s: &str) -> ::core::fmt::Result { let b = s.as_bytes(); let mut i = 0; while i < b.len() && i < 4 { self.acc = self.acc * 257 + b[i] as u64; i += 1; } self.n += b.len(); Ok(()) } }
pub fn sym_lo_f32() -> f32 { 3.0 }
pub fn sym_hi_f32() -> f32 { 100.0 }
pub const fn pred_f32(x: &f32) -> bool { *x != 7.0 }
pub fn vfn_f32(x: &f32) -> Result<(), MyErr> { if *x != 7.0 { Ok(()) } else { Err(MyErr::Bad) } }
pub const fn san_f32(x: f32) -> f32 { if x < 0.0 { -x } else { x } }
pub fn san3_f32(x: f32) -> f32 { x / (2 as f32) + (10 as f32) }
pub fn sym_lo_f64() -> f64 { 3.0 }
pub fn sym_hi_f64() -> f64 { 100.0 }
pub const fn pred_f64(x: &f64) -> bool { *x != 7.0 }
pub fn vfn_f64(x: &f64) -> Result<(), MyErr> { if *x != 7.0 { Ok(()) } else { Err(MyErr::Bad) } }
pub const fn san_f64(x: f64) -> f64 { if x < 0.0 { -x } else { x } }
pub fn san3_f64(x: f64) -> f64 { x / (2 as f64) + (10 as f64) }
pub fn sym_lo_u8() -> u8 { 3 }
pub fn sym_hi_u8() -> u8 { 100 }
pub const fn san_u8(x: u8) -> u8 { if x > 50 { 50 } else { x } }
pub fn sym_lo_i8() -> i8 { 3 }
pub fn sym_hi_i8() -> i8 { 100 }
pub const fn san_i8(x: i8) -> i8 { if x > 50 { 50 } else { x } }
pub fn sym_lo_u16() -> u16 { 3 }
pub fn sym_hi_u16() -> u16 { 100 }
pub const fn san_u16(x: u16) -> u16 { if x > 50 { 50 } else { x } }
pub fn sym_lo_i32() -> i32 { 3 }
pub fn sym_hi_i32() -> i32 { 100 }
pub const fn san_i32(x: i32) -> i32 { if x > 50 { 50 } else { x } }
pub fn sym_lo_u64() -> u64 { 3 }
pub fn sym_hi_u64() -> u64 { 100 }
pub const fn san_u64(x: u64) -> u64 { if x > 50 { 50 } else { x } }
pub fn sym_lo_i128() -> i128 { 3 }
pub fn sym_hi_i128() -> i128 { 100 }
pub const fn san_i128(x: i128) -> i128 { if x > 50 { 50 } else { x } }
pub fn sym_lo_usize() -> usize { 3 }
pub fn sym_hi_usize() -> usize { 100 }
pub const fn san_usize(x: usize) -> usize { if x > 50 { 50 } else { x } }
pub fn san_arr(mut a: [i32; 3]) -> [i32; 3] { if a[0] > a[1] { let t = a[0]; a[0] = a[1]; a[1] = t; } a }
pub fn pred_arr(a: &[i32; 3]) -> bool { a[2] != 7 }

pub mod d_flt_f32_greater_sym {
    use super::*;
    #[nutype(validate(greater = sym_lo_f32()), derive(Debug, Clone, Copy, PartialEq, PartialOrd, AsRef, Deref, Borrow, Into, TryFrom))]
    pub struct FltF32GreaterSym(f32);
}
pub mod d_flt_f32_greater_or_equal_sym {
    use super::*;
    #[nutype(validate(greater_or_equal = sym_lo_f32()), derive(Debug, Clone, Copy, PartialEq, PartialOrd, AsRef, Deref, Borrow, Into, TryFrom))]
    pub struct FltF32GreaterOrEqualSym(f32);
}
pub mod d_flt_f32_less_sym {
    use super::*;
    #[nutype(validate(less = sym_hi_f32()), derive(Debug, Clone, Copy, PartialEq, PartialOrd, AsRef, Deref, Borrow, Into, TryFrom))]
    pub struct FltF32LessSym(f32);
}
pub mod d_flt_f32_less_or_equal_sym {
    use super::*;
    #[nutype(validate(less_or_equal = sym_hi_f32()), derive(Debug, Clone, Copy, PartialEq, PartialOrd, AsRef, Deref, Borrow, Into, TryFrom))]
    pub struct FltF32LessOrEqualSym(f32);
}
pub mod d_flt_f32_finite {
    use super::*;
    #[nutype(validate(finite), derive(Debug, Clone, Copy, PartialEq, PartialOrd, AsRef, Deref, Borrow, Into, TryFrom, Eq, Ord))]
    pub struct FltF32Finite(f32);
}
pub mod d_flt_f32_greater_less_sym {
    use super::*;
    #[nutype(validate(greater = sym_lo_f32(), less = sym_hi_f32()), derive(Debug, Clone, Copy, PartialEq, PartialOrd, AsRef, Deref, Borrow, Into, TryFrom))]
    pub struct FltF32GreaterLessSym(f32);
}
pub mod d_flt_f32_fin_greater_less_sym {
    use super::*;
    #[nutype(validate(finite, greater = sym_lo_f32(), less = sym_hi_f32()), derive(Debug, Clone, Copy, PartialEq, PartialOrd, AsRef, Deref, Borrow, Into, TryFrom, Eq, Ord))]
    pub struct FltF32FinGreaterLessSym(f32);
}
pub mod d_flt_f32_greater_less_or_equal_sym {
    use super::*;
    #[nutype(validate(greater = sym_lo_f32(), less_or_equal = sym_hi_f32()), derive(Debug, Clone, Copy, PartialEq, PartialOrd, AsRef, Deref, Borrow, Into, TryFrom))]
    pub struct FltF32GreaterLessOrEqualSym(f32);
}
pub mod d_flt_f32_fin_greater_less_or_equal_sym {
    use super::*;
    #[nutype(validate(finite, greater = sym_lo_f32(), less_or_equal = sym_hi_f32()), derive(Debug, Clone, Copy, PartialEq, PartialOrd, AsRef, Deref, Borrow, Into, TryFrom, Eq, Ord))]
    pub struct FltF32FinGreaterLessOrEqualSym(f32);
}
pub mod d_flt_f32_greater_or_equal_less_sym {
    use super::*;
    #[nutype(validate(greater_or_equal = sym_lo_f32(), less = sym_hi_f32()), derive(Debug, Clone, Copy, PartialEq, PartialOrd, AsRef, Deref, Borrow, Into, TryFrom))]
    pub struct FltF32GreaterOrEqualLessSym(f32);
}
pub mod d_flt_f32_fin_greater_or_equal_less_sym {
    use super::*;
    #[nutype(validate(finite, greater_or_equal = sym_lo_f32(), less = sym_hi_f32()), derive(Debug, Clone, Copy, PartialEq, PartialOrd, AsRef, Deref, Borrow, Into, TryFrom, Eq, Ord))]
    pub struct FltF32FinGreaterOrEqualLessSym(f32);
}
pub mod d_flt_f32_greater_or_equal_less_or_equal_sym {
    use super::*;
    #[nutype(validate(greater_or_equal = sym_lo_f32(), less_or_equal = sym_hi_f32()), derive(Debug, Clone, Copy, PartialEq, PartialOrd, AsRef, Deref, Borrow, Into, TryFrom))]
    pub struct FltF32GreaterOrEqualLessOrEqualSym(f32);
}
pub mod d_flt_f32_fin_greater_or_equal_less_or_equal_sym {
    use super::*;
    #[nutype(validate(finite, greater_or_equal = sym_lo_f32(), less_or_equal = sym_hi_f32()), derive(Debug, Clone, Copy, PartialEq, PartialOrd, AsRef, Deref, Borrow, Into, TryFrom, Eq, Ord))]
    pub struct FltF32FinGreaterOrEqualLessOrEqualSym(f32);
}
pub mod d_flt_f32_le_ge_fin_sym {
    use super::*;
    #[nutype(validate(less_or_equal = sym_hi_f32(), greater_or_equal = sym_lo_f32(), finite), derive(Debug, Clone, Copy, PartialEq, PartialOrd, AsRef, Deref, Borrow, Into, TryFrom, Eq, Ord))]
    pub struct FltF32LeGeFinSym(f32);
}
pub mod d_flt_f32_pred_lt_fin {
    use super::*;
    #[nutype(validate(predicate = pred_f32, less = sym_hi_f32(), finite), derive(Debug, Clone, Copy, PartialEq, PartialOrd, AsRef, Deref, Borrow, Into, TryFrom, Eq, Ord))]
    pub struct FltF32PredLtFin(f32);
}
pub mod d_flt_f32_custom {
    use super::*;
    #[nutype(validate(with = vfn_f32, error = MyErr), derive(Debug, Clone, Copy, PartialEq, PartialOrd, AsRef, Deref, Borrow, Into, TryFrom))]
    pub struct FltF32Custom(f32);
}
pub mod d_flt_f32_san_fin_le {
    use super::*;
    #[nutype(sanitize(with = san_f32), validate(finite, less_or_equal = sym_hi_f32()), derive(Debug, Clone, Copy, PartialEq, PartialOrd, AsRef, Deref, Borrow, Into, TryFrom, Eq, Ord))]
    pub struct FltF32SanFinLe(f32);
}
pub mod d_flt_f32_san_nov {
    use super::*;
    #[nutype(sanitize(with = san_f32), derive(Debug, Clone, Copy, PartialEq, PartialOrd, AsRef, Deref, Borrow, Into, From))]
    pub struct FltF32SanNov(f32);
}
pub mod d_flt_f32_san3_fin_le {
    use super::*;
    #[nutype(sanitize(with = san3_f32), validate(finite, less_or_equal = sym_hi_f32()), derive(Debug, Clone, Copy, PartialEq, PartialOrd, AsRef, Deref, Borrow, Into, TryFrom, Eq, Ord))]
    pub struct FltF32San3FinLe(f32);
}
pub mod d_flt_f32_san_nov_tf {
    use super::*;
    #[nutype(sanitize(with = san_f32), derive(Debug, Clone, Copy, PartialEq, PartialOrd, AsRef, Deref, Borrow, Into, TryFrom))]
    pub struct FltF32SanNovTf(f32);
}
pub mod d_flt_f32_nothing {
    use super::*;
    #[nutype(derive(Debug, Clone, Copy, PartialEq, PartialOrd, AsRef, Deref, Borrow, Into, From))]
    pub struct FltF32Nothing(f32);
}
pub mod d_flt_f32_greater_or_equal_lit_zero {
    use super::*;
    #[nutype(validate(greater_or_equal = 0.0), derive(Debug, Clone, Copy, PartialEq, PartialOrd, AsRef, Deref, Borrow, Into, TryFrom))]
    pub struct FltF32GreaterOrEqualLitZero(f32);
}
pub mod d_flt_f32_greater_lit_negzero {
    use super::*;
    #[nutype(validate(greater = -0.0), derive(Debug, Clone, Copy, PartialEq, PartialOrd, AsRef, Deref, Borrow, Into, TryFrom))]
    pub struct FltF32GreaterLitNegzero(f32);
}
pub mod d_flt_f32_less_lit_big {
    use super::*;
    #[nutype(validate(less = 1e30), derive(Debug, Clone, Copy, PartialEq, PartialOrd, AsRef, Deref, Borrow, Into, TryFrom))]
    pub struct FltF32LessLitBig(f32);
}
pub mod d_flt_f32_greater_lit_small {
    use super::*;
    #[nutype(validate(greater = 1e-30), derive(Debug, Clone, Copy, PartialEq, PartialOrd, AsRef, Deref, Borrow, Into, TryFrom))]
    pub struct FltF32GreaterLitSmall(f32);
}
pub mod d_flt_f32_less_or_equal_lit_neg {
    use super::*;
    #[nutype(validate(less_or_equal = -2.5), derive(Debug, Clone, Copy, PartialEq, PartialOrd, AsRef, Deref, Borrow, Into, TryFrom))]
    pub struct FltF32LessOrEqualLitNeg(f32);
}
pub mod d_flt_f32_less_or_equal_lit_intlit {
    use super::*;
    #[nutype(validate(less_or_equal = 100), derive(Debug, Clone, Copy, PartialEq, PartialOrd, AsRef, Deref, Borrow, Into, TryFrom))]
    pub struct FltF32LessOrEqualLitIntlit(f32);
}
pub mod d_flt_f32_greater_or_equal_lit_under {
    use super::*;
    #[nutype(validate(greater_or_equal = 1_000.5), derive(Debug, Clone, Copy, PartialEq, PartialOrd, AsRef, Deref, Borrow, Into, TryFrom))]
    pub struct FltF32GreaterOrEqualLitUnder(f32);
}
pub mod d_flt_f32_fin_ge_le_lit_const {
    use super::*;
    #[nutype(const_fn, validate(finite, greater_or_equal = -1.0, less_or_equal = 1.0), derive(Debug, Clone, Copy, PartialEq, PartialOrd, AsRef, Deref, Borrow, Into, TryFrom, Eq, Ord))]
    pub struct FltF32FinGeLeLitConst(f32);
}
pub mod d_flt_f64_greater_sym {
    use super::*;
    #[nutype(validate(greater = sym_lo_f64()), derive(Debug, Clone, Copy, PartialEq, PartialOrd, AsRef, Deref, Borrow, Into, TryFrom))]
    pub struct FltF64GreaterSym(f64);
}
pub mod d_flt_f64_greater_or_equal_sym {
    use super::*;
    #[nutype(validate(greater_or_equal = sym_lo_f64()), derive(Debug, Clone, Copy, PartialEq, PartialOrd, AsRef, Deref, Borrow, Into, TryFrom))]
    pub struct FltF64GreaterOrEqualSym(f64);
}
pub mod d_flt_f64_less_sym {
    use super::*;
    #[nutype(validate(less = sym_hi_f64()), derive(Debug, Clone, Copy, PartialEq, PartialOrd, AsRef, Deref, Borrow, Into, TryFrom))]
    pub struct FltF64LessSym(f64);
}
pub mod d_flt_f64_less_or_equal_sym {
    use super::*;
    #[nutype(validate(less_or_equal = sym_hi_f64()), derive(Debug, Clone, Copy, PartialEq, PartialOrd, AsRef, Deref, Borrow, Into, TryFrom))]
    pub struct FltF64LessOrEqualSym(f64);
}
pub mod d_flt_f64_finite {
    use super::*;
    #[nutype(validate(finite), derive(Debug, Clone, Copy, PartialEq, PartialOrd, AsRef, Deref, Borrow, Into, TryFrom, Eq, Ord))]
    pub struct FltF64Finite(f64);
}
pub mod d_flt_f64_greater_less_sym {
    use super::*;
    #[nutype(validate(greater = sym_lo_f64(), less = sym_hi_f64()), derive(Debug, Clone, Copy, PartialEq, PartialOrd, AsRef, Deref, Borrow, Into, TryFrom))]
    pub struct FltF64GreaterLessSym(f64);
}
pub mod d_flt_f64_fin_greater_less_sym {
    use super::*;
    #[nutype(validate(finite, greater = sym_lo_f64(), less = sym_hi_f64()), derive(Debug, Clone, Copy, PartialEq, PartialOrd, AsRef, Deref, Borrow, Into, TryFrom, Eq, Ord))]
    pub struct FltF64FinGreaterLessSym(f64);
}
pub mod d_flt_f64_greater_less_or_equal_sym {
    use super::*;
    #[nutype(validate(greater = sym_lo_f64(), less_or_equal = sym_hi_f64()), derive(Debug, Clone, Copy, PartialEq, PartialOrd, AsRef, Deref, Borrow, Into, TryFrom))]
    pub struct FltF64GreaterLessOrEqualSym(f64);
}
pub mod d_flt_f64_fin_greater_less_or_equal_sym {
    use super::*;
    #[nutype(validate(finite, greater = sym_lo_f64(), less_or_equal = sym_hi_f64()), derive(Debug, Clone, Copy, PartialEq, PartialOrd, AsRef, Deref, Borrow, Into, TryFrom, Eq, Ord))]
    pub struct FltF64FinGreaterLessOrEqualSym(f64);
}
pub mod d_flt_f64_greater_or_equal_less_sym {
    use super::*;
    #[nutype(validate(greater_or_equal = sym_lo_f64(), less = sym_hi_f64()), derive(Debug, Clone, Copy, PartialEq, PartialOrd, AsRef, Deref, Borrow, Into, TryFrom))]
    pub struct FltF64GreaterOrEqualLessSym(f64);
}
pub mod d_flt_f64_fin_greater_or_equal_less_sym {
    use super::*;
    #[nutype(validate(finite, greater_or_equal = sym_lo_f64(), less = sym_hi_f64()), derive(Debug, Clone, Copy, PartialEq, PartialOrd, AsRef, Deref, Borrow, Into, TryFrom, Eq, Ord))]
    pub struct FltF64FinGreaterOrEqualLessSym(f64);
}
pub mod d_flt_f64_greater_or_equal_less_or_equal_sym {
    use super::*;
    #[nutype(validate(greater_or_equal = sym_lo_f64(), less_or_equal = sym_hi_f64()), derive(Debug, Clone, Copy, PartialEq, PartialOrd, AsRef, Deref, Borrow, Into, TryFrom))]
    pub struct FltF64GreaterOrEqualLessOrEqualSym(f64);
}
pub mod d_flt_f64_fin_greater_or_equal_less_or_equal_sym {
    use super::*;
    #[nutype(validate(finite, greater_or_equal = sym_lo_f64(), less_or_equal = sym_hi_f64()), derive(Debug, Clone, Copy, PartialEq, PartialOrd, AsRef, Deref, Borrow, Into, TryFrom, Eq, Ord))]
    pub struct FltF64FinGreaterOrEqualLessOrEqualSym(f64);
}
pub mod d_flt_f64_le_ge_fin_sym {
    use super::*;
    #[nutype(validate(less_or_equal = sym_hi_f64(), greater_or_equal = sym_lo_f64(), finite), derive(Debug, Clone, Copy, PartialEq, PartialOrd, AsRef, Deref, Borrow, Into, TryFrom, Eq, Ord))]
    pub struct FltF64LeGeFinSym(f64);
}
pub mod d_flt_f64_pred_lt_fin {
    use super::*;
    #[nutype(validate(predicate = pred_f64, less = sym_hi_f64(), finite), derive(Debug, Clone, Copy, PartialEq, PartialOrd, AsRef, Deref, Borrow, Into, TryFrom, Eq, Ord))]
    pub struct FltF64PredLtFin(f64);
}
pub mod d_flt_f64_custom {
    use super::*;
    #[nutype(validate(with = vfn_f64, error = MyErr), derive(Debug, Clone, Copy, PartialEq, PartialOrd, AsRef, Deref, Borrow, Into, TryFrom))]
    pub struct FltF64Custom(f64);
}
pub mod d_flt_f64_san_fin_le {
    use super::*;
    #[nutype(sanitize(with = san_f64), validate(finite, less_or_equal = sym_hi_f64()), derive(Debug, Clone, Copy, PartialEq, PartialOrd, AsRef, Deref, Borrow, Into, TryFrom, Eq, Ord))]
    pub struct FltF64SanFinLe(f64);
}
pub mod d_flt_f64_san_nov {
    use super::*;
    #[nutype(sanitize(with = san_f64), derive(Debug, Clone, Copy, PartialEq, PartialOrd, AsRef, Deref, Borrow, Into, From))]
    pub struct FltF64SanNov(f64);
}
pub mod d_flt_f64_san3_fin_le {
    use super::*;
    #[nutype(sanitize(with = san3_f64), validate(finite, less_or_equal = sym_hi_f64()), derive(Debug, Clone, Copy, PartialEq, PartialOrd, AsRef, Deref, Borrow, Into, TryFrom, Eq, Ord))]
    pub struct FltF64San3FinLe(f64);
}
pub mod d_flt_f64_san_nov_tf {
    use super::*;
    #[nutype(sanitize(with = san_f64), derive(Debug, Clone, Copy, PartialEq, PartialOrd, AsRef, Deref, Borrow, Into, TryFrom))]
    pub struct FltF64SanNovTf(f64);
}
pub mod d_flt_f64_nothing {
    use super::*;
    #[nutype(derive(Debug, Clone, Copy, PartialEq, PartialOrd, AsRef, Deref, Borrow, Into, From))]
    pub struct FltF64Nothing(f64);
}
pub mod d_flt_f64_greater_or_equal_lit_zero {
    use super::*;
    #[nutype(validate(greater_or_equal = 0.0), derive(Debug, Clone, Copy, PartialEq, PartialOrd, AsRef, Deref, Borrow, Into, TryFrom))]
    pub struct FltF64GreaterOrEqualLitZero(f64);
}
pub mod d_flt_f64_greater_lit_negzero {
    use super::*;
    #[nutype(validate(greater = -0.0), derive(Debug, Clone, Copy, PartialEq, PartialOrd, AsRef, Deref, Borrow, Into, TryFrom))]
    pub struct FltF64GreaterLitNegzero(f64);
}
pub mod d_flt_f64_less_lit_big {
    use super::*;
    #[nutype(validate(less = 1e30), derive(Debug, Clone, Copy, PartialEq, PartialOrd, AsRef, Deref, Borrow, Into, TryFrom))]
    pub struct FltF64LessLitBig(f64);
}
pub mod d_flt_f64_greater_lit_small {
    use super::*;
    #[nutype(validate(greater = 1e-30), derive(Debug, Clone, Copy, PartialEq, PartialOrd, AsRef, Deref, Borrow, Into, TryFrom))]
    pub struct FltF64GreaterLitSmall(f64);
}
pub mod d_flt_f64_less_or_equal_lit_neg {
    use super::*;
    #[nutype(validate(less_or_equal = -2.5), derive(Debug, Clone, Copy, PartialEq, PartialOrd, AsRef, Deref, Borrow, Into, TryFrom))]
    pub struct FltF64LessOrEqualLitNeg(f64);
}
pub mod d_flt_f64_less_or_equal_lit_intlit {
    use super::*;
    #[nutype(validate(less_or_equal = 100), derive(Debug, Clone, Copy, PartialEq, PartialOrd, AsRef, Deref, Borrow, Into, TryFrom))]
    pub struct FltF64LessOrEqualLitIntlit(f64);
}
pub mod d_flt_f64_greater_or_equal_lit_under {
    use super::*;
    #[nutype(validate(greater_or_equal = 1_000.5), derive(Debug, Clone, Copy, PartialEq, PartialOrd, AsRef, Deref, Borrow, Into, TryFrom))]
    pub struct FltF64GreaterOrEqualLitUnder(f64);
}
pub mod d_flt_f64_fin_ge_le_lit_const {
    use super::*;
    #[nutype(const_fn, validate(finite, greater_or_equal = -1.0, less_or_equal = 1.0), derive(Debug, Clone, Copy, PartialEq, PartialOrd, AsRef, Deref, Borrow, Into, TryFrom, Eq, Ord))]
    pub struct FltF64FinGeLeLitConst(f64);
}
pub mod d_kint_u8_ge_le_sym {
    use super::*;
    #[nutype(validate(greater_or_equal = sym_lo_u8(), less_or_equal = sym_hi_u8()), derive(Debug, Clone, Copy, PartialEq, Eq, PartialOrd, Ord, Hash, AsRef, Deref, Borrow, Into, TryFrom))]
    pub struct KintU8GeLeSym(u8);
}
pub mod d_kint_u8_san_nov {
    use super::*;
    #[nutype(sanitize(with = san_u8), derive(Debug, Clone, Copy, PartialEq, Eq, PartialOrd, Ord, Hash, AsRef, Deref, Borrow, Into, From))]
    pub struct KintU8SanNov(u8);
}
pub mod d_kint_i8_ge_le_sym {
    use super::*;
    #[nutype(validate(greater_or_equal = sym_lo_i8(), less_or_equal = sym_hi_i8()), derive(Debug, Clone, Copy, PartialEq, Eq, PartialOrd, Ord, Hash, AsRef, Deref, Borrow, Into, TryFrom))]
    pub struct KintI8GeLeSym(i8);
}
pub mod d_kint_i8_san_nov {
    use super::*;
    #[nutype(sanitize(with = san_i8), derive(Debug, Clone, Copy, PartialEq, Eq, PartialOrd, Ord, Hash, AsRef, Deref, Borrow, Into, From))]
    pub struct KintI8SanNov(i8);
}
pub mod d_kint_u16_ge_le_sym {
    use super::*;
    #[nutype(validate(greater_or_equal = sym_lo_u16(), less_or_equal = sym_hi_u16()), derive(Debug, Clone, Copy, PartialEq, Eq, PartialOrd, Ord, Hash, AsRef, Deref, Borrow, Into, TryFrom))]
    pub struct KintU16GeLeSym(u16);
}
pub mod d_kint_u16_san_nov {
    use super::*;
    #[nutype(sanitize(with = san_u16), derive(Debug, Clone, Copy, PartialEq, Eq, PartialOrd, Ord, Hash, AsRef, Deref, Borrow, Into, From))]
    pub struct KintU16SanNov(u16);
}
pub mod d_kint_i32_ge_le_sym {
    use super::*;
    #[nutype(validate(greater_or_equal = sym_lo_i32(), less_or_equal = sym_hi_i32()), derive(Debug, Clone, Copy, PartialEq, Eq, PartialOrd, Ord, Hash, AsRef, Deref, Borrow, Into, TryFrom))]
    pub struct KintI32GeLeSym(i32);
}
pub mod d_kint_i32_san_nov {
    use super::*;
    #[nutype(sanitize(with = san_i32), derive(Debug, Clone, Copy, PartialEq, Eq, PartialOrd, Ord, Hash, AsRef, Deref, Borrow, Into, From))]
    pub struct KintI32SanNov(i32);
}
pub mod d_kint_u64_ge_le_sym {
    use super::*;
    #[nutype(validate(greater_or_equal = sym_lo_u64(), less_or_equal = sym_hi_u64()), derive(Debug, Clone, Copy, PartialEq, Eq, PartialOrd, Ord, Hash, AsRef, Deref, Borrow, Into, TryFrom))]
    pub struct KintU64GeLeSym(u64);
}
pub mod d_kint_u64_san_nov {
    use super::*;
    #[nutype(sanitize(with = san_u64), derive(Debug, Clone, Copy, PartialEq, Eq, PartialOrd, Ord, Hash, AsRef, Deref, Borrow, Into, From))]
    pub struct KintU64SanNov(u64);
}
pub mod d_kint_i128_ge_le_sym {
    use super::*;
    #[nutype(validate(greater_or_equal = sym_lo_i128(), less_or_equal = sym_hi_i128()), derive(Debug, Clone, Copy, PartialEq, Eq, PartialOrd, Ord, Hash, AsRef, Deref, Borrow, Into, TryFrom))]
    pub struct KintI128GeLeSym(i128);
}
pub mod d_kint_i128_san_nov {
    use super::*;
    #[nutype(sanitize(with = san_i128), derive(Debug, Clone, Copy, PartialEq, Eq, PartialOrd, Ord, Hash, AsRef, Deref, Borrow, Into, From))]
    pub struct KintI128SanNov(i128);
}
pub mod d_kint_usize_ge_le_sym {
    use super::*;
    #[nutype(validate(greater_or_equal = sym_lo_usize(), less_or_equal = sym_hi_usize()), derive(Debug, Clone, Copy, PartialEq, Eq, PartialOrd, Ord, Hash, AsRef, Deref, Borrow, Into, TryFrom))]
    pub struct KintUsizeGeLeSym(usize);
}
pub mod d_kint_usize_san_nov {
    use super::*;
    #[nutype(sanitize(with = san_usize), derive(Debug, Clone, Copy, PartialEq, Eq, PartialOrd, Ord, Hash, AsRef, Deref, Borrow, Into, From))]
    pub struct KintUsizeSanNov(usize);
}
pub mod d_disp_probe_nov {
    use super::*;
    #[nutype(derive(Debug, Display))]
    pub struct DispProbeNov(Probe);
}
pub mod d_disp_str_tr {
    use super::*;
    #[nutype(sanitize(trim), validate(not_empty), derive(Debug, Display))]
    pub struct DispStrTr(String);
}
pub mod d_disp_i32_le {
    use super::*;
    #[nutype(validate(less_or_equal = 100), derive(Debug, Display))]
    pub struct DispI32Le(i32);
}
pub mod d_iter_arr_nov {
    use super::*;
    #[nutype(derive(Debug, IntoIterator))]
    pub struct IterArrNov([i32; 3]);
}
pub mod d_iter_arr_san_pred {
    use super::*;
    #[nutype(sanitize(with = san_arr), validate(predicate = pred_arr), derive(Debug, IntoIterator))]
    pub struct IterArrSanPred([i32; 3]);
}
pub mod d_strv_tr_ne {
    use super::*;
    #[nutype(sanitize(trim), validate(not_empty), derive(Debug, Clone, PartialEq, Eq, PartialOrd, Ord, Hash, Borrow))]
    pub struct StrvTrNe(String);
}
