// NUTYPE_VERIF_INPUT #[nutype(validate(greater_or_equal = sym_lo_i64(), less = sym_hi_i64()), derive(Debug, TryFrom, FromStr, Serialize, Deserialize, Arbitrary))] pub struct GrdI64Val(i64);
#[doc(hidden)]
#[allow(
    non_snake_case,
    reason = "we keep original structure name which is probably CamelCase"
)]
mod __nutype_GrdI64Val__ {
    use super::*;
    #[derive(Debug)]
    pub struct GrdI64Val(i64);
    #[derive(Debug, Clone, PartialEq, Eq)]
    #[allow(clippy::enum_variant_names)]
    pub enum GrdI64ValError {
        GreaterOrEqualViolated,
        LessViolated,
    }
    impl ::core::fmt::Display for GrdI64ValError {
        fn fmt(&self, f: &mut ::core::fmt::Formatter<'_>) -> ::core::fmt::Result {
            match self {
                GrdI64ValError::GreaterOrEqualViolated => write!(
                    f,
                    "{} is too small. The value must be greater or equal to {:#?}.",
                    stringify!(GrdI64Val),
                    sym_lo_i64()
                ),
                GrdI64ValError::LessViolated => write!(
                    f,
                    "{} is too big. The value must be less than {:#?}.",
                    stringify!(GrdI64Val),
                    sym_hi_i64()
                ),
            }
        }
    }
    impl ::core::error::Error for GrdI64ValError {
        fn source(&self) -> Option<&(dyn ::core::error::Error + 'static)> {
            None
        }
    }
    impl GrdI64Val {
        pub fn try_new(raw_value: i64) -> ::core::result::Result<Self, GrdI64ValError> {
            let sanitized_value: i64 = Self::__sanitize__(raw_value);
            #[allow(clippy::question_mark)]
            if let Err(e) = Self::__validate__(&sanitized_value) {
                return Err(e);
            }
            Ok(GrdI64Val(sanitized_value))
        }
        fn __sanitize__(mut value: i64) -> i64 {
            value
        }
        fn __validate__(val: &i64) -> ::core::result::Result<(), GrdI64ValError> {
            let val = *val;
            if val < sym_lo_i64() {
                return Err(GrdI64ValError::GreaterOrEqualViolated);
            }
            if val >= sym_hi_i64() {
                return Err(GrdI64ValError::LessViolated);
            }
            Ok(())
        }
    }
    impl GrdI64Val {
        #[inline]
        pub fn into_inner(self) -> i64 {
            self.0
        }
    }
    #[derive(Debug)]
    pub enum GrdI64ValParseError {
        Parse(<i64 as ::core::str::FromStr>::Err),
        Validate(GrdI64ValError),
    }
    impl ::core::fmt::Display for GrdI64ValParseError {
        fn fmt(&self, formatter: &mut ::core::fmt::Formatter<'_>) -> ::core::fmt::Result {
            match *self {
                Self::Validate(ref validation_error) => formatter.write_fmt(::core::format_args!(
                    "Failed to parse {}: {}",
                    "GrdI64Val",
                    validation_error
                )),
                Self::Parse(ref parse_error) => formatter.write_fmt(::core::format_args!(
                    "Failed to parse {}: {:?}",
                    "GrdI64Val",
                    parse_error
                )),
            }
        }
    }
    impl ::core::error::Error for GrdI64ValParseError {
        fn source(&self) -> Option<&(dyn ::core::error::Error + 'static)> {
            None
        }
    }
    impl ::core::str::FromStr for GrdI64Val {
        type Err = GrdI64ValParseError;
        fn from_str(input: &str) -> ::core::result::Result<Self, GrdI64ValParseError> {
            match <i64 as ::core::str::FromStr>::from_str(input) {
                ::core::result::Result::Err(parse_error) => {
                    ::core::result::Result::Err(GrdI64ValParseError::Parse(parse_error))
                }
                ::core::result::Result::Ok(parsed_value) => match <Self>::try_new(parsed_value) {
                    ::core::result::Result::Ok(valid) => ::core::result::Result::Ok(valid),
                    ::core::result::Result::Err(validation_error) => {
                        ::core::result::Result::Err(GrdI64ValParseError::Validate(validation_error))
                    }
                },
            }
        }
    }
    impl ::core::convert::TryFrom<i64> for GrdI64Val {
        type Error = GrdI64ValError;
        #[inline]
        fn try_from(raw_value: i64) -> ::core::result::Result<GrdI64Val, Self::Error> {
            Self::try_new(raw_value)
        }
    }
    impl ::arbitrary::Arbitrary<'_> for GrdI64Val {
        fn arbitrary(u: &mut ::arbitrary::Unstructured<'_>) -> ::arbitrary::Result<Self> {
            let inner_value: i64 = u.int_in_range((sym_lo_i64())..=((sym_hi_i64()) - 1))?;
            Ok(Self ::
            try_new(inner_value).expect("Arbitrary generated an invalid value for GrdI64Val.\n\n\nClick the following link to report the issue:\n\nhttps://github.com/greyblake/nutype/issues/new?title=Arbitrary%20generates%20an%20invalid%20value%20for%20i64&body=%0AHaving%20my%20type%20defined%20as%3A%0A%0A%60%60%60rs%0A%2F%2F%20Put%20the%20definition%20of%20your%20type%20with%20%23%5Bnutype%5D%20macro%20here%0A%60%60%60%0A%0AI%20got%20a%20panic%20when%20I%20tried%20to%20generate%20a%20value%20with%20Arbitrary.%0A&labels=bug\n\n"))
        }
    }
    #[inline]
    fn size_hint(_depth: usize) -> (usize, Option<usize>) {
        let n = ::core::mem::size_of::<i64>();
        (n, Some(n))
    }
    impl<'de> ::serde::Deserialize<'de> for GrdI64Val {
        fn deserialize<D: ::serde::Deserializer<'de>>(
            deserializer: D,
        ) -> ::core::result::Result<Self, D::Error> {
            struct __Visitor<'de> {
                marker: ::core::marker::PhantomData<GrdI64Val>,
                lifetime: ::core::marker::PhantomData<&'de ()>,
            }
            impl<'de> ::serde::de::Visitor<'de> for __Visitor<'de> {
                type Value = GrdI64Val;
                fn expecting(&self, formatter: &mut ::core::fmt::Formatter) -> ::core::fmt::Result {
                    write!(formatter, "tuple struct GrdI64Val")
                }
                fn visit_newtype_struct<DE>(
                    self,
                    deserializer: DE,
                ) -> ::core::result::Result<Self::Value, DE::Error>
                where
                    DE: ::serde::Deserializer<'de>,
                {
                    let raw_value: i64 =
                        match <i64 as ::serde::Deserialize>::deserialize(deserializer) {
                            Ok(val) => val,
                            Err(err) => return Err(err),
                        };
                    GrdI64Val::try_new(raw_value).map_err(|validation_error| {
                        <DE::Error as serde::de::Error>::custom(core::format_args!(
                            "{validation_error} Expected valid {}",
                            "GrdI64Val"
                        ))
                    })
                }
            }
            ::serde::de::Deserializer::deserialize_newtype_struct(
                deserializer,
                "GrdI64Val",
                __Visitor {
                    marker: Default::default(),
                    lifetime: Default::default(),
                },
            )
        }
    }
    impl ::serde::Serialize for GrdI64Val {
        fn serialize<S>(&self, serializer: S) -> ::core::result::Result<S::Ok, S::Error>
        where
            S: ::serde::Serializer,
        {
            ::serde::ser::Serializer::serialize_newtype_struct(serializer, "GrdI64Val", &self.0)
        }
    }
    #[cfg(test)]
    mod tests {
        use super::*;
        #[test]
        fn should_have_consistent_lower_and_upper_boundaries() {
            assert!
            (sym_hi_i64() >= sym_lo_i64(),
            "\nInconsistent lower and upper boundaries for type `GrdI64Val`\nThe upper boundary `sym_hi_i64()` must be greater than or equal to the lower boundary `sym_lo_i64()`\nNote: the test is generated automatically by #[nutype] macro.\n");
        }
    }
}
pub use __nutype_GrdI64Val__::GrdI64Val;
pub use __nutype_GrdI64Val__::GrdI64ValError;
pub use __nutype_GrdI64Val__::GrdI64ValParseError;
