// NUTYPE_VERIF_INPUT #[nutype(sanitize(trim), derive(Debug, Default))] pub struct DefNodefaultStr(String);
::core::compile_error! {
    "Trait `Default` is derived for type DefNodefaultStr, but `default = ` parameter is missing in #[nutype] macro"
}
