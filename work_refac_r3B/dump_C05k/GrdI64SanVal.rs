// NUTYPE_VERIF_INPUT #[nutype(sanitize(with = san_i64), validate(greater_or_equal = sym_lo_i64(), less = sym_hi_i64()), derive(Debug, TryFrom, FromStr, Serialize, Deserialize))] pub struct GrdI64SanVal(i64);
#[doc(hidden)]
#[allow(
    non_snake_case,
    reason = "we keep original structure name which is probably CamelCase"
)]
mod __nutype_GrdI64SanVal__ {
    use super::*;
    #[derive(Debug)]
    pub struct GrdI64SanVal(i64);
    #[derive(Debug, Clone, PartialEq, Eq)]
    #[allow(clippy::enum_variant_names)]
    pub enum GrdI64SanValError {
        GreaterOrEqualViolated,
        LessViolated,
    }
    impl ::core::fmt::Display for GrdI64SanValError {
        fn fmt(&self, f: &mut ::core::fmt::Formatter<'_>) -> ::core::fmt::Result {
            match self {
                GrdI64SanValError::GreaterOrEqualViolated => write!(
                    f,
                    "{} is too small. The value must be greater or equal to {:#?}.",
                    stringify!(GrdI64SanVal),
                    sym_lo_i64()
                ),
                GrdI64SanValError::LessViolated => write!(
                    f,
                    "{} is too big. The value must be less than {:#?}.",
                    stringify!(GrdI64SanVal),
                    sym_hi_i64()
                ),
            }
        }
    }
    impl ::core::error::Error for GrdI64SanValError {
        fn source(&self) -> Option<&(dyn ::core::error::Error + 'static)> {
            None
        }
    }
    impl GrdI64SanVal {
        pub fn try_new(raw_value: i64) -> ::core::result::Result<Self, GrdI64SanValError> {
            let sanitized_value: i64 = Self::__sanitize__(raw_value);
            #[allow(clippy::question_mark)]
            if let Err(e) = Self::__validate__(&sanitized_value) {
                return Err(e);
            }
            Ok(GrdI64SanVal(sanitized_value))
        }
        fn __sanitize__(mut value: i64) -> i64 {
            value = (san_i64)(value);
            value
        }
        fn __validate__(val: &i64) -> ::core::result::Result<(), GrdI64SanValError> {
            let val = *val;
            if val < sym_lo_i64() {
                return Err(GrdI64SanValError::GreaterOrEqualViolated);
            }
            if val >= sym_hi_i64() {
                return Err(GrdI64SanValError::LessViolated);
            }
            Ok(())
        }
    }
    impl GrdI64SanVal {
        #[inline]
        pub fn into_inner(self) -> i64 {
            self.0
        }
    }
    impl<'de> ::serde::Deserialize<'de> for GrdI64SanVal {
        fn deserialize<D: ::serde::Deserializer<'de>>(
            deserializer: D,
        ) -> ::core::result::Result<Self, D::Error> {
            struct __Visitor<'de> {
                marker: ::core::marker::PhantomData<GrdI64SanVal>,
                lifetime: ::core::marker::PhantomData<&'de ()>,
            }
            impl<'de> ::serde::de::Visitor<'de> for __Visitor<'de> {
                type Value = GrdI64SanVal;
                fn expecting(&self, formatter: &mut ::core::fmt::Formatter) -> ::core::fmt::Result {
                    write!(formatter, "tuple struct GrdI64SanVal")
                }
                fn visit_newtype_struct<DE>(
                    self,
                    deserializer: DE,
                ) -> ::core::result::Result<Self::Value, DE::Error>
                where
                    DE: ::serde::Deserializer<'de>,
                {
                    let raw_value: i64 =
                        match <i64 as ::serde::Deserialize>::deserialize(deserializer) {
                            Ok(val) => val,
                            Err(err) => return Err(err),
                        };
                    GrdI64SanVal::try_new(raw_value).map_err(|validation_error| {
                        <DE::Error as serde::de::Error>::custom(core::format_args!(
                            "{validation_error} Expected valid {}",
                            "GrdI64SanVal"
                        ))
                    })
                }
            }
            ::serde::de::Deserializer::deserialize_newtype_struct(
                deserializer,
                "GrdI64SanVal",
                __Visitor {
                    marker: Default::default(),
                    lifetime: Default::default(),
                },
            )
        }
    }
    impl ::core::convert::TryFrom<i64> for GrdI64SanVal {
        type Error = GrdI64SanValError;
        #[inline]
        fn try_from(raw_value: i64) -> ::core::result::Result<GrdI64SanVal, Self::Error> {
            Self::try_new(raw_value)
        }
    }
    impl ::serde::Serialize for GrdI64SanVal {
        fn serialize<S>(&self, serializer: S) -> ::core::result::Result<S::Ok, S::Error>
        where
            S: ::serde::Serializer,
        {
            ::serde::ser::Serializer::serialize_newtype_struct(serializer, "GrdI64SanVal", &self.0)
        }
    }
    #[derive(Debug)]
    pub enum GrdI64SanValParseError {
        Parse(<i64 as ::core::str::FromStr>::Err),
        Validate(GrdI64SanValError),
    }
    impl ::core::fmt::Display for GrdI64SanValParseError {
        fn fmt(&self, formatter: &mut ::core::fmt::Formatter<'_>) -> ::core::fmt::Result {
            match *self {
                Self::Validate(ref validation_error) => formatter.write_fmt(::core::format_args!(
                    "Failed to parse {}: {}",
                    "GrdI64SanVal",
                    validation_error
                )),
                Self::Parse(ref parse_error) => formatter.write_fmt(::core::format_args!(
                    "Failed to parse {}: {:?}",
                    "GrdI64SanVal",
                    parse_error
                )),
            }
        }
    }
    impl ::core::error::Error for GrdI64SanValParseError {
        fn source(&self) -> Option<&(dyn ::core::error::Error + 'static)> {
            None
        }
    }
    impl ::core::str::FromStr for GrdI64SanVal {
        type Err = GrdI64SanValParseError;
        fn from_str(input: &str) -> ::core::result::Result<Self, GrdI64SanValParseError> {
            match <i64 as ::core::str::FromStr>::from_str(input) {
                ::core::result::Result::Err(parse_error) => {
                    ::core::result::Result::Err(GrdI64SanValParseError::Parse(parse_error))
                }
                ::core::result::Result::Ok(parsed_value) => match <Self>::try_new(parsed_value) {
                    ::core::result::Result::Ok(valid) => ::core::result::Result::Ok(valid),
                    ::core::result::Result::Err(validation_error) => ::core::result::Result::Err(
                        GrdI64SanValParseError::Validate(validation_error),
                    ),
                },
            }
        }
    }
    #[cfg(test)]
    mod tests {
        use super::*;
        #[test]
        fn should_have_consistent_lower_and_upper_boundaries() {
            assert!
            (sym_hi_i64() >= sym_lo_i64(),
            "\nInconsistent lower and upper boundaries for type `GrdI64SanVal`\nThe upper boundary `sym_hi_i64()` must be greater than or equal to the lower boundary `sym_lo_i64()`\nNote: the test is generated automatically by #[nutype] macro.\n");
        }
    }
}
pub use __nutype_GrdI64SanVal__::GrdI64SanVal;
pub use __nutype_GrdI64SanVal__::GrdI64SanValError;
pub use __nutype_GrdI64SanVal__::GrdI64SanValParseError;
