// NUTYPE_VERIF_INPUT #[nutype(sanitize(with = san_i128), validate(less_or_equal = 60), derive(Debug, Default), default = 77)] pub struct DefI128Sanitized(i128);
#[doc(hidden)]
#[allow(
    non_snake_case,
    reason = "we keep original structure name which is probably CamelCase"
)]
mod __nutype_DefI128Sanitized__ {
    use super::*;
    #[derive(Debug)]
    pub struct DefI128Sanitized(i128);
    #[derive(Debug, Clone, PartialEq, Eq)]
    #[allow(clippy::enum_variant_names)]
    pub enum DefI128SanitizedError {
        LessOrEqualViolated,
    }
    impl ::core::fmt::Display for DefI128SanitizedError {
        fn fmt(&self, f: &mut ::core::fmt::Formatter<'_>) -> ::core::fmt::Result {
            match self {
                DefI128SanitizedError::LessOrEqualViolated => write!(
                    f,
                    "{} is too big. The value must be less or equal to {:#?}.",
                    stringify!(DefI128Sanitized),
                    60i128
                ),
            }
        }
    }
    impl ::core::error::Error for DefI128SanitizedError {
        fn source(&self) -> Option<&(dyn ::core::error::Error + 'static)> {
            None
        }
    }
    impl DefI128Sanitized {
        pub fn try_new(raw_value: i128) -> ::core::result::Result<Self, DefI128SanitizedError> {
            let sanitized_value: i128 = Self::__sanitize__(raw_value);
            #[allow(clippy::question_mark)]
            if let Err(e) = Self::__validate__(&sanitized_value) {
                return Err(e);
            }
            Ok(DefI128Sanitized(sanitized_value))
        }
        fn __sanitize__(mut value: i128) -> i128 {
            value = (san_i128)(value);
            value
        }
        fn __validate__(val: &i128) -> ::core::result::Result<(), DefI128SanitizedError> {
            let val = *val;
            if val > 60i128 {
                return Err(DefI128SanitizedError::LessOrEqualViolated);
            }
            Ok(())
        }
    }
    impl DefI128Sanitized {
        #[inline]
        pub fn into_inner(self) -> i128 {
            self.0
        }
    }
    impl ::core::default::Default for DefI128Sanitized {
        fn default() -> Self {
            Self::try_new(77).unwrap_or_else(|err| {
                let tp = "DefI128Sanitized";
                panic!("\nDefault value for type `{tp}` is invalid.\nERROR: {err:?}\n");
            })
        }
    }
    #[cfg(test)]
    mod tests {
        use super::*;
        #[test]
        fn should_have_valid_default_value() {
            let default_inner_value = DefI128Sanitized::default().into_inner();
            DefI128Sanitized ::
            try_new(default_inner_value).expect("\nType `DefI128Sanitized` has invalid default value `77`\nNote: the test is generated automatically by #[nutype] macro\n");
        }
    }
}
pub use __nutype_DefI128Sanitized__::DefI128Sanitized;
pub use __nutype_DefI128Sanitized__::DefI128SanitizedError;
