// NUTYPE_VERIF_INPUT #[nutype(sanitize(with = san_f32), validate(finite, greater_or_equal = sym_lo_f32(), less = sym_hi_f32()), derive(Debug, TryFrom, FromStr, Serialize, Deserialize))] pub struct GrdF32SanVal(f32);
#[doc(hidden)]
#[allow(
    non_snake_case,
    reason = "we keep original structure name which is probably CamelCase"
)]
mod __nutype_GrdF32SanVal__ {
    use super::*;
    #[derive(Debug)]
    pub struct GrdF32SanVal(f32);
    #[derive(Debug, Clone, PartialEq, Eq)]
    #[allow(clippy::enum_variant_names)]
    pub enum GrdF32SanValError {
        FiniteViolated,
        GreaterOrEqualViolated,
        LessViolated,
    }
    impl ::core::fmt::Display for GrdF32SanValError {
        fn fmt(&self, f: &mut ::core::fmt::Formatter<'_>) -> ::core::fmt::Result {
            match self {
                GrdF32SanValError::FiniteViolated => {
                    write!(f, "{} is not finite.", stringify!(GrdF32SanVal))
                }
                GrdF32SanValError::GreaterOrEqualViolated => write!(
                    f,
                    "{} is too small. The value must be greater or equal to {:#?}.",
                    stringify!(GrdF32SanVal),
                    sym_lo_f32()
                ),
                GrdF32SanValError::LessViolated => write!(
                    f,
                    "{} is too big. The value must be less than {:#?}.",
                    stringify!(GrdF32SanVal),
                    sym_hi_f32()
                ),
            }
        }
    }
    impl ::core::error::Error for GrdF32SanValError {
        fn source(&self) -> Option<&(dyn ::core::error::Error + 'static)> {
            None
        }
    }
    impl GrdF32SanVal {
        pub fn try_new(raw_value: f32) -> ::core::result::Result<Self, GrdF32SanValError> {
            let sanitized_value: f32 = Self::__sanitize__(raw_value);
            #[allow(clippy::question_mark)]
            if let Err(e) = Self::__validate__(&sanitized_value) {
                return Err(e);
            }
            Ok(GrdF32SanVal(sanitized_value))
        }
        fn __sanitize__(mut value: f32) -> f32 {
            value = (san_f32)(value);
            value
        }
        fn __validate__(val: &f32) -> core::result::Result<(), GrdF32SanValError> {
            let val = *val;
            if !val.is_finite() {
                return Err(GrdF32SanValError::FiniteViolated);
            }
            if val < sym_lo_f32() {
                return Err(GrdF32SanValError::GreaterOrEqualViolated);
            }
            if val >= sym_hi_f32() {
                return Err(GrdF32SanValError::LessViolated);
            }
            Ok(())
        }
    }
    impl GrdF32SanVal {
        #[inline]
        pub fn into_inner(self) -> f32 {
            self.0
        }
    }
    impl<'de> ::serde::Deserialize<'de> for GrdF32SanVal {
        fn deserialize<D: ::serde::Deserializer<'de>>(
            deserializer: D,
        ) -> ::core::result::Result<Self, D::Error> {
            struct __Visitor<'de> {
                marker: ::core::marker::PhantomData<GrdF32SanVal>,
                lifetime: ::core::marker::PhantomData<&'de ()>,
            }
            impl<'de> ::serde::de::Visitor<'de> for __Visitor<'de> {
                type Value = GrdF32SanVal;
                fn expecting(&self, formatter: &mut ::core::fmt::Formatter) -> ::core::fmt::Result {
                    write!(formatter, "tuple struct GrdF32SanVal")
                }
                fn visit_newtype_struct<DE>(
                    self,
                    deserializer: DE,
                ) -> ::core::result::Result<Self::Value, DE::Error>
                where
                    DE: ::serde::Deserializer<'de>,
                {
                    let raw_value: f32 =
                        match <f32 as ::serde::Deserialize>::deserialize(deserializer) {
                            Ok(val) => val,
                            Err(err) => return Err(err),
                        };
                    GrdF32SanVal::try_new(raw_value).map_err(|validation_error| {
                        <DE::Error as serde::de::Error>::custom(core::format_args!(
                            "{validation_error} Expected valid {}",
                            "GrdF32SanVal"
                        ))
                    })
                }
            }
            ::serde::de::Deserializer::deserialize_newtype_struct(
                deserializer,
                "GrdF32SanVal",
                __Visitor {
                    marker: Default::default(),
                    lifetime: Default::default(),
                },
            )
        }
    }
    #[derive(Debug)]
    pub enum GrdF32SanValParseError {
        Parse(<f32 as ::core::str::FromStr>::Err),
        Validate(GrdF32SanValError),
    }
    impl ::core::fmt::Display for GrdF32SanValParseError {
        fn fmt(&self, formatter: &mut ::core::fmt::Formatter<'_>) -> ::core::fmt::Result {
            match *self {
                Self::Validate(ref validation_error) => formatter.write_fmt(::core::format_args!(
                    "Failed to parse {}: {}",
                    "GrdF32SanVal",
                    validation_error
                )),
                Self::Parse(ref parse_error) => formatter.write_fmt(::core::format_args!(
                    "Failed to parse {}: {:?}",
                    "GrdF32SanVal",
                    parse_error
                )),
            }
        }
    }
    impl ::core::error::Error for GrdF32SanValParseError {
        fn source(&self) -> Option<&(dyn ::core::error::Error + 'static)> {
            None
        }
    }
    impl ::core::str::FromStr for GrdF32SanVal {
        type Err = GrdF32SanValParseError;
        fn from_str(input: &str) -> ::core::result::Result<Self, GrdF32SanValParseError> {
            match <f32 as ::core::str::FromStr>::from_str(input) {
                ::core::result::Result::Err(parse_error) => {
                    ::core::result::Result::Err(GrdF32SanValParseError::Parse(parse_error))
                }
                ::core::result::Result::Ok(parsed_value) => match <Self>::try_new(parsed_value) {
                    ::core::result::Result::Ok(valid) => ::core::result::Result::Ok(valid),
                    ::core::result::Result::Err(validation_error) => ::core::result::Result::Err(
                        GrdF32SanValParseError::Validate(validation_error),
                    ),
                },
            }
        }
    }
    impl ::serde::Serialize for GrdF32SanVal {
        fn serialize<S>(&self, serializer: S) -> ::core::result::Result<S::Ok, S::Error>
        where
            S: ::serde::Serializer,
        {
            ::serde::ser::Serializer::serialize_newtype_struct(serializer, "GrdF32SanVal", &self.0)
        }
    }
    impl ::core::convert::TryFrom<f32> for GrdF32SanVal {
        type Error = GrdF32SanValError;
        #[inline]
        fn try_from(raw_value: f32) -> ::core::result::Result<GrdF32SanVal, Self::Error> {
            Self::try_new(raw_value)
        }
    }
    #[cfg(test)]
    mod tests {
        use super::*;
        #[test]
        fn should_have_consistent_lower_and_upper_boundaries() {
            assert!
            (sym_hi_f32() >= sym_lo_f32(),
            "\nInconsistent lower and upper boundaries for type `GrdF32SanVal`\nThe upper boundary `sym_hi_f32()` must be greater than or equal to the lower boundary `sym_lo_f32()`\nNote: the test is generated automatically by #[nutype] macro.\n");
        }
    }
}
pub use __nutype_GrdF32SanVal__::GrdF32SanVal;
pub use __nutype_GrdF32SanVal__::GrdF32SanValError;
pub use __nutype_GrdF32SanVal__::GrdF32SanValParseError;
