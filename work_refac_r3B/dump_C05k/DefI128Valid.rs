// NUTYPE_VERIF_INPUT #[nutype(validate(greater_or_equal = 0, less_or_equal = 10), derive(Debug, Default), default = 5)] pub struct DefI128Valid(i128);
#[doc(hidden)]
#[allow(
    non_snake_case,
    reason = "we keep original structure name which is probably CamelCase"
)]
mod __nutype_DefI128Valid__ {
    use super::*;
    #[derive(Debug)]
    pub struct DefI128Valid(i128);
    #[derive(Debug, Clone, PartialEq, Eq)]
    #[allow(clippy::enum_variant_names)]
    pub enum DefI128ValidError {
        GreaterOrEqualViolated,
        LessOrEqualViolated,
    }
    impl ::core::fmt::Display for DefI128ValidError {
        fn fmt(&self, f: &mut ::core::fmt::Formatter<'_>) -> ::core::fmt::Result {
            match self {
                DefI128ValidError::GreaterOrEqualViolated => write!(
                    f,
                    "{} is too small. The value must be greater or equal to {:#?}.",
                    stringify!(DefI128Valid),
                    0i128
                ),
                DefI128ValidError::LessOrEqualViolated => write!(
                    f,
                    "{} is too big. The value must be less or equal to {:#?}.",
                    stringify!(DefI128Valid),
                    10i128
                ),
            }
        }
    }
    impl ::core::error::Error for DefI128ValidError {
        fn source(&self) -> Option<&(dyn ::core::error::Error + 'static)> {
            None
        }
    }
    impl DefI128Valid {
        pub fn try_new(raw_value: i128) -> ::core::result::Result<Self, DefI128ValidError> {
            let sanitized_value: i128 = Self::__sanitize__(raw_value);
            #[allow(clippy::question_mark)]
            if let Err(e) = Self::__validate__(&sanitized_value) {
                return Err(e);
            }
            Ok(DefI128Valid(sanitized_value))
        }
        fn __sanitize__(mut value: i128) -> i128 {
            value
        }
        fn __validate__(val: &i128) -> ::core::result::Result<(), DefI128ValidError> {
            let val = *val;
            if val < 0i128 {
                return Err(DefI128ValidError::GreaterOrEqualViolated);
            }
            if val > 10i128 {
                return Err(DefI128ValidError::LessOrEqualViolated);
            }
            Ok(())
        }
    }
    impl DefI128Valid {
        #[inline]
        pub fn into_inner(self) -> i128 {
            self.0
        }
    }
    impl ::core::default::Default for DefI128Valid {
        fn default() -> Self {
            Self::try_new(5).unwrap_or_else(|err| {
                let tp = "DefI128Valid";
                panic!("\nDefault value for type `{tp}` is invalid.\nERROR: {err:?}\n");
            })
        }
    }
    #[cfg(test)]
    mod tests {
        use super::*;
        #[test]
        fn should_have_consistent_lower_and_upper_boundaries() {
            assert!
            (10i128 >= 0i128,
            "\nInconsistent lower and upper boundaries for type `DefI128Valid`\nThe upper boundary `10i128` must be greater than or equal to the lower boundary `0i128`\nNote: the test is generated automatically by #[nutype] macro.\n");
        }
        #[test]
        fn should_have_valid_default_value() {
            let default_inner_value = DefI128Valid::default().into_inner();
            DefI128Valid ::
            try_new(default_inner_value).expect("\nType `DefI128Valid` has invalid default value `5`\nNote: the test is generated automatically by #[nutype] macro\n");
        }
    }
}
pub use __nutype_DefI128Valid__::DefI128Valid;
pub use __nutype_DefI128Valid__::DefI128ValidError;
