// NUTYPE_VERIF_INPUT #[nutype(sanitize(with = san2_i32), derive(Debug, Default))] pub struct DefNodefaultI32(i32);
::core::compile_error! {
    "Trait `Default` is derived for type DefNodefaultI32, but `default = ` parameter is missing in #[nutype] macro"
}
