// NUTYPE_VERIF_INPUT #[nutype(sanitize(with = san_i32), derive(Debug, TryFrom, FromStr, Serialize, Deserialize))] pub struct GrdI32SanNov(i32);
#[doc(hidden)]
#[allow(
    non_snake_case,
    reason = "we keep original structure name which is probably CamelCase"
)]
mod __nutype_GrdI32SanNov__ {
    use super::*;
    #[derive(Debug)]
    pub struct GrdI32SanNov(i32);
    impl GrdI32SanNov {
        pub fn new(raw_value: i32) -> Self {
            Self(Self::__sanitize__(raw_value))
        }
        fn __sanitize__(mut value: i32) -> i32 {
            value = (san_i32)(value);
            value
        }
    }
    impl GrdI32SanNov {
        #[inline]
        pub fn into_inner(self) -> i32 {
            self.0
        }
    }
    impl ::core::convert::TryFrom<i32> for GrdI32SanNov {
        type Error = ::core::convert::Infallible;
        #[inline]
        fn try_from(raw_value: i32) -> ::core::result::Result<GrdI32SanNov, Self::Error> {
            Ok(Self::new(raw_value))
        }
    }
    #[derive(Debug)]
    pub enum GrdI32SanNovParseError {
        Parse(<i32 as ::core::str::FromStr>::Err),
    }
    impl ::core::fmt::Display for GrdI32SanNovParseError {
        fn fmt(&self, formatter: &mut ::core::fmt::Formatter<'_>) -> ::core::fmt::Result {
            let Self::Parse(parse_error) = self;
            formatter.write_fmt(::core::format_args!(
                "Failed to parse {}: {:?}",
                "GrdI32SanNov",
                parse_error
            ))
        }
    }
    impl ::core::error::Error for GrdI32SanNovParseError {
        fn source(&self) -> Option<&(dyn ::core::error::Error + 'static)> {
            None
        }
    }
    impl ::core::str::FromStr for GrdI32SanNov {
        type Err = GrdI32SanNovParseError;
        fn from_str(input: &str) -> ::core::result::Result<Self, GrdI32SanNovParseError> {
            match <i32 as ::core::str::FromStr>::from_str(input) {
                ::core::result::Result::Ok(parsed_value) => {
                    ::core::result::Result::Ok(<Self>::new(parsed_value))
                }
                ::core::result::Result::Err(parse_error) => {
                    ::core::result::Result::Err(GrdI32SanNovParseError::Parse(parse_error))
                }
            }
        }
    }
    impl ::serde::Serialize for GrdI32SanNov {
        fn serialize<S>(&self, serializer: S) -> ::core::result::Result<S::Ok, S::Error>
        where
            S: ::serde::Serializer,
        {
            ::serde::ser::Serializer::serialize_newtype_struct(serializer, "GrdI32SanNov", &self.0)
        }
    }
    impl<'de> ::serde::Deserialize<'de> for GrdI32SanNov {
        fn deserialize<D: ::serde::Deserializer<'de>>(
            deserializer: D,
        ) -> ::core::result::Result<Self, D::Error> {
            struct __Visitor<'de> {
                marker: ::core::marker::PhantomData<GrdI32SanNov>,
                lifetime: ::core::marker::PhantomData<&'de ()>,
            }
            impl<'de> ::serde::de::Visitor<'de> for __Visitor<'de> {
                type Value = GrdI32SanNov;
                fn expecting(&self, formatter: &mut ::core::fmt::Formatter) -> ::core::fmt::Result {
                    write!(formatter, "tuple struct GrdI32SanNov")
                }
                fn visit_newtype_struct<DE>(
                    self,
                    deserializer: DE,
                ) -> ::core::result::Result<Self::Value, DE::Error>
                where
                    DE: ::serde::Deserializer<'de>,
                {
                    let raw_value: i32 =
                        match <i32 as ::serde::Deserialize>::deserialize(deserializer) {
                            Ok(val) => val,
                            Err(err) => return Err(err),
                        };
                    Ok(GrdI32SanNov::new(raw_value))
                }
            }
            ::serde::de::Deserializer::deserialize_newtype_struct(
                deserializer,
                "GrdI32SanNov",
                __Visitor {
                    marker: Default::default(),
                    lifetime: Default::default(),
                },
            )
        }
    }
    #[cfg(test)]
    mod tests {
        use super::*;
    }
}
pub use __nutype_GrdI32SanNov__::GrdI32SanNov;
pub use __nutype_GrdI32SanNov__::GrdI32SanNovParseError;
