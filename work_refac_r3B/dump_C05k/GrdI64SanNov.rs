// NUTYPE_VERIF_INPUT #[nutype(sanitize(with = san_i64), derive(Debug, TryFrom, FromStr, Serialize, Deserialize))] pub struct GrdI64SanNov(i64);
#[doc(hidden)]
#[allow(
    non_snake_case,
    reason = "we keep original structure name which is probably CamelCase"
)]
mod __nutype_GrdI64SanNov__ {
    use super::*;
    #[derive(Debug)]
    pub struct GrdI64SanNov(i64);
    impl GrdI64SanNov {
        pub fn new(raw_value: i64) -> Self {
            Self(Self::__sanitize__(raw_value))
        }
        fn __sanitize__(mut value: i64) -> i64 {
            value = (san_i64)(value);
            value
        }
    }
    impl GrdI64SanNov {
        #[inline]
        pub fn into_inner(self) -> i64 {
            self.0
        }
    }
    #[derive(Debug)]
    pub enum GrdI64SanNovParseError {
        Parse(<i64 as ::core::str::FromStr>::Err),
    }
    impl ::core::fmt::Display for GrdI64SanNovParseError {
        fn fmt(&self, formatter: &mut ::core::fmt::Formatter<'_>) -> ::core::fmt::Result {
            let Self::Parse(parse_error) = self;
            formatter.write_fmt(::core::format_args!(
                "Failed to parse {}: {:?}",
                "GrdI64SanNov",
                parse_error
            ))
        }
    }
    impl ::core::error::Error for GrdI64SanNovParseError {
        fn source(&self) -> Option<&(dyn ::core::error::Error + 'static)> {
            None
        }
    }
    impl ::core::str::FromStr for GrdI64SanNov {
        type Err = GrdI64SanNovParseError;
        fn from_str(input: &str) -> ::core::result::Result<Self, GrdI64SanNovParseError> {
            match <i64 as ::core::str::FromStr>::from_str(input) {
                ::core::result::Result::Ok(parsed_value) => {
                    ::core::result::Result::Ok(<Self>::new(parsed_value))
                }
                ::core::result::Result::Err(parse_error) => {
                    ::core::result::Result::Err(GrdI64SanNovParseError::Parse(parse_error))
                }
            }
        }
    }
    impl<'de> ::serde::Deserialize<'de> for GrdI64SanNov {
        fn deserialize<D: ::serde::Deserializer<'de>>(
            deserializer: D,
        ) -> ::core::result::Result<Self, D::Error> {
            struct __Visitor<'de> {
                marker: ::core::marker::PhantomData<GrdI64SanNov>,
                lifetime: ::core::marker::PhantomData<&'de ()>,
            }
            impl<'de> ::serde::de::Visitor<'de> for __Visitor<'de> {
                type Value = GrdI64SanNov;
                fn expecting(&self, formatter: &mut ::core::fmt::Formatter) -> ::core::fmt::Result {
                    write!(formatter, "tuple struct GrdI64SanNov")
                }
                fn visit_newtype_struct<DE>(
                    self,
                    deserializer: DE,
                ) -> ::core::result::Result<Self::Value, DE::Error>
                where
                    DE: ::serde::Deserializer<'de>,
                {
                    let raw_value: i64 =
                        match <i64 as ::serde::Deserialize>::deserialize(deserializer) {
                            Ok(val) => val,
                            Err(err) => return Err(err),
                        };
                    Ok(GrdI64SanNov::new(raw_value))
                }
            }
            ::serde::de::Deserializer::deserialize_newtype_struct(
                deserializer,
                "GrdI64SanNov",
                __Visitor {
                    marker: Default::default(),
                    lifetime: Default::default(),
                },
            )
        }
    }
    impl ::serde::Serialize for GrdI64SanNov {
        fn serialize<S>(&self, serializer: S) -> ::core::result::Result<S::Ok, S::Error>
        where
            S: ::serde::Serializer,
        {
            ::serde::ser::Serializer::serialize_newtype_struct(serializer, "GrdI64SanNov", &self.0)
        }
    }
    impl ::core::convert::TryFrom<i64> for GrdI64SanNov {
        type Error = ::core::convert::Infallible;
        #[inline]
        fn try_from(raw_value: i64) -> ::core::result::Result<GrdI64SanNov, Self::Error> {
            Ok(Self::new(raw_value))
        }
    }
    #[cfg(test)]
    mod tests {
        use super::*;
    }
}
pub use __nutype_GrdI64SanNov__::GrdI64SanNov;
pub use __nutype_GrdI64SanNov__::GrdI64SanNovParseError;
