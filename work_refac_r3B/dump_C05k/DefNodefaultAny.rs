// NUTYPE_VERIF_INPUT #[nutype(sanitize(with = san_m2), derive(Debug, Default))] pub struct DefNodefaultAny(Meters);
::core::compile_error! {
    "Trait `Default` is derived for type DefNodefaultAny, but `default = ` parameter is missing in #[nutype] macro"
}
