// NUTYPE_VERIF_INPUT #[nutype(sanitize(with = san_u8), validate(less_or_equal = 60), derive(Debug, Default), default = 77)] pub struct DefU8Sanitized(u8);
#[doc(hidden)]
#[allow(
    non_snake_case,
    reason = "we keep original structure name which is probably CamelCase"
)]
mod __nutype_DefU8Sanitized__ {
    use super::*;
    #[derive(Debug)]
    pub struct DefU8Sanitized(u8);
    #[derive(Debug, Clone, PartialEq, Eq)]
    #[allow(clippy::enum_variant_names)]
    pub enum DefU8SanitizedError {
        LessOrEqualViolated,
    }
    impl ::core::fmt::Display for DefU8SanitizedError {
        fn fmt(&self, f: &mut ::core::fmt::Formatter<'_>) -> ::core::fmt::Result {
            match self {
                DefU8SanitizedError::LessOrEqualViolated => write!(
                    f,
                    "{} is too big. The value must be less or equal to {:#?}.",
                    stringify!(DefU8Sanitized),
                    60u8
                ),
            }
        }
    }
    impl ::core::error::Error for DefU8SanitizedError {
        fn source(&self) -> Option<&(dyn ::core::error::Error + 'static)> {
            None
        }
    }
    impl DefU8Sanitized {
        pub fn try_new(raw_value: u8) -> ::core::result::Result<Self, DefU8SanitizedError> {
            let sanitized_value: u8 = Self::__sanitize__(raw_value);
            #[allow(clippy::question_mark)]
            if let Err(e) = Self::__validate__(&sanitized_value) {
                return Err(e);
            }
            Ok(DefU8Sanitized(sanitized_value))
        }
        fn __sanitize__(mut value: u8) -> u8 {
            value = (san_u8)(value);
            value
        }
        fn __validate__(val: &u8) -> ::core::result::Result<(), DefU8SanitizedError> {
            let val = *val;
            if val > 60u8 {
                return Err(DefU8SanitizedError::LessOrEqualViolated);
            }
            Ok(())
        }
    }
    impl DefU8Sanitized {
        #[inline]
        pub fn into_inner(self) -> u8 {
            self.0
        }
    }
    impl ::core::default::Default for DefU8Sanitized {
        fn default() -> Self {
            Self::try_new(77).unwrap_or_else(|err| {
                let tp = "DefU8Sanitized";
                panic!("\nDefault value for type `{tp}` is invalid.\nERROR: {err:?}\n");
            })
        }
    }
    #[cfg(test)]
    mod tests {
        use super::*;
        #[test]
        fn should_have_valid_default_value() {
            let default_inner_value = DefU8Sanitized::default().into_inner();
            DefU8Sanitized ::
            try_new(default_inner_value).expect("\nType `DefU8Sanitized` has invalid default value `77`\nNote: the test is generated automatically by #[nutype] macro\n");
        }
    }
}
pub use __nutype_DefU8Sanitized__::DefU8Sanitized;
pub use __nutype_DefU8Sanitized__::DefU8SanitizedError;
