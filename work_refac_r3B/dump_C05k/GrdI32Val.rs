// NUTYPE_VERIF_INPUT #[nutype(validate(greater_or_equal = sym_lo_i32(), less = sym_hi_i32()), derive(Debug, TryFrom, FromStr, Serialize, Deserialize, Arbitrary))] pub struct GrdI32Val(i32);
#[doc(hidden)]
#[allow(
    non_snake_case,
    reason = "we keep original structure name which is probably CamelCase"
)]
mod __nutype_GrdI32Val__ {
    use super::*;
    #[derive(Debug)]
    pub struct GrdI32Val(i32);
    #[derive(Debug, Clone, PartialEq, Eq)]
    #[allow(clippy::enum_variant_names)]
    pub enum GrdI32ValError {
        GreaterOrEqualViolated,
        LessViolated,
    }
    impl ::core::fmt::Display for GrdI32ValError {
        fn fmt(&self, f: &mut ::core::fmt::Formatter<'_>) -> ::core::fmt::Result {
            match self {
                GrdI32ValError::GreaterOrEqualViolated => write!(
                    f,
                    "{} is too small. The value must be greater or equal to {:#?}.",
                    stringify!(GrdI32Val),
                    sym_lo_i32()
                ),
                GrdI32ValError::LessViolated => write!(
                    f,
                    "{} is too big. The value must be less than {:#?}.",
                    stringify!(GrdI32Val),
                    sym_hi_i32()
                ),
            }
        }
    }
    impl ::core::error::Error for GrdI32ValError {
        fn source(&self) -> Option<&(dyn ::core::error::Error + 'static)> {
            None
        }
    }
    impl GrdI32Val {
        pub fn try_new(raw_value: i32) -> ::core::result::Result<Self, GrdI32ValError> {
            let sanitized_value: i32 = Self::__sanitize__(raw_value);
            #[allow(clippy::question_mark)]
            if let Err(e) = Self::__validate__(&sanitized_value) {
                return Err(e);
            }
            Ok(GrdI32Val(sanitized_value))
        }
        fn __sanitize__(mut value: i32) -> i32 {
            value
        }
        fn __validate__(val: &i32) -> ::core::result::Result<(), GrdI32ValError> {
            let val = *val;
            if val < sym_lo_i32() {
                return Err(GrdI32ValError::GreaterOrEqualViolated);
            }
            if val >= sym_hi_i32() {
                return Err(GrdI32ValError::LessViolated);
            }
            Ok(())
        }
    }
    impl GrdI32Val {
        #[inline]
        pub fn into_inner(self) -> i32 {
            self.0
        }
    }
    impl ::arbitrary::Arbitrary<'_> for GrdI32Val {
        fn arbitrary(u: &mut ::arbitrary::Unstructured<'_>) -> ::arbitrary::Result<Self> {
            let inner_value: i32 = u.int_in_range((sym_lo_i32())..=((sym_hi_i32()) - 1))?;
            Ok(Self ::
            try_new(inner_value).expect("Arbitrary generated an invalid value for GrdI32Val.\n\n\nClick the following link to report the issue:\n\nhttps://github.com/greyblake/nutype/issues/new?title=Arbitrary%20generates%20an%20invalid%20value%20for%20i32&body=%0AHaving%20my%20type%20defined%20as%3A%0A%0A%60%60%60rs%0A%2F%2F%20Put%20the%20definition%20of%20your%20type%20with%20%23%5Bnutype%5D%20macro%20here%0A%60%60%60%0A%0AI%20got%20a%20panic%20when%20I%20tried%20to%20generate%20a%20value%20with%20Arbitrary.%0A&labels=bug\n\n"))
        }
    }
    #[inline]
    fn size_hint(_depth: usize) -> (usize, Option<usize>) {
        let n = ::core::mem::size_of::<i32>();
        (n, Some(n))
    }
    impl<'de> ::serde::Deserialize<'de> for GrdI32Val {
        fn deserialize<D: ::serde::Deserializer<'de>>(
            deserializer: D,
        ) -> ::core::result::Result<Self, D::Error> {
            struct __Visitor<'de> {
                marker: ::core::marker::PhantomData<GrdI32Val>,
                lifetime: ::core::marker::PhantomData<&'de ()>,
            }
            impl<'de> ::serde::de::Visitor<'de> for __Visitor<'de> {
                type Value = GrdI32Val;
                fn expecting(&self, formatter: &mut ::core::fmt::Formatter) -> ::core::fmt::Result {
                    write!(formatter, "tuple struct GrdI32Val")
                }
                fn visit_newtype_struct<DE>(
                    self,
                    deserializer: DE,
                ) -> ::core::result::Result<Self::Value, DE::Error>
                where
                    DE: ::serde::Deserializer<'de>,
                {
                    let raw_value: i32 =
                        match <i32 as ::serde::Deserialize>::deserialize(deserializer) {
                            Ok(val) => val,
                            Err(err) => return Err(err),
                        };
                    GrdI32Val::try_new(raw_value).map_err(|validation_error| {
                        <DE::Error as serde::de::Error>::custom(core::format_args!(
                            "{validation_error} Expected valid {}",
                            "GrdI32Val"
                        ))
                    })
                }
            }
            ::serde::de::Deserializer::deserialize_newtype_struct(
                deserializer,
                "GrdI32Val",
                __Visitor {
                    marker: Default::default(),
                    lifetime: Default::default(),
                },
            )
        }
    }
    #[derive(Debug)]
    pub enum GrdI32ValParseError {
        Parse(<i32 as ::core::str::FromStr>::Err),
        Validate(GrdI32ValError),
    }
    impl ::core::fmt::Display for GrdI32ValParseError {
        fn fmt(&self, formatter: &mut ::core::fmt::Formatter<'_>) -> ::core::fmt::Result {
            match *self {
                Self::Validate(ref validation_error) => formatter.write_fmt(::core::format_args!(
                    "Failed to parse {}: {}",
                    "GrdI32Val",
                    validation_error
                )),
                Self::Parse(ref parse_error) => formatter.write_fmt(::core::format_args!(
                    "Failed to parse {}: {:?}",
                    "GrdI32Val",
                    parse_error
                )),
            }
        }
    }
    impl ::core::error::Error for GrdI32ValParseError {
        fn source(&self) -> Option<&(dyn ::core::error::Error + 'static)> {
            None
        }
    }
    impl ::core::str::FromStr for GrdI32Val {
        type Err = GrdI32ValParseError;
        fn from_str(input: &str) -> ::core::result::Result<Self, GrdI32ValParseError> {
            match <i32 as ::core::str::FromStr>::from_str(input) {
                ::core::result::Result::Err(parse_error) => {
                    ::core::result::Result::Err(GrdI32ValParseError::Parse(parse_error))
                }
                ::core::result::Result::Ok(parsed_value) => match <Self>::try_new(parsed_value) {
                    ::core::result::Result::Ok(valid) => ::core::result::Result::Ok(valid),
                    ::core::result::Result::Err(validation_error) => {
                        ::core::result::Result::Err(GrdI32ValParseError::Validate(validation_error))
                    }
                },
            }
        }
    }
    impl ::serde::Serialize for GrdI32Val {
        fn serialize<S>(&self, serializer: S) -> ::core::result::Result<S::Ok, S::Error>
        where
            S: ::serde::Serializer,
        {
            ::serde::ser::Serializer::serialize_newtype_struct(serializer, "GrdI32Val", &self.0)
        }
    }
    impl ::core::convert::TryFrom<i32> for GrdI32Val {
        type Error = GrdI32ValError;
        #[inline]
        fn try_from(raw_value: i32) -> ::core::result::Result<GrdI32Val, Self::Error> {
            Self::try_new(raw_value)
        }
    }
    #[cfg(test)]
    mod tests {
        use super::*;
        #[test]
        fn should_have_consistent_lower_and_upper_boundaries() {
            assert!
            (sym_hi_i32() >= sym_lo_i32(),
            "\nInconsistent lower and upper boundaries for type `GrdI32Val`\nThe upper boundary `sym_hi_i32()` must be greater than or equal to the lower boundary `sym_lo_i32()`\nNote: the test is generated automatically by #[nutype] macro.\n");
        }
    }
}
pub use __nutype_GrdI32Val__::GrdI32Val;
pub use __nutype_GrdI32Val__::GrdI32ValError;
pub use __nutype_GrdI32Val__::GrdI32ValParseError;
