// NUTYPE_VERIF_INPUT #[nutype(sanitize(with = san_f64), validate(less_or_equal = 60.0), derive(Debug, Default), default = -3.0)] pub struct DefF64Sanitized(f64);
#[doc(hidden)]
#[allow(
    non_snake_case,
    reason = "we keep original structure name which is probably CamelCase"
)]
mod __nutype_DefF64Sanitized__ {
    use super::*;
    #[derive(Debug)]
    pub struct DefF64Sanitized(f64);
    #[derive(Debug, Clone, PartialEq, Eq)]
    #[allow(clippy::enum_variant_names)]
    pub enum DefF64SanitizedError {
        LessOrEqualViolated,
    }
    impl ::core::fmt::Display for DefF64SanitizedError {
        fn fmt(&self, f: &mut ::core::fmt::Formatter<'_>) -> ::core::fmt::Result {
            match self {
                DefF64SanitizedError::LessOrEqualViolated => write!(
                    f,
                    "{} is too big. The value must be less than {:#?}.",
                    stringify!(DefF64Sanitized),
                    60f64
                ),
            }
        }
    }
    impl ::core::error::Error for DefF64SanitizedError {
        fn source(&self) -> Option<&(dyn ::core::error::Error + 'static)> {
            None
        }
    }
    impl DefF64Sanitized {
        pub fn try_new(raw_value: f64) -> ::core::result::Result<Self, DefF64SanitizedError> {
            let sanitized_value: f64 = Self::__sanitize__(raw_value);
            #[allow(clippy::question_mark)]
            if let Err(e) = Self::__validate__(&sanitized_value) {
                return Err(e);
            }
            Ok(DefF64Sanitized(sanitized_value))
        }
        fn __sanitize__(mut value: f64) -> f64 {
            value = (san_f64)(value);
            value
        }
        fn __validate__(val: &f64) -> core::result::Result<(), DefF64SanitizedError> {
            let val = *val;
            if val > 60f64 {
                return Err(DefF64SanitizedError::LessOrEqualViolated);
            }
            Ok(())
        }
    }
    impl DefF64Sanitized {
        #[inline]
        pub fn into_inner(self) -> f64 {
            self.0
        }
    }
    impl ::core::default::Default for DefF64Sanitized {
        fn default() -> Self {
            Self::try_new(-3.0).unwrap_or_else(|err| {
                let tp = "DefF64Sanitized";
                panic!("\nDefault value for type `{tp}` is invalid.\nERROR: {err:?}\n");
            })
        }
    }
    #[cfg(test)]
    mod tests {
        use super::*;
        #[test]
        fn should_have_valid_default_value() {
            let default_inner_value = DefF64Sanitized::default().into_inner();
            DefF64Sanitized ::
            try_new(default_inner_value).expect("\nType `DefF64Sanitized` has invalid default value `- 3.0`\nNote: the test is generated automatically by #[nutype] macro\n");
        }
    }
}
pub use __nutype_DefF64Sanitized__::DefF64Sanitized;
pub use __nutype_DefF64Sanitized__::DefF64SanitizedError;
