// NUTYPE_VERIF_INPUT #[nutype(validate(greater_or_equal = sym_lo_u8()), derive(Debug, Default), default = sym_hi_u8())] pub struct DefU8SymbolicValid(u8);
#[doc(hidden)]
#[allow(
    non_snake_case,
    reason = "we keep original structure name which is probably CamelCase"
)]
mod __nutype_DefU8SymbolicValid__ {
    use super::*;
    #[derive(Debug)]
    pub struct DefU8SymbolicValid(u8);
    #[derive(Debug, Clone, PartialEq, Eq)]
    #[allow(clippy::enum_variant_names)]
    pub enum DefU8SymbolicValidError {
        GreaterOrEqualViolated,
    }
    impl ::core::fmt::Display for DefU8SymbolicValidError {
        fn fmt(&self, f: &mut ::core::fmt::Formatter<'_>) -> ::core::fmt::Result {
            match self {
                DefU8SymbolicValidError::GreaterOrEqualViolated => write!(
                    f,
                    "{} is too small. The value must be greater or equal to {:#?}.",
                    stringify!(DefU8SymbolicValid),
                    sym_lo_u8()
                ),
            }
        }
    }
    impl ::core::error::Error for DefU8SymbolicValidError {
        fn source(&self) -> Option<&(dyn ::core::error::Error + 'static)> {
            None
        }
    }
    impl DefU8SymbolicValid {
        pub fn try_new(raw_value: u8) -> ::core::result::Result<Self, DefU8SymbolicValidError> {
            let sanitized_value: u8 = Self::__sanitize__(raw_value);
            #[allow(clippy::question_mark)]
            if let Err(e) = Self::__validate__(&sanitized_value) {
                return Err(e);
            }
            Ok(DefU8SymbolicValid(sanitized_value))
        }
        fn __sanitize__(mut value: u8) -> u8 {
            value
        }
        fn __validate__(val: &u8) -> ::core::result::Result<(), DefU8SymbolicValidError> {
            let val = *val;
            if val < sym_lo_u8() {
                return Err(DefU8SymbolicValidError::GreaterOrEqualViolated);
            }
            Ok(())
        }
    }
    impl DefU8SymbolicValid {
        #[inline]
        pub fn into_inner(self) -> u8 {
            self.0
        }
    }
    impl ::core::default::Default for DefU8SymbolicValid {
        fn default() -> Self {
            Self::try_new(sym_hi_u8()).unwrap_or_else(|err| {
                let tp = "DefU8SymbolicValid";
                panic!("\nDefault value for type `{tp}` is invalid.\nERROR: {err:?}\n");
            })
        }
    }
    #[cfg(test)]
    mod tests {
        use super::*;
        #[test]
        fn should_have_valid_default_value() {
            let default_inner_value = DefU8SymbolicValid::default().into_inner();
            DefU8SymbolicValid ::
            try_new(default_inner_value).expect("\nType `DefU8SymbolicValid` has invalid default value `sym_hi_u8()`\nNote: the test is generated automatically by #[nutype] macro\n");
        }
    }
}
pub use __nutype_DefU8SymbolicValid__::DefU8SymbolicValid;
pub use __nutype_DefU8SymbolicValid__::DefU8SymbolicValidError;
