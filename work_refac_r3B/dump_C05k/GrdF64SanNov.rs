// NUTYPE_VERIF_INPUT #[nutype(sanitize(with = san_f64), derive(Debug, TryFrom, FromStr, Serialize, Deserialize))] pub struct GrdF64SanNov(f64);
#[doc(hidden)]
#[allow(
    non_snake_case,
    reason = "we keep original structure name which is probably CamelCase"
)]
mod __nutype_GrdF64SanNov__ {
    use super::*;
    #[derive(Debug)]
    pub struct GrdF64SanNov(f64);
    impl GrdF64SanNov {
        pub fn new(raw_value: f64) -> Self {
            Self(Self::__sanitize__(raw_value))
        }
        fn __sanitize__(mut value: f64) -> f64 {
            value = (san_f64)(value);
            value
        }
    }
    impl GrdF64SanNov {
        #[inline]
        pub fn into_inner(self) -> f64 {
            self.0
        }
    }
    #[derive(Debug)]
    pub enum GrdF64SanNovParseError {
        Parse(<f64 as ::core::str::FromStr>::Err),
    }
    impl ::core::fmt::Display for GrdF64SanNovParseError {
        fn fmt(&self, formatter: &mut ::core::fmt::Formatter<'_>) -> ::core::fmt::Result {
            let Self::Parse(parse_error) = self;
            formatter.write_fmt(::core::format_args!(
                "Failed to parse {}: {:?}",
                "GrdF64SanNov",
                parse_error
            ))
        }
    }
    impl ::core::error::Error for GrdF64SanNovParseError {
        fn source(&self) -> Option<&(dyn ::core::error::Error + 'static)> {
            None
        }
    }
    impl ::core::str::FromStr for GrdF64SanNov {
        type Err = GrdF64SanNovParseError;
        fn from_str(input: &str) -> ::core::result::Result<Self, GrdF64SanNovParseError> {
            match <f64 as ::core::str::FromStr>::from_str(input) {
                ::core::result::Result::Ok(parsed_value) => {
                    ::core::result::Result::Ok(<Self>::new(parsed_value))
                }
                ::core::result::Result::Err(parse_error) => {
                    ::core::result::Result::Err(GrdF64SanNovParseError::Parse(parse_error))
                }
            }
        }
    }
    impl ::serde::Serialize for GrdF64SanNov {
        fn serialize<S>(&self, serializer: S) -> ::core::result::Result<S::Ok, S::Error>
        where
            S: ::serde::Serializer,
        {
            ::serde::ser::Serializer::serialize_newtype_struct(serializer, "GrdF64SanNov", &self.0)
        }
    }
    impl<'de> ::serde::Deserialize<'de> for GrdF64SanNov {
        fn deserialize<D: ::serde::Deserializer<'de>>(
            deserializer: D,
        ) -> ::core::result::Result<Self, D::Error> {
            struct __Visitor<'de> {
                marker: ::core::marker::PhantomData<GrdF64SanNov>,
                lifetime: ::core::marker::PhantomData<&'de ()>,
            }
            impl<'de> ::serde::de::Visitor<'de> for __Visitor<'de> {
                type Value = GrdF64SanNov;
                fn expecting(&self, formatter: &mut ::core::fmt::Formatter) -> ::core::fmt::Result {
                    write!(formatter, "tuple struct GrdF64SanNov")
                }
                fn visit_newtype_struct<DE>(
                    self,
                    deserializer: DE,
                ) -> ::core::result::Result<Self::Value, DE::Error>
                where
                    DE: ::serde::Deserializer<'de>,
                {
                    let raw_value: f64 =
                        match <f64 as ::serde::Deserialize>::deserialize(deserializer) {
                            Ok(val) => val,
                            Err(err) => return Err(err),
                        };
                    Ok(GrdF64SanNov::new(raw_value))
                }
            }
            ::serde::de::Deserializer::deserialize_newtype_struct(
                deserializer,
                "GrdF64SanNov",
                __Visitor {
                    marker: Default::default(),
                    lifetime: Default::default(),
                },
            )
        }
    }
    impl ::core::convert::TryFrom<f64> for GrdF64SanNov {
        type Error = ::core::convert::Infallible;
        #[inline]
        fn try_from(raw_value: f64) -> ::core::result::Result<GrdF64SanNov, Self::Error> {
            Ok(Self::new(raw_value))
        }
    }
    #[cfg(test)]
    mod tests {
        use super::*;
    }
}
pub use __nutype_GrdF64SanNov__::GrdF64SanNov;
pub use __nutype_GrdF64SanNov__::GrdF64SanNovParseError;
