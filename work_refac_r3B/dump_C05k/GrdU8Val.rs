// NUTYPE_VERIF_INPUT #[nutype(validate(greater_or_equal = sym_lo_u8(), less = sym_hi_u8()), derive(Debug, TryFrom, FromStr, Serialize, Deserialize, Arbitrary))] pub struct GrdU8Val(u8);
#[doc(hidden)]
#[allow(
    non_snake_case,
    reason = "we keep original structure name which is probably CamelCase"
)]
mod __nutype_GrdU8Val__ {
    use super::*;
    #[derive(Debug)]
    pub struct GrdU8Val(u8);
    #[derive(Debug, Clone, PartialEq, Eq)]
    #[allow(clippy::enum_variant_names)]
    pub enum GrdU8ValError {
        GreaterOrEqualViolated,
        LessViolated,
    }
    impl ::core::fmt::Display for GrdU8ValError {
        fn fmt(&self, f: &mut ::core::fmt::Formatter<'_>) -> ::core::fmt::Result {
            match self {
                GrdU8ValError::GreaterOrEqualViolated => write!(
                    f,
                    "{} is too small. The value must be greater or equal to {:#?}.",
                    stringify!(GrdU8Val),
                    sym_lo_u8()
                ),
                GrdU8ValError::LessViolated => write!(
                    f,
                    "{} is too big. The value must be less than {:#?}.",
                    stringify!(GrdU8Val),
                    sym_hi_u8()
                ),
            }
        }
    }
    impl ::core::error::Error for GrdU8ValError {
        fn source(&self) -> Option<&(dyn ::core::error::Error + 'static)> {
            None
        }
    }
    impl GrdU8Val {
        pub fn try_new(raw_value: u8) -> ::core::result::Result<Self, GrdU8ValError> {
            let sanitized_value: u8 = Self::__sanitize__(raw_value);
            #[allow(clippy::question_mark)]
            if let Err(e) = Self::__validate__(&sanitized_value) {
                return Err(e);
            }
            Ok(GrdU8Val(sanitized_value))
        }
        fn __sanitize__(mut value: u8) -> u8 {
            value
        }
        fn __validate__(val: &u8) -> ::core::result::Result<(), GrdU8ValError> {
            let val = *val;
            if val < sym_lo_u8() {
                return Err(GrdU8ValError::GreaterOrEqualViolated);
            }
            if val >= sym_hi_u8() {
                return Err(GrdU8ValError::LessViolated);
            }
            Ok(())
        }
    }
    impl GrdU8Val {
        #[inline]
        pub fn into_inner(self) -> u8 {
            self.0
        }
    }
    #[derive(Debug)]
    pub enum GrdU8ValParseError {
        Parse(<u8 as ::core::str::FromStr>::Err),
        Validate(GrdU8ValError),
    }
    impl ::core::fmt::Display for GrdU8ValParseError {
        fn fmt(&self, formatter: &mut ::core::fmt::Formatter<'_>) -> ::core::fmt::Result {
            match *self {
                Self::Validate(ref validation_error) => formatter.write_fmt(::core::format_args!(
                    "Failed to parse {}: {}",
                    "GrdU8Val",
                    validation_error
                )),
                Self::Parse(ref parse_error) => formatter.write_fmt(::core::format_args!(
                    "Failed to parse {}: {:?}",
                    "GrdU8Val",
                    parse_error
                )),
            }
        }
    }
    impl ::core::error::Error for GrdU8ValParseError {
        fn source(&self) -> Option<&(dyn ::core::error::Error + 'static)> {
            None
        }
    }
    impl ::core::str::FromStr for GrdU8Val {
        type Err = GrdU8ValParseError;
        fn from_str(input: &str) -> ::core::result::Result<Self, GrdU8ValParseError> {
            match <u8 as ::core::str::FromStr>::from_str(input) {
                ::core::result::Result::Err(parse_error) => {
                    ::core::result::Result::Err(GrdU8ValParseError::Parse(parse_error))
                }
                ::core::result::Result::Ok(parsed_value) => match <Self>::try_new(parsed_value) {
                    ::core::result::Result::Ok(valid) => ::core::result::Result::Ok(valid),
                    ::core::result::Result::Err(validation_error) => {
                        ::core::result::Result::Err(GrdU8ValParseError::Validate(validation_error))
                    }
                },
            }
        }
    }
    impl ::core::convert::TryFrom<u8> for GrdU8Val {
        type Error = GrdU8ValError;
        #[inline]
        fn try_from(raw_value: u8) -> ::core::result::Result<GrdU8Val, Self::Error> {
            Self::try_new(raw_value)
        }
    }
    impl<'de> ::serde::Deserialize<'de> for GrdU8Val {
        fn deserialize<D: ::serde::Deserializer<'de>>(
            deserializer: D,
        ) -> ::core::result::Result<Self, D::Error> {
            struct __Visitor<'de> {
                marker: ::core::marker::PhantomData<GrdU8Val>,
                lifetime: ::core::marker::PhantomData<&'de ()>,
            }
            impl<'de> ::serde::de::Visitor<'de> for __Visitor<'de> {
                type Value = GrdU8Val;
                fn expecting(&self, formatter: &mut ::core::fmt::Formatter) -> ::core::fmt::Result {
                    write!(formatter, "tuple struct GrdU8Val")
                }
                fn visit_newtype_struct<DE>(
                    self,
                    deserializer: DE,
                ) -> ::core::result::Result<Self::Value, DE::Error>
                where
                    DE: ::serde::Deserializer<'de>,
                {
                    let raw_value: u8 =
                        match <u8 as ::serde::Deserialize>::deserialize(deserializer) {
                            Ok(val) => val,
                            Err(err) => return Err(err),
                        };
                    GrdU8Val::try_new(raw_value).map_err(|validation_error| {
                        <DE::Error as serde::de::Error>::custom(core::format_args!(
                            "{validation_error} Expected valid {}",
                            "GrdU8Val"
                        ))
                    })
                }
            }
            ::serde::de::Deserializer::deserialize_newtype_struct(
                deserializer,
                "GrdU8Val",
                __Visitor {
                    marker: Default::default(),
                    lifetime: Default::default(),
                },
            )
        }
    }
    impl ::arbitrary::Arbitrary<'_> for GrdU8Val {
        fn arbitrary(u: &mut ::arbitrary::Unstructured<'_>) -> ::arbitrary::Result<Self> {
            let inner_value: u8 = u.int_in_range((sym_lo_u8())..=((sym_hi_u8()) - 1))?;
            Ok(Self ::
            try_new(inner_value).expect("Arbitrary generated an invalid value for GrdU8Val.\n\n\nClick the following link to report the issue:\n\nhttps://github.com/greyblake/nutype/issues/new?title=Arbitrary%20generates%20an%20invalid%20value%20for%20u8&body=%0AHaving%20my%20type%20defined%20as%3A%0A%0A%60%60%60rs%0A%2F%2F%20Put%20the%20definition%20of%20your%20type%20with%20%23%5Bnutype%5D%20macro%20here%0A%60%60%60%0A%0AI%20got%20a%20panic%20when%20I%20tried%20to%20generate%20a%20value%20with%20Arbitrary.%0A&labels=bug\n\n"))
        }
    }
    #[inline]
    fn size_hint(_depth: usize) -> (usize, Option<usize>) {
        let n = ::core::mem::size_of::<u8>();
        (n, Some(n))
    }
    impl ::serde::Serialize for GrdU8Val {
        fn serialize<S>(&self, serializer: S) -> ::core::result::Result<S::Ok, S::Error>
        where
            S: ::serde::Serializer,
        {
            ::serde::ser::Serializer::serialize_newtype_struct(serializer, "GrdU8Val", &self.0)
        }
    }
    #[cfg(test)]
    mod tests {
        use super::*;
        #[test]
        fn should_have_consistent_lower_and_upper_boundaries() {
            assert!
            (sym_hi_u8() >= sym_lo_u8(),
            "\nInconsistent lower and upper boundaries for type `GrdU8Val`\nThe upper boundary `sym_hi_u8()` must be greater than or equal to the lower boundary `sym_lo_u8()`\nNote: the test is generated automatically by #[nutype] macro.\n");
        }
    }
}
pub use __nutype_GrdU8Val__::GrdU8Val;
pub use __nutype_GrdU8Val__::GrdU8ValError;
pub use __nutype_GrdU8Val__::GrdU8ValParseError;
