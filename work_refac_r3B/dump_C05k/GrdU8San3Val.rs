// NUTYPE_VERIF_INPUT #[nutype(sanitize(with = san3_u8), validate(greater_or_equal = sym_lo_u8(), less = sym_hi_u8()), derive(Debug, TryFrom, FromStr, Serialize, Deserialize))] pub struct GrdU8San3Val(u8);
#[doc(hidden)]
#[allow(
    non_snake_case,
    reason = "we keep original structure name which is probably CamelCase"
)]
mod __nutype_GrdU8San3Val__ {
    use super::*;
    #[derive(Debug)]
    pub struct GrdU8San3Val(u8);
    #[derive(Debug, Clone, PartialEq, Eq)]
    #[allow(clippy::enum_variant_names)]
    pub enum GrdU8San3ValError {
        GreaterOrEqualViolated,
        LessViolated,
    }
    impl ::core::fmt::Display for GrdU8San3ValError {
        fn fmt(&self, f: &mut ::core::fmt::Formatter<'_>) -> ::core::fmt::Result {
            match self {
                GrdU8San3ValError::GreaterOrEqualViolated => write!(
                    f,
                    "{} is too small. The value must be greater or equal to {:#?}.",
                    stringify!(GrdU8San3Val),
                    sym_lo_u8()
                ),
                GrdU8San3ValError::LessViolated => write!(
                    f,
                    "{} is too big. The value must be less than {:#?}.",
                    stringify!(GrdU8San3Val),
                    sym_hi_u8()
                ),
            }
        }
    }
    impl ::core::error::Error for GrdU8San3ValError {
        fn source(&self) -> Option<&(dyn ::core::error::Error + 'static)> {
            None
        }
    }
    impl GrdU8San3Val {
        pub fn try_new(raw_value: u8) -> ::core::result::Result<Self, GrdU8San3ValError> {
            let sanitized_value: u8 = Self::__sanitize__(raw_value);
            #[allow(clippy::question_mark)]
            if let Err(e) = Self::__validate__(&sanitized_value) {
                return Err(e);
            }
            Ok(GrdU8San3Val(sanitized_value))
        }
        fn __sanitize__(mut value: u8) -> u8 {
            value = (san3_u8)(value);
            value
        }
        fn __validate__(val: &u8) -> ::core::result::Result<(), GrdU8San3ValError> {
            let val = *val;
            if val < sym_lo_u8() {
                return Err(GrdU8San3ValError::GreaterOrEqualViolated);
            }
            if val >= sym_hi_u8() {
                return Err(GrdU8San3ValError::LessViolated);
            }
            Ok(())
        }
    }
    impl GrdU8San3Val {
        #[inline]
        pub fn into_inner(self) -> u8 {
            self.0
        }
    }
    impl<'de> ::serde::Deserialize<'de> for GrdU8San3Val {
        fn deserialize<D: ::serde::Deserializer<'de>>(
            deserializer: D,
        ) -> ::core::result::Result<Self, D::Error> {
            struct __Visitor<'de> {
                marker: ::core::marker::PhantomData<GrdU8San3Val>,
                lifetime: ::core::marker::PhantomData<&'de ()>,
            }
            impl<'de> ::serde::de::Visitor<'de> for __Visitor<'de> {
                type Value = GrdU8San3Val;
                fn expecting(&self, formatter: &mut ::core::fmt::Formatter) -> ::core::fmt::Result {
                    write!(formatter, "tuple struct GrdU8San3Val")
                }
                fn visit_newtype_struct<DE>(
                    self,
                    deserializer: DE,
                ) -> ::core::result::Result<Self::Value, DE::Error>
                where
                    DE: ::serde::Deserializer<'de>,
                {
                    let raw_value: u8 =
                        match <u8 as ::serde::Deserialize>::deserialize(deserializer) {
                            Ok(val) => val,
                            Err(err) => return Err(err),
                        };
                    GrdU8San3Val::try_new(raw_value).map_err(|validation_error| {
                        <DE::Error as serde::de::Error>::custom(core::format_args!(
                            "{validation_error} Expected valid {}",
                            "GrdU8San3Val"
                        ))
                    })
                }
            }
            ::serde::de::Deserializer::deserialize_newtype_struct(
                deserializer,
                "GrdU8San3Val",
                __Visitor {
                    marker: Default::default(),
                    lifetime: Default::default(),
                },
            )
        }
    }
    impl ::serde::Serialize for GrdU8San3Val {
        fn serialize<S>(&self, serializer: S) -> ::core::result::Result<S::Ok, S::Error>
        where
            S: ::serde::Serializer,
        {
            ::serde::ser::Serializer::serialize_newtype_struct(serializer, "GrdU8San3Val", &self.0)
        }
    }
    #[derive(Debug)]
    pub enum GrdU8San3ValParseError {
        Parse(<u8 as ::core::str::FromStr>::Err),
        Validate(GrdU8San3ValError),
    }
    impl ::core::fmt::Display for GrdU8San3ValParseError {
        fn fmt(&self, formatter: &mut ::core::fmt::Formatter<'_>) -> ::core::fmt::Result {
            match *self {
                Self::Validate(ref validation_error) => formatter.write_fmt(::core::format_args!(
                    "Failed to parse {}: {}",
                    "GrdU8San3Val",
                    validation_error
                )),
                Self::Parse(ref parse_error) => formatter.write_fmt(::core::format_args!(
                    "Failed to parse {}: {:?}",
                    "GrdU8San3Val",
                    parse_error
                )),
            }
        }
    }
    impl ::core::error::Error for GrdU8San3ValParseError {
        fn source(&self) -> Option<&(dyn ::core::error::Error + 'static)> {
            None
        }
    }
    impl ::core::str::FromStr for GrdU8San3Val {
        type Err = GrdU8San3ValParseError;
        fn from_str(input: &str) -> ::core::result::Result<Self, GrdU8San3ValParseError> {
            match <u8 as ::core::str::FromStr>::from_str(input) {
                ::core::result::Result::Err(parse_error) => {
                    ::core::result::Result::Err(GrdU8San3ValParseError::Parse(parse_error))
                }
                ::core::result::Result::Ok(parsed_value) => match <Self>::try_new(parsed_value) {
                    ::core::result::Result::Ok(valid) => ::core::result::Result::Ok(valid),
                    ::core::result::Result::Err(validation_error) => ::core::result::Result::Err(
                        GrdU8San3ValParseError::Validate(validation_error),
                    ),
                },
            }
        }
    }
    impl ::core::convert::TryFrom<u8> for GrdU8San3Val {
        type Error = GrdU8San3ValError;
        #[inline]
        fn try_from(raw_value: u8) -> ::core::result::Result<GrdU8San3Val, Self::Error> {
            Self::try_new(raw_value)
        }
    }
    #[cfg(test)]
    mod tests {
        use super::*;
        #[test]
        fn should_have_consistent_lower_and_upper_boundaries() {
            assert!
            (sym_hi_u8() >= sym_lo_u8(),
            "\nInconsistent lower and upper boundaries for type `GrdU8San3Val`\nThe upper boundary `sym_hi_u8()` must be greater than or equal to the lower boundary `sym_lo_u8()`\nNote: the test is generated automatically by #[nutype] macro.\n");
        }
    }
}
pub use __nutype_GrdU8San3Val__::GrdU8San3Val;
pub use __nutype_GrdU8San3Val__::GrdU8San3ValError;
pub use __nutype_GrdU8San3Val__::GrdU8San3ValParseError;
