// NUTYPE_VERIF_INPUT #[nutype(validate(greater_or_equal = sym_lo_usize(), less_or_equal = sym_hi_usize()), derive(Debug, Clone, Copy, PartialEq, Eq, PartialOrd, Ord, Hash, AsRef, Deref, Borrow, Into, TryFrom))] pub struct KintUsizeGeLeSym(usize);
#[doc(hidden)]
#[allow(
    non_snake_case,
    reason = "we keep original structure name which is probably CamelCase"
)]
mod __nutype_KintUsizeGeLeSym__ {
    use super::*;
    #[derive(Debug, PartialOrd, Eq, PartialEq, Clone, Copy, Hash, Ord)]
    pub struct KintUsizeGeLeSym(usize);
    #[derive(Debug, Clone, PartialEq, Eq)]
    #[allow(clippy::enum_variant_names)]
    pub enum KintUsizeGeLeSymError {
        GreaterOrEqualViolated,
        LessOrEqualViolated,
    }
    impl ::core::fmt::Display for KintUsizeGeLeSymError {
        fn fmt(&self, f: &mut ::core::fmt::Formatter<'_>) -> ::core::fmt::Result {
            match self {
                KintUsizeGeLeSymError::GreaterOrEqualViolated => write!(
                    f,
                    "{} is too small. The value must be greater or equal to {:#?}.",
                    stringify!(KintUsizeGeLeSym),
                    sym_lo_usize()
                ),
                KintUsizeGeLeSymError::LessOrEqualViolated => write!(
                    f,
                    "{} is too big. The value must be less or equal to {:#?}.",
                    stringify!(KintUsizeGeLeSym),
                    sym_hi_usize()
                ),
            }
        }
    }
    impl ::core::error::Error for KintUsizeGeLeSymError {
        fn source(&self) -> Option<&(dyn ::core::error::Error + 'static)> {
            None
        }
    }
    impl KintUsizeGeLeSym {
        pub fn try_new(raw_value: usize) -> ::core::result::Result<Self, KintUsizeGeLeSymError> {
            let sanitized_value: usize = Self::__sanitize__(raw_value);
            #[allow(clippy::question_mark)]
            if let Err(e) = Self::__validate__(&sanitized_value) {
                return Err(e);
            }
            Ok(KintUsizeGeLeSym(sanitized_value))
        }
        fn __sanitize__(mut value: usize) -> usize {
            value
        }
        fn __validate__(val: &usize) -> ::core::result::Result<(), KintUsizeGeLeSymError> {
            let val = *val;
            if val < sym_lo_usize() {
                return Err(KintUsizeGeLeSymError::GreaterOrEqualViolated);
            }
            if val > sym_hi_usize() {
                return Err(KintUsizeGeLeSymError::LessOrEqualViolated);
            }
            Ok(())
        }
    }
    impl KintUsizeGeLeSym {
        #[inline]
        pub fn into_inner(self) -> usize {
            self.0
        }
    }
    impl ::core::convert::AsRef<usize> for KintUsizeGeLeSym {
        #[inline]
        fn as_ref(&self) -> &usize {
            &self.0
        }
    }
    impl ::core::borrow::Borrow<usize> for KintUsizeGeLeSym {
        #[inline]
        fn borrow(&self) -> &usize {
            &self.0
        }
    }
    impl ::core::convert::From<KintUsizeGeLeSym> for usize {
        #[inline]
        fn from(value: KintUsizeGeLeSym) -> Self {
            value.into_inner()
        }
    }
    impl ::core::convert::TryFrom<usize> for KintUsizeGeLeSym {
        type Error = KintUsizeGeLeSymError;
        #[inline]
        fn try_from(raw_value: usize) -> ::core::result::Result<KintUsizeGeLeSym, Self::Error> {
            Self::try_new(raw_value)
        }
    }
    impl ::core::ops::Deref for KintUsizeGeLeSym {
        type Target = usize;
        #[inline]
        fn deref(&self) -> &Self::Target {
            &self.0
        }
    }
    #[cfg(test)]
    mod tests {
        use super::*;
        #[test]
        fn should_have_consistent_lower_and_upper_boundaries() {
            assert!
            (sym_hi_usize() >= sym_lo_usize(),
            "\nInconsistent lower and upper boundaries for type `KintUsizeGeLeSym`\nThe upper boundary `sym_hi_usize()` must be greater than or equal to the lower boundary `sym_lo_usize()`\nNote: the test is generated automatically by #[nutype] macro.\n");
        }
    }
}
pub use __nutype_KintUsizeGeLeSym__::KintUsizeGeLeSym;
pub use __nutype_KintUsizeGeLeSym__::KintUsizeGeLeSymError;
