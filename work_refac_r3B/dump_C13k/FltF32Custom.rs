// NUTYPE_VERIF_INPUT #[nutype(validate(with = vfn_f32, error = MyErr), derive(Debug, Clone, Copy, PartialEq, PartialOrd, AsRef, Deref, Borrow, Into, TryFrom))] pub struct FltF32Custom(f32);
#[doc(hidden)]
#[allow(
    non_snake_case,
    reason = "we keep original structure name which is probably CamelCase"
)]
mod __nutype_FltF32Custom__ {
    use super::*;
    #[derive(PartialOrd, Copy, PartialEq, Clone, Debug)]
    pub struct FltF32Custom(f32);
    impl FltF32Custom {
        pub fn try_new(raw_value: f32) -> ::core::result::Result<Self, MyErr> {
            let sanitized_value: f32 = Self::__sanitize__(raw_value);
            #[allow(clippy::question_mark)]
            if let Err(e) = Self::__validate__(&sanitized_value) {
                return Err(e);
            }
            Ok(FltF32Custom(sanitized_value))
        }
        fn __sanitize__(mut value: f32) -> f32 {
            value
        }
        #[allow(clippy::ptr_arg)]
        fn __validate__(value: &f32) -> ::core::result::Result<(), MyErr> {
            vfn_f32(value)
        }
    }
    impl FltF32Custom {
        #[inline]
        pub fn into_inner(self) -> f32 {
            self.0
        }
    }
    impl ::core::borrow::Borrow<f32> for FltF32Custom {
        #[inline]
        fn borrow(&self) -> &f32 {
            &self.0
        }
    }
    impl ::core::convert::From<FltF32Custom> for f32 {
        #[inline]
        fn from(value: FltF32Custom) -> Self {
            value.into_inner()
        }
    }
    impl ::core::ops::Deref for FltF32Custom {
        type Target = f32;
        #[inline]
        fn deref(&self) -> &Self::Target {
            &self.0
        }
    }
    impl ::core::convert::AsRef<f32> for FltF32Custom {
        #[inline]
        fn as_ref(&self) -> &f32 {
            &self.0
        }
    }
    impl ::core::convert::TryFrom<f32> for FltF32Custom {
        type Error = MyErr;
        #[inline]
        fn try_from(raw_value: f32) -> ::core::result::Result<FltF32Custom, Self::Error> {
            Self::try_new(raw_value)
        }
    }
    #[cfg(test)]
    mod tests {
        use super::*;
    }
}
pub use __nutype_FltF32Custom__::FltF32Custom;
