// NUTYPE_VERIF_INPUT #[nutype(validate(greater = sym_lo_f64()), derive(Debug, Clone, Copy, PartialEq, PartialOrd, AsRef, Deref, Borrow, Into, TryFrom))] pub struct FltF64GreaterSym(f64);
#[doc(hidden)]
#[allow(
    non_snake_case,
    reason = "we keep original structure name which is probably CamelCase"
)]
mod __nutype_FltF64GreaterSym__ {
    use super::*;
    #[derive(PartialEq, Clone, Debug, PartialOrd, Copy)]
    pub struct FltF64GreaterSym(f64);
    #[derive(Debug, Clone, PartialEq, Eq)]
    #[allow(clippy::enum_variant_names)]
    pub enum FltF64GreaterSymError {
        GreaterViolated,
    }
    impl ::core::fmt::Display for FltF64GreaterSymError {
        fn fmt(&self, f: &mut ::core::fmt::Formatter<'_>) -> ::core::fmt::Result {
            match self {
                FltF64GreaterSymError::GreaterViolated => write!(
                    f,
                    "{} is too small. The value must be greater than {:#?}.",
                    stringify!(FltF64GreaterSym),
                    sym_lo_f64()
                ),
            }
        }
    }
    impl ::core::error::Error for FltF64GreaterSymError {
        fn source(&self) -> Option<&(dyn ::core::error::Error + 'static)> {
            None
        }
    }
    impl FltF64GreaterSym {
        pub fn try_new(raw_value: f64) -> ::core::result::Result<Self, FltF64GreaterSymError> {
            let sanitized_value: f64 = Self::__sanitize__(raw_value);
            #[allow(clippy::question_mark)]
            if let Err(e) = Self::__validate__(&sanitized_value) {
                return Err(e);
            }
            Ok(FltF64GreaterSym(sanitized_value))
        }
        fn __sanitize__(mut value: f64) -> f64 {
            value
        }
        fn __validate__(val: &f64) -> core::result::Result<(), FltF64GreaterSymError> {
            let val = *val;
            if val <= sym_lo_f64() {
                return Err(FltF64GreaterSymError::GreaterViolated);
            }
            Ok(())
        }
    }
    impl FltF64GreaterSym {
        #[inline]
        pub fn into_inner(self) -> f64 {
            self.0
        }
    }
    impl ::core::convert::AsRef<f64> for FltF64GreaterSym {
        #[inline]
        fn as_ref(&self) -> &f64 {
            &self.0
        }
    }
    impl ::core::ops::Deref for FltF64GreaterSym {
        type Target = f64;
        #[inline]
        fn deref(&self) -> &Self::Target {
            &self.0
        }
    }
    impl ::core::convert::TryFrom<f64> for FltF64GreaterSym {
        type Error = FltF64GreaterSymError;
        #[inline]
        fn try_from(raw_value: f64) -> ::core::result::Result<FltF64GreaterSym, Self::Error> {
            Self::try_new(raw_value)
        }
    }
    impl ::core::borrow::Borrow<f64> for FltF64GreaterSym {
        #[inline]
        fn borrow(&self) -> &f64 {
            &self.0
        }
    }
    impl ::core::convert::From<FltF64GreaterSym> for f64 {
        #[inline]
        fn from(value: FltF64GreaterSym) -> Self {
            value.into_inner()
        }
    }
    #[cfg(test)]
    mod tests {
        use super::*;
    }
}
pub use __nutype_FltF64GreaterSym__::FltF64GreaterSym;
pub use __nutype_FltF64GreaterSym__::FltF64GreaterSymError;
