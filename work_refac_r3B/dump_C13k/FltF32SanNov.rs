// NUTYPE_VERIF_INPUT #[nutype(sanitize(with = san_f32), derive(Debug, Clone, Copy, PartialEq, PartialOrd, AsRef, Deref, Borrow, Into, From))] pub struct FltF32SanNov(f32);
#[doc(hidden)]
#[allow(
    non_snake_case,
    reason = "we keep original structure name which is probably CamelCase"
)]
mod __nutype_FltF32SanNov__ {
    use super::*;
    #[derive(Copy, PartialOrd, Debug, Clone, PartialEq)]
    pub struct FltF32SanNov(f32);
    impl FltF32SanNov {
        pub fn new(raw_value: f32) -> Self {
            Self(Self::__sanitize__(raw_value))
        }
        fn __sanitize__(mut value: f32) -> f32 {
            value = (san_f32)(value);
            value
        }
    }
    impl FltF32SanNov {
        #[inline]
        pub fn into_inner(self) -> f32 {
            self.0
        }
    }
    impl ::core::convert::From<f32> for FltF32SanNov {
        #[inline]
        fn from(raw_value: f32) -> Self {
            Self::new(raw_value)
        }
    }
    impl ::core::convert::AsRef<f32> for FltF32SanNov {
        #[inline]
        fn as_ref(&self) -> &f32 {
            &self.0
        }
    }
    impl ::core::ops::Deref for FltF32SanNov {
        type Target = f32;
        #[inline]
        fn deref(&self) -> &Self::Target {
            &self.0
        }
    }
    impl ::core::convert::From<FltF32SanNov> for f32 {
        #[inline]
        fn from(value: FltF32SanNov) -> Self {
            value.into_inner()
        }
    }
    impl ::core::borrow::Borrow<f32> for FltF32SanNov {
        #[inline]
        fn borrow(&self) -> &f32 {
            &self.0
        }
    }
    #[cfg(test)]
    mod tests {
        use super::*;
    }
}
pub use __nutype_FltF32SanNov__::FltF32SanNov;
