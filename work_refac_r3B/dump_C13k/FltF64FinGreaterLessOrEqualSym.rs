// NUTYPE_VERIF_INPUT #[nutype(validate(finite, greater = sym_lo_f64(), less_or_equal = sym_hi_f64()), derive(Debug, Clone, Copy, PartialEq, PartialOrd, AsRef, Deref, Borrow, Into, TryFrom, Eq, Ord))] pub struct FltF64FinGreaterLessOrEqualSym(f64);
#[doc(hidden)]
#[allow(
    non_snake_case,
    reason = "we keep original structure name which is probably CamelCase"
)]
mod __nutype_FltF64FinGreaterLessOrEqualSym__ {
    use super::*;
    #[derive(PartialEq, Clone, Copy, Debug, PartialOrd)]
    pub struct FltF64FinGreaterLessOrEqualSym(f64);
    #[derive(Debug, Clone, PartialEq, Eq)]
    #[allow(clippy::enum_variant_names)]
    pub enum FltF64FinGreaterLessOrEqualSymError {
        FiniteViolated,
        GreaterViolated,
        LessOrEqualViolated,
    }
    impl ::core::fmt::Display for FltF64FinGreaterLessOrEqualSymError {
        fn fmt(&self, f: &mut ::core::fmt::Formatter<'_>) -> ::core::fmt::Result {
            match self {
                FltF64FinGreaterLessOrEqualSymError::FiniteViolated => write!(
                    f,
                    "{} is not finite.",
                    stringify!(FltF64FinGreaterLessOrEqualSym)
                ),
                FltF64FinGreaterLessOrEqualSymError::GreaterViolated => write!(
                    f,
                    "{} is too small. The value must be greater than {:#?}.",
                    stringify!(FltF64FinGreaterLessOrEqualSym),
                    sym_lo_f64()
                ),
                FltF64FinGreaterLessOrEqualSymError::LessOrEqualViolated => write!(
                    f,
                    "{} is too big. The value must be less than {:#?}.",
                    stringify!(FltF64FinGreaterLessOrEqualSym),
                    sym_hi_f64()
                ),
            }
        }
    }
    impl ::core::error::Error for FltF64FinGreaterLessOrEqualSymError {
        fn source(&self) -> Option<&(dyn ::core::error::Error + 'static)> {
            None
        }
    }
    impl FltF64FinGreaterLessOrEqualSym {
        pub fn try_new(
            raw_value: f64,
        ) -> ::core::result::Result<Self, FltF64FinGreaterLessOrEqualSymError> {
            let sanitized_value: f64 = Self::__sanitize__(raw_value);
            #[allow(clippy::question_mark)]
            if let Err(e) = Self::__validate__(&sanitized_value) {
                return Err(e);
            }
            Ok(FltF64FinGreaterLessOrEqualSym(sanitized_value))
        }
        fn __sanitize__(mut value: f64) -> f64 {
            value
        }
        fn __validate__(
            val: &f64,
        ) -> core::result::Result<(), FltF64FinGreaterLessOrEqualSymError> {
            let val = *val;
            if !val.is_finite() {
                return Err(FltF64FinGreaterLessOrEqualSymError::FiniteViolated);
            }
            if val <= sym_lo_f64() {
                return Err(FltF64FinGreaterLessOrEqualSymError::GreaterViolated);
            }
            if val > sym_hi_f64() {
                return Err(FltF64FinGreaterLessOrEqualSymError::LessOrEqualViolated);
            }
            Ok(())
        }
    }
    impl FltF64FinGreaterLessOrEqualSym {
        #[inline]
        pub fn into_inner(self) -> f64 {
            self.0
        }
    }
    impl ::core::convert::AsRef<f64> for FltF64FinGreaterLessOrEqualSym {
        #[inline]
        fn as_ref(&self) -> &f64 {
            &self.0
        }
    }
    impl ::core::convert::From<FltF64FinGreaterLessOrEqualSym> for f64 {
        #[inline]
        fn from(value: FltF64FinGreaterLessOrEqualSym) -> Self {
            value.into_inner()
        }
    }
    impl ::core::convert::TryFrom<f64> for FltF64FinGreaterLessOrEqualSym {
        type Error = FltF64FinGreaterLessOrEqualSymError;
        #[inline]
        fn try_from(
            raw_value: f64,
        ) -> ::core::result::Result<FltF64FinGreaterLessOrEqualSym, Self::Error> {
            Self::try_new(raw_value)
        }
    }
    impl ::core::cmp::Eq for FltF64FinGreaterLessOrEqualSym {}
    impl ::core::ops::Deref for FltF64FinGreaterLessOrEqualSym {
        type Target = f64;
        #[inline]
        fn deref(&self) -> &Self::Target {
            &self.0
        }
    }
    impl ::core::borrow::Borrow<f64> for FltF64FinGreaterLessOrEqualSym {
        #[inline]
        fn borrow(&self) -> &f64 {
            &self.0
        }
    }
    #[allow(clippy::derive_ord_xor_partial_ord)]
    impl ::core::cmp::Ord for FltF64FinGreaterLessOrEqualSym {
        fn cmp(&self, other: &Self) -> ::core::cmp::Ordering {
            self.partial_cmp(other).unwrap_or_else(||
            {
                let tp = "FltF64FinGreaterLessOrEqualSym"; panic!
                ("{tp}::cmp() panicked, because partial_cmp() returned None. Could it be that you're using unsafe {tp}::new_unchecked() ?",
                tp = tp);
            })
        }
    }
    #[cfg(test)]
    mod tests {
        use super::*;
        #[test]
        fn should_have_consistent_lower_and_upper_boundaries() {
            assert!
            (sym_hi_f64() >= sym_lo_f64(),
            "\nInconsistent lower and upper boundaries for type `FltF64FinGreaterLessOrEqualSym`\nThe upper boundary `sym_hi_f64()` must be greater than or equal to the lower boundary `sym_lo_f64()`\nNote: the test is generated automatically by #[nutype] macro.\n");
        }
    }
}
pub use __nutype_FltF64FinGreaterLessOrEqualSym__::FltF64FinGreaterLessOrEqualSym;
pub use __nutype_FltF64FinGreaterLessOrEqualSym__::FltF64FinGreaterLessOrEqualSymError;
