// NUTYPE_VERIF_INPUT #[nutype(validate(greater_or_equal = sym_lo_u8(), less_or_equal = sym_hi_u8()), derive(Debug, Clone, Copy, PartialEq, Eq, PartialOrd, Ord, Hash, AsRef, Deref, Borrow, Into, TryFrom))] pub struct KintU8GeLeSym(u8);
#[doc(hidden)]
#[allow(
    non_snake_case,
    reason = "we keep original structure name which is probably CamelCase"
)]
mod __nutype_KintU8GeLeSym__ {
    use super::*;
    #[derive(Ord, Copy, Clone, PartialOrd, Debug, PartialEq, Hash, Eq)]
    pub struct KintU8GeLeSym(u8);
    #[derive(Debug, Clone, PartialEq, Eq)]
    #[allow(clippy::enum_variant_names)]
    pub enum KintU8GeLeSymError {
        GreaterOrEqualViolated,
        LessOrEqualViolated,
    }
    impl ::core::fmt::Display for KintU8GeLeSymError {
        fn fmt(&self, f: &mut ::core::fmt::Formatter<'_>) -> ::core::fmt::Result {
            match self {
                KintU8GeLeSymError::GreaterOrEqualViolated => write!(
                    f,
                    "{} is too small. The value must be greater or equal to {:#?}.",
                    stringify!(KintU8GeLeSym),
                    sym_lo_u8()
                ),
                KintU8GeLeSymError::LessOrEqualViolated => write!(
                    f,
                    "{} is too big. The value must be less or equal to {:#?}.",
                    stringify!(KintU8GeLeSym),
                    sym_hi_u8()
                ),
            }
        }
    }
    impl ::core::error::Error for KintU8GeLeSymError {
        fn source(&self) -> Option<&(dyn ::core::error::Error + 'static)> {
            None
        }
    }
    impl KintU8GeLeSym {
        pub fn try_new(raw_value: u8) -> ::core::result::Result<Self, KintU8GeLeSymError> {
            let sanitized_value: u8 = Self::__sanitize__(raw_value);
            #[allow(clippy::question_mark)]
            if let Err(e) = Self::__validate__(&sanitized_value) {
                return Err(e);
            }
            Ok(KintU8GeLeSym(sanitized_value))
        }
        fn __sanitize__(mut value: u8) -> u8 {
            value
        }
        fn __validate__(val: &u8) -> ::core::result::Result<(), KintU8GeLeSymError> {
            let val = *val;
            if val < sym_lo_u8() {
                return Err(KintU8GeLeSymError::GreaterOrEqualViolated);
            }
            if val > sym_hi_u8() {
                return Err(KintU8GeLeSymError::LessOrEqualViolated);
            }
            Ok(())
        }
    }
    impl KintU8GeLeSym {
        #[inline]
        pub fn into_inner(self) -> u8 {
            self.0
        }
    }
    impl ::core::borrow::Borrow<u8> for KintU8GeLeSym {
        #[inline]
        fn borrow(&self) -> &u8 {
            &self.0
        }
    }
    impl ::core::convert::TryFrom<u8> for KintU8GeLeSym {
        type Error = KintU8GeLeSymError;
        #[inline]
        fn try_from(raw_value: u8) -> ::core::result::Result<KintU8GeLeSym, Self::Error> {
            Self::try_new(raw_value)
        }
    }
    impl ::core::ops::Deref for KintU8GeLeSym {
        type Target = u8;
        #[inline]
        fn deref(&self) -> &Self::Target {
            &self.0
        }
    }
    impl ::core::convert::AsRef<u8> for KintU8GeLeSym {
        #[inline]
        fn as_ref(&self) -> &u8 {
            &self.0
        }
    }
    impl ::core::convert::From<KintU8GeLeSym> for u8 {
        #[inline]
        fn from(value: KintU8GeLeSym) -> Self {
            value.into_inner()
        }
    }
    #[cfg(test)]
    mod tests {
        use super::*;
        #[test]
        fn should_have_consistent_lower_and_upper_boundaries() {
            assert!
            (sym_hi_u8() >= sym_lo_u8(),
            "\nInconsistent lower and upper boundaries for type `KintU8GeLeSym`\nThe upper boundary `sym_hi_u8()` must be greater than or equal to the lower boundary `sym_lo_u8()`\nNote: the test is generated automatically by #[nutype] macro.\n");
        }
    }
}
pub use __nutype_KintU8GeLeSym__::KintU8GeLeSym;
pub use __nutype_KintU8GeLeSym__::KintU8GeLeSymError;
