// NUTYPE_VERIF_INPUT #[nutype(validate(finite, greater_or_equal = sym_lo_f32(), less = sym_hi_f32()), derive(Debug, Clone, Copy, PartialEq, PartialOrd, AsRef, Deref, Borrow, Into, TryFrom, Eq, Ord))] pub struct FltF32FinGreaterOrEqualLessSym(f32);
#[doc(hidden)]
#[allow(
    non_snake_case,
    reason = "we keep original structure name which is probably CamelCase"
)]
mod __nutype_FltF32FinGreaterOrEqualLessSym__ {
    use super::*;
    #[derive(PartialEq, Clone, PartialOrd, Copy, Debug)]
    pub struct FltF32FinGreaterOrEqualLessSym(f32);
    #[derive(Debug, Clone, PartialEq, Eq)]
    #[allow(clippy::enum_variant_names)]
    pub enum FltF32FinGreaterOrEqualLessSymError {
        FiniteViolated,
        GreaterOrEqualViolated,
        LessViolated,
    }
    impl ::core::fmt::Display for FltF32FinGreaterOrEqualLessSymError {
        fn fmt(&self, f: &mut ::core::fmt::Formatter<'_>) -> ::core::fmt::Result {
            match self {
                FltF32FinGreaterOrEqualLessSymError::FiniteViolated => write!(
                    f,
                    "{} is not finite.",
                    stringify!(FltF32FinGreaterOrEqualLessSym)
                ),
                FltF32FinGreaterOrEqualLessSymError::GreaterOrEqualViolated => write!(
                    f,
                    "{} is too small. The value must be greater or equal to {:#?}.",
                    stringify!(FltF32FinGreaterOrEqualLessSym),
                    sym_lo_f32()
                ),
                FltF32FinGreaterOrEqualLessSymError::LessViolated => write!(
                    f,
                    "{} is too big. The value must be less than {:#?}.",
                    stringify!(FltF32FinGreaterOrEqualLessSym),
                    sym_hi_f32()
                ),
            }
        }
    }
    impl ::core::error::Error for FltF32FinGreaterOrEqualLessSymError {
        fn source(&self) -> Option<&(dyn ::core::error::Error + 'static)> {
            None
        }
    }
    impl FltF32FinGreaterOrEqualLessSym {
        pub fn try_new(
            raw_value: f32,
        ) -> ::core::result::Result<Self, FltF32FinGreaterOrEqualLessSymError> {
            let sanitized_value: f32 = Self::__sanitize__(raw_value);
            #[allow(clippy::question_mark)]
            if let Err(e) = Self::__validate__(&sanitized_value) {
                return Err(e);
            }
            Ok(FltF32FinGreaterOrEqualLessSym(sanitized_value))
        }
        fn __sanitize__(mut value: f32) -> f32 {
            value
        }
        fn __validate__(
            val: &f32,
        ) -> core::result::Result<(), FltF32FinGreaterOrEqualLessSymError> {
            let val = *val;
            if !val.is_finite() {
                return Err(FltF32FinGreaterOrEqualLessSymError::FiniteViolated);
            }
            if val < sym_lo_f32() {
                return Err(FltF32FinGreaterOrEqualLessSymError::GreaterOrEqualViolated);
            }
            if val >= sym_hi_f32() {
                return Err(FltF32FinGreaterOrEqualLessSymError::LessViolated);
            }
            Ok(())
        }
    }
    impl FltF32FinGreaterOrEqualLessSym {
        #[inline]
        pub fn into_inner(self) -> f32 {
            self.0
        }
    }
    impl ::core::ops::Deref for FltF32FinGreaterOrEqualLessSym {
        type Target = f32;
        #[inline]
        fn deref(&self) -> &Self::Target {
            &self.0
        }
    }
    impl ::core::convert::From<FltF32FinGreaterOrEqualLessSym> for f32 {
        #[inline]
        fn from(value: FltF32FinGreaterOrEqualLessSym) -> Self {
            value.into_inner()
        }
    }
    impl ::core::cmp::Eq for FltF32FinGreaterOrEqualLessSym {}
    impl ::core::borrow::Borrow<f32> for FltF32FinGreaterOrEqualLessSym {
        #[inline]
        fn borrow(&self) -> &f32 {
            &self.0
        }
    }
    #[allow(clippy::derive_ord_xor_partial_ord)]
    impl ::core::cmp::Ord for FltF32FinGreaterOrEqualLessSym {
        fn cmp(&self, other: &Self) -> ::core::cmp::Ordering {
            self.partial_cmp(other).unwrap_or_else(||
            {
                let tp = "FltF32FinGreaterOrEqualLessSym"; panic!
                ("{tp}::cmp() panicked, because partial_cmp() returned None. Could it be that you're using unsafe {tp}::new_unchecked() ?",
                tp = tp);
            })
        }
    }
    impl ::core::convert::TryFrom<f32> for FltF32FinGreaterOrEqualLessSym {
        type Error = FltF32FinGreaterOrEqualLessSymError;
        #[inline]
        fn try_from(
            raw_value: f32,
        ) -> ::core::result::Result<FltF32FinGreaterOrEqualLessSym, Self::Error> {
            Self::try_new(raw_value)
        }
    }
    impl ::core::convert::AsRef<f32> for FltF32FinGreaterOrEqualLessSym {
        #[inline]
        fn as_ref(&self) -> &f32 {
            &self.0
        }
    }
    #[cfg(test)]
    mod tests {
        use super::*;
        #[test]
        fn should_have_consistent_lower_and_upper_boundaries() {
            assert!
            (sym_hi_f32() >= sym_lo_f32(),
            "\nInconsistent lower and upper boundaries for type `FltF32FinGreaterOrEqualLessSym`\nThe upper boundary `sym_hi_f32()` must be greater than or equal to the lower boundary `sym_lo_f32()`\nNote: the test is generated automatically by #[nutype] macro.\n");
        }
    }
}
pub use __nutype_FltF32FinGreaterOrEqualLessSym__::FltF32FinGreaterOrEqualLessSym;
pub use __nutype_FltF32FinGreaterOrEqualLessSym__::FltF32FinGreaterOrEqualLessSymError;
