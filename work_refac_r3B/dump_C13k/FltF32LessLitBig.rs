// NUTYPE_VERIF_INPUT #[nutype(validate(less = 1e30), derive(Debug, Clone, Copy, PartialEq, PartialOrd, AsRef, Deref, Borrow, Into, TryFrom))] pub struct FltF32LessLitBig(f32);
#[doc(hidden)]
#[allow(
    non_snake_case,
    reason = "we keep original structure name which is probably CamelCase"
)]
mod __nutype_FltF32LessLitBig__ {
    use super::*;
    #[derive(Clone, Debug, PartialOrd, PartialEq, Copy)]
    pub struct FltF32LessLitBig(f32);
    #[derive(Debug, Clone, PartialEq, Eq)]
    #[allow(clippy::enum_variant_names)]
    pub enum FltF32LessLitBigError {
        LessViolated,
    }
    impl ::core::fmt::Display for FltF32LessLitBigError {
        fn fmt(&self, f: &mut ::core::fmt::Formatter<'_>) -> ::core::fmt::Result {
            match self {
                FltF32LessLitBigError::LessViolated => write!(
                    f,
                    "{} is too big. The value must be less than {:#?}.",
                    stringify!(FltF32LessLitBig),
                    1000000000000000000000000000000f32
                ),
            }
        }
    }
    impl ::core::error::Error for FltF32LessLitBigError {
        fn source(&self) -> Option<&(dyn ::core::error::Error + 'static)> {
            None
        }
    }
    impl FltF32LessLitBig {
        pub fn try_new(raw_value: f32) -> ::core::result::Result<Self, FltF32LessLitBigError> {
            let sanitized_value: f32 = Self::__sanitize__(raw_value);
            #[allow(clippy::question_mark)]
            if let Err(e) = Self::__validate__(&sanitized_value) {
                return Err(e);
            }
            Ok(FltF32LessLitBig(sanitized_value))
        }
        fn __sanitize__(mut value: f32) -> f32 {
            value
        }
        fn __validate__(val: &f32) -> core::result::Result<(), FltF32LessLitBigError> {
            let val = *val;
            if val >= 1000000000000000000000000000000f32 {
                return Err(FltF32LessLitBigError::LessViolated);
            }
            Ok(())
        }
    }
    impl FltF32LessLitBig {
        #[inline]
        pub fn into_inner(self) -> f32 {
            self.0
        }
    }
    impl ::core::ops::Deref for FltF32LessLitBig {
        type Target = f32;
        #[inline]
        fn deref(&self) -> &Self::Target {
            &self.0
        }
    }
    impl ::core::convert::From<FltF32LessLitBig> for f32 {
        #[inline]
        fn from(value: FltF32LessLitBig) -> Self {
            value.into_inner()
        }
    }
    impl ::core::convert::AsRef<f32> for FltF32LessLitBig {
        #[inline]
        fn as_ref(&self) -> &f32 {
            &self.0
        }
    }
    impl ::core::convert::TryFrom<f32> for FltF32LessLitBig {
        type Error = FltF32LessLitBigError;
        #[inline]
        fn try_from(raw_value: f32) -> ::core::result::Result<FltF32LessLitBig, Self::Error> {
            Self::try_new(raw_value)
        }
    }
    impl ::core::borrow::Borrow<f32> for FltF32LessLitBig {
        #[inline]
        fn borrow(&self) -> &f32 {
            &self.0
        }
    }
    #[cfg(test)]
    mod tests {
        use super::*;
    }
}
pub use __nutype_FltF32LessLitBig__::FltF32LessLitBig;
pub use __nutype_FltF32LessLitBig__::FltF32LessLitBigError;
