// NUTYPE_VERIF_INPUT #[nutype(validate(greater = sym_lo_f32()), derive(Debug, Clone, Copy, PartialEq, PartialOrd, AsRef, Deref, Borrow, Into, TryFrom))] pub struct FltF32GreaterSym(f32);
#[doc(hidden)]
#[allow(
    non_snake_case,
    reason = "we keep original structure name which is probably CamelCase"
)]
mod __nutype_FltF32GreaterSym__ {
    use super::*;
    #[derive(Clone, Debug, Copy, PartialEq, PartialOrd)]
    pub struct FltF32GreaterSym(f32);
    #[derive(Debug, Clone, PartialEq, Eq)]
    #[allow(clippy::enum_variant_names)]
    pub enum FltF32GreaterSymError {
        GreaterViolated,
    }
    impl ::core::fmt::Display for FltF32GreaterSymError {
        fn fmt(&self, f: &mut ::core::fmt::Formatter<'_>) -> ::core::fmt::Result {
            match self {
                FltF32GreaterSymError::GreaterViolated => write!(
                    f,
                    "{} is too small. The value must be greater than {:#?}.",
                    stringify!(FltF32GreaterSym),
                    sym_lo_f32()
                ),
            }
        }
    }
    impl ::core::error::Error for FltF32GreaterSymError {
        fn source(&self) -> Option<&(dyn ::core::error::Error + 'static)> {
            None
        }
    }
    impl FltF32GreaterSym {
        pub fn try_new(raw_value: f32) -> ::core::result::Result<Self, FltF32GreaterSymError> {
            let sanitized_value: f32 = Self::__sanitize__(raw_value);
            #[allow(clippy::question_mark)]
            if let Err(e) = Self::__validate__(&sanitized_value) {
                return Err(e);
            }
            Ok(FltF32GreaterSym(sanitized_value))
        }
        fn __sanitize__(mut value: f32) -> f32 {
            value
        }
        fn __validate__(val: &f32) -> core::result::Result<(), FltF32GreaterSymError> {
            let val = *val;
            if val <= sym_lo_f32() {
                return Err(FltF32GreaterSymError::GreaterViolated);
            }
            Ok(())
        }
    }
    impl FltF32GreaterSym {
        #[inline]
        pub fn into_inner(self) -> f32 {
            self.0
        }
    }
    impl ::core::borrow::Borrow<f32> for FltF32GreaterSym {
        #[inline]
        fn borrow(&self) -> &f32 {
            &self.0
        }
    }
    impl ::core::convert::AsRef<f32> for FltF32GreaterSym {
        #[inline]
        fn as_ref(&self) -> &f32 {
            &self.0
        }
    }
    impl ::core::convert::From<FltF32GreaterSym> for f32 {
        #[inline]
        fn from(value: FltF32GreaterSym) -> Self {
            value.into_inner()
        }
    }
    impl ::core::convert::TryFrom<f32> for FltF32GreaterSym {
        type Error = FltF32GreaterSymError;
        #[inline]
        fn try_from(raw_value: f32) -> ::core::result::Result<FltF32GreaterSym, Self::Error> {
            Self::try_new(raw_value)
        }
    }
    impl ::core::ops::Deref for FltF32GreaterSym {
        type Target = f32;
        #[inline]
        fn deref(&self) -> &Self::Target {
            &self.0
        }
    }
    #[cfg(test)]
    mod tests {
        use super::*;
    }
}
pub use __nutype_FltF32GreaterSym__::FltF32GreaterSym;
pub use __nutype_FltF32GreaterSym__::FltF32GreaterSymError;
