// NUTYPE_VERIF_INPUT #[nutype(validate(greater = 1e-30), derive(Debug, Clone, Copy, PartialEq, PartialOrd, AsRef, Deref, Borrow, Into, TryFrom))] pub struct FltF32GreaterLitSmall(f32);
#[doc(hidden)]
#[allow(
    non_snake_case,
    reason = "we keep original structure name which is probably CamelCase"
)]
mod __nutype_FltF32GreaterLitSmall__ {
    use super::*;
    #[derive(PartialEq, Clone, Copy, Debug, PartialOrd)]
    pub struct FltF32GreaterLitSmall(f32);
    #[derive(Debug, Clone, PartialEq, Eq)]
    #[allow(clippy::enum_variant_names)]
    pub enum FltF32GreaterLitSmallError {
        GreaterViolated,
    }
    impl ::core::fmt::Display for FltF32GreaterLitSmallError {
        fn fmt(&self, f: &mut ::core::fmt::Formatter<'_>) -> ::core::fmt::Result {
            match self {
                FltF32GreaterLitSmallError::GreaterViolated => write!(
                    f,
                    "{} is too small. The value must be greater than {:#?}.",
                    stringify!(FltF32GreaterLitSmall),
                    0.000000000000000000000000000001f32
                ),
            }
        }
    }
    impl ::core::error::Error for FltF32GreaterLitSmallError {
        fn source(&self) -> Option<&(dyn ::core::error::Error + 'static)> {
            None
        }
    }
    impl FltF32GreaterLitSmall {
        pub fn try_new(raw_value: f32) -> ::core::result::Result<Self, FltF32GreaterLitSmallError> {
            let sanitized_value: f32 = Self::__sanitize__(raw_value);
            #[allow(clippy::question_mark)]
            if let Err(e) = Self::__validate__(&sanitized_value) {
                return Err(e);
            }
            Ok(FltF32GreaterLitSmall(sanitized_value))
        }
        fn __sanitize__(mut value: f32) -> f32 {
            value
        }
        fn __validate__(val: &f32) -> core::result::Result<(), FltF32GreaterLitSmallError> {
            let val = *val;
            if val <= 0.000000000000000000000000000001f32 {
                return Err(FltF32GreaterLitSmallError::GreaterViolated);
            }
            Ok(())
        }
    }
    impl FltF32GreaterLitSmall {
        #[inline]
        pub fn into_inner(self) -> f32 {
            self.0
        }
    }
    impl ::core::convert::From<FltF32GreaterLitSmall> for f32 {
        #[inline]
        fn from(value: FltF32GreaterLitSmall) -> Self {
            value.into_inner()
        }
    }
    impl ::core::convert::TryFrom<f32> for FltF32GreaterLitSmall {
        type Error = FltF32GreaterLitSmallError;
        #[inline]
        fn try_from(raw_value: f32) -> ::core::result::Result<FltF32GreaterLitSmall, Self::Error> {
            Self::try_new(raw_value)
        }
    }
    impl ::core::convert::AsRef<f32> for FltF32GreaterLitSmall {
        #[inline]
        fn as_ref(&self) -> &f32 {
            &self.0
        }
    }
    impl ::core::ops::Deref for FltF32GreaterLitSmall {
        type Target = f32;
        #[inline]
        fn deref(&self) -> &Self::Target {
            &self.0
        }
    }
    impl ::core::borrow::Borrow<f32> for FltF32GreaterLitSmall {
        #[inline]
        fn borrow(&self) -> &f32 {
            &self.0
        }
    }
    #[cfg(test)]
    mod tests {
        use super::*;
    }
}
pub use __nutype_FltF32GreaterLitSmall__::FltF32GreaterLitSmall;
pub use __nutype_FltF32GreaterLitSmall__::FltF32GreaterLitSmallError;
