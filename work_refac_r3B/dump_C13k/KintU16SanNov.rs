// NUTYPE_VERIF_INPUT #[nutype(sanitize(with = san_u16), derive(Debug, Clone, Copy, PartialEq, Eq, PartialOrd, Ord, Hash, AsRef, Deref, Borrow, Into, From))] pub struct KintU16SanNov(u16);
#[doc(hidden)]
#[allow(
    non_snake_case,
    reason = "we keep original structure name which is probably CamelCase"
)]
mod __nutype_KintU16SanNov__ {
    use super::*;
    #[derive(Ord, Debug, Hash, Eq, Clone, Copy, PartialEq, PartialOrd)]
    pub struct KintU16SanNov(u16);
    impl KintU16SanNov {
        pub fn new(raw_value: u16) -> Self {
            Self(Self::__sanitize__(raw_value))
        }
        fn __sanitize__(mut value: u16) -> u16 {
            value = (san_u16)(value);
            value
        }
    }
    impl KintU16SanNov {
        #[inline]
        pub fn into_inner(self) -> u16 {
            self.0
        }
    }
    impl ::core::borrow::Borrow<u16> for KintU16SanNov {
        #[inline]
        fn borrow(&self) -> &u16 {
            &self.0
        }
    }
    impl ::core::convert::From<KintU16SanNov> for u16 {
        #[inline]
        fn from(value: KintU16SanNov) -> Self {
            value.into_inner()
        }
    }
    impl ::core::ops::Deref for KintU16SanNov {
        type Target = u16;
        #[inline]
        fn deref(&self) -> &Self::Target {
            &self.0
        }
    }
    impl ::core::convert::From<u16> for KintU16SanNov {
        #[inline]
        fn from(raw_value: u16) -> Self {
            Self::new(raw_value)
        }
    }
    impl ::core::convert::AsRef<u16> for KintU16SanNov {
        #[inline]
        fn as_ref(&self) -> &u16 {
            &self.0
        }
    }
    #[cfg(test)]
    mod tests {
        use super::*;
    }
}
pub use __nutype_KintU16SanNov__::KintU16SanNov;
