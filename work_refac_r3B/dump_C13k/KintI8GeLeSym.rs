// NUTYPE_VERIF_INPUT #[nutype(validate(greater_or_equal = sym_lo_i8(), less_or_equal = sym_hi_i8()), derive(Debug, Clone, Copy, PartialEq, Eq, PartialOrd, Ord, Hash, AsRef, Deref, Borrow, Into, TryFrom))] pub struct KintI8GeLeSym(i8);
#[doc(hidden)]
#[allow(
    non_snake_case,
    reason = "we keep original structure name which is probably CamelCase"
)]
mod __nutype_KintI8GeLeSym__ {
    use super::*;
    #[derive(Copy, Clone, Eq, Hash, PartialEq, Debug, PartialOrd, Ord)]
    pub struct KintI8GeLeSym(i8);
    #[derive(Debug, Clone, PartialEq, Eq)]
    #[allow(clippy::enum_variant_names)]
    pub enum KintI8GeLeSymError {
        GreaterOrEqualViolated,
        LessOrEqualViolated,
    }
    impl ::core::fmt::Display for KintI8GeLeSymError {
        fn fmt(&self, f: &mut ::core::fmt::Formatter<'_>) -> ::core::fmt::Result {
            match self {
                KintI8GeLeSymError::GreaterOrEqualViolated => write!(
                    f,
                    "{} is too small. The value must be greater or equal to {:#?}.",
                    stringify!(KintI8GeLeSym),
                    sym_lo_i8()
                ),
                KintI8GeLeSymError::LessOrEqualViolated => write!(
                    f,
                    "{} is too big. The value must be less or equal to {:#?}.",
                    stringify!(KintI8GeLeSym),
                    sym_hi_i8()
                ),
            }
        }
    }
    impl ::core::error::Error for KintI8GeLeSymError {
        fn source(&self) -> Option<&(dyn ::core::error::Error + 'static)> {
            None
        }
    }
    impl KintI8GeLeSym {
        pub fn try_new(raw_value: i8) -> ::core::result::Result<Self, KintI8GeLeSymError> {
            let sanitized_value: i8 = Self::__sanitize__(raw_value);
            #[allow(clippy::question_mark)]
            if let Err(e) = Self::__validate__(&sanitized_value) {
                return Err(e);
            }
            Ok(KintI8GeLeSym(sanitized_value))
        }
        fn __sanitize__(mut value: i8) -> i8 {
            value
        }
        fn __validate__(val: &i8) -> ::core::result::Result<(), KintI8GeLeSymError> {
            let val = *val;
            if val < sym_lo_i8() {
                return Err(KintI8GeLeSymError::GreaterOrEqualViolated);
            }
            if val > sym_hi_i8() {
                return Err(KintI8GeLeSymError::LessOrEqualViolated);
            }
            Ok(())
        }
    }
    impl KintI8GeLeSym {
        #[inline]
        pub fn into_inner(self) -> i8 {
            self.0
        }
    }
    impl ::core::convert::From<KintI8GeLeSym> for i8 {
        #[inline]
        fn from(value: KintI8GeLeSym) -> Self {
            value.into_inner()
        }
    }
    impl ::core::convert::AsRef<i8> for KintI8GeLeSym {
        #[inline]
        fn as_ref(&self) -> &i8 {
            &self.0
        }
    }
    impl ::core::convert::TryFrom<i8> for KintI8GeLeSym {
        type Error = KintI8GeLeSymError;
        #[inline]
        fn try_from(raw_value: i8) -> ::core::result::Result<KintI8GeLeSym, Self::Error> {
            Self::try_new(raw_value)
        }
    }
    impl ::core::borrow::Borrow<i8> for KintI8GeLeSym {
        #[inline]
        fn borrow(&self) -> &i8 {
            &self.0
        }
    }
    impl ::core::ops::Deref for KintI8GeLeSym {
        type Target = i8;
        #[inline]
        fn deref(&self) -> &Self::Target {
            &self.0
        }
    }
    #[cfg(test)]
    mod tests {
        use super::*;
        #[test]
        fn should_have_consistent_lower_and_upper_boundaries() {
            assert!
            (sym_hi_i8() >= sym_lo_i8(),
            "\nInconsistent lower and upper boundaries for type `KintI8GeLeSym`\nThe upper boundary `sym_hi_i8()` must be greater than or equal to the lower boundary `sym_lo_i8()`\nNote: the test is generated automatically by #[nutype] macro.\n");
        }
    }
}
pub use __nutype_KintI8GeLeSym__::KintI8GeLeSym;
pub use __nutype_KintI8GeLeSym__::KintI8GeLeSymError;
