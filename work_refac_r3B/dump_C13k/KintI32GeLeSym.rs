// NUTYPE_VERIF_INPUT #[nutype(validate(greater_or_equal = sym_lo_i32(), less_or_equal = sym_hi_i32()), derive(Debug, Clone, Copy, PartialEq, Eq, PartialOrd, Ord, Hash, AsRef, Deref, Borrow, Into, TryFrom))] pub struct KintI32GeLeSym(i32);
#[doc(hidden)]
#[allow(
    non_snake_case,
    reason = "we keep original structure name which is probably CamelCase"
)]
mod __nutype_KintI32GeLeSym__ {
    use super::*;
    #[derive(Debug, PartialEq, Copy, Ord, Eq, PartialOrd, Hash, Clone)]
    pub struct KintI32GeLeSym(i32);
    #[derive(Debug, Clone, PartialEq, Eq)]
    #[allow(clippy::enum_variant_names)]
    pub enum KintI32GeLeSymError {
        GreaterOrEqualViolated,
        LessOrEqualViolated,
    }
    impl ::core::fmt::Display for KintI32GeLeSymError {
        fn fmt(&self, f: &mut ::core::fmt::Formatter<'_>) -> ::core::fmt::Result {
            match self {
                KintI32GeLeSymError::GreaterOrEqualViolated => write!(
                    f,
                    "{} is too small. The value must be greater or equal to {:#?}.",
                    stringify!(KintI32GeLeSym),
                    sym_lo_i32()
                ),
                KintI32GeLeSymError::LessOrEqualViolated => write!(
                    f,
                    "{} is too big. The value must be less or equal to {:#?}.",
                    stringify!(KintI32GeLeSym),
                    sym_hi_i32()
                ),
            }
        }
    }
    impl ::core::error::Error for KintI32GeLeSymError {
        fn source(&self) -> Option<&(dyn ::core::error::Error + 'static)> {
            None
        }
    }
    impl KintI32GeLeSym {
        pub fn try_new(raw_value: i32) -> ::core::result::Result<Self, KintI32GeLeSymError> {
            let sanitized_value: i32 = Self::__sanitize__(raw_value);
            #[allow(clippy::question_mark)]
            if let Err(e) = Self::__validate__(&sanitized_value) {
                return Err(e);
            }
            Ok(KintI32GeLeSym(sanitized_value))
        }
        fn __sanitize__(mut value: i32) -> i32 {
            value
        }
        fn __validate__(val: &i32) -> ::core::result::Result<(), KintI32GeLeSymError> {
            let val = *val;
            if val < sym_lo_i32() {
                return Err(KintI32GeLeSymError::GreaterOrEqualViolated);
            }
            if val > sym_hi_i32() {
                return Err(KintI32GeLeSymError::LessOrEqualViolated);
            }
            Ok(())
        }
    }
    impl KintI32GeLeSym {
        #[inline]
        pub fn into_inner(self) -> i32 {
            self.0
        }
    }
    impl ::core::convert::TryFrom<i32> for KintI32GeLeSym {
        type Error = KintI32GeLeSymError;
        #[inline]
        fn try_from(raw_value: i32) -> ::core::result::Result<KintI32GeLeSym, Self::Error> {
            Self::try_new(raw_value)
        }
    }
    impl ::core::convert::From<KintI32GeLeSym> for i32 {
        #[inline]
        fn from(value: KintI32GeLeSym) -> Self {
            value.into_inner()
        }
    }
    impl ::core::convert::AsRef<i32> for KintI32GeLeSym {
        #[inline]
        fn as_ref(&self) -> &i32 {
            &self.0
        }
    }
    impl ::core::ops::Deref for KintI32GeLeSym {
        type Target = i32;
        #[inline]
        fn deref(&self) -> &Self::Target {
            &self.0
        }
    }
    impl ::core::borrow::Borrow<i32> for KintI32GeLeSym {
        #[inline]
        fn borrow(&self) -> &i32 {
            &self.0
        }
    }
    #[cfg(test)]
    mod tests {
        use super::*;
        #[test]
        fn should_have_consistent_lower_and_upper_boundaries() {
            assert!
            (sym_hi_i32() >= sym_lo_i32(),
            "\nInconsistent lower and upper boundaries for type `KintI32GeLeSym`\nThe upper boundary `sym_hi_i32()` must be greater than or equal to the lower boundary `sym_lo_i32()`\nNote: the test is generated automatically by #[nutype] macro.\n");
        }
    }
}
pub use __nutype_KintI32GeLeSym__::KintI32GeLeSym;
pub use __nutype_KintI32GeLeSym__::KintI32GeLeSymError;
