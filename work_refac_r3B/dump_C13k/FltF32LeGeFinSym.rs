// NUTYPE_VERIF_INPUT #[nutype(validate(less_or_equal = sym_hi_f32(), greater_or_equal = sym_lo_f32(), finite), derive(Debug, Clone, Copy, PartialEq, PartialOrd, AsRef, Deref, Borrow, Into, TryFrom, Eq, Ord))] pub struct FltF32LeGeFinSym(f32);
#[doc(hidden)]
#[allow(
    non_snake_case,
    reason = "we keep original structure name which is probably CamelCase"
)]
mod __nutype_FltF32LeGeFinSym__ {
    use super::*;
    #[derive(Debug, Clone, PartialEq, Copy, PartialOrd)]
    pub struct FltF32LeGeFinSym(f32);
    #[derive(Debug, Clone, PartialEq, Eq)]
    #[allow(clippy::enum_variant_names)]
    pub enum FltF32LeGeFinSymError {
        LessOrEqualViolated,
        GreaterOrEqualViolated,
        FiniteViolated,
    }
    impl ::core::fmt::Display for FltF32LeGeFinSymError {
        fn fmt(&self, f: &mut ::core::fmt::Formatter<'_>) -> ::core::fmt::Result {
            match self {
                FltF32LeGeFinSymError::LessOrEqualViolated => write!(
                    f,
                    "{} is too big. The value must be less than {:#?}.",
                    stringify!(FltF32LeGeFinSym),
                    sym_hi_f32()
                ),
                FltF32LeGeFinSymError::GreaterOrEqualViolated => write!(
                    f,
                    "{} is too small. The value must be greater or equal to {:#?}.",
                    stringify!(FltF32LeGeFinSym),
                    sym_lo_f32()
                ),
                FltF32LeGeFinSymError::FiniteViolated => {
                    write!(f, "{} is not finite.", stringify!(FltF32LeGeFinSym))
                }
            }
        }
    }
    impl ::core::error::Error for FltF32LeGeFinSymError {
        fn source(&self) -> Option<&(dyn ::core::error::Error + 'static)> {
            None
        }
    }
    impl FltF32LeGeFinSym {
        pub fn try_new(raw_value: f32) -> ::core::result::Result<Self, FltF32LeGeFinSymError> {
            let sanitized_value: f32 = Self::__sanitize__(raw_value);
            #[allow(clippy::question_mark)]
            if let Err(e) = Self::__validate__(&sanitized_value) {
                return Err(e);
            }
            Ok(FltF32LeGeFinSym(sanitized_value))
        }
        fn __sanitize__(mut value: f32) -> f32 {
            value
        }
        fn __validate__(val: &f32) -> core::result::Result<(), FltF32LeGeFinSymError> {
            let val = *val;
            if val > sym_hi_f32() {
                return Err(FltF32LeGeFinSymError::LessOrEqualViolated);
            }
            if val < sym_lo_f32() {
                return Err(FltF32LeGeFinSymError::GreaterOrEqualViolated);
            }
            if !val.is_finite() {
                return Err(FltF32LeGeFinSymError::FiniteViolated);
            }
            Ok(())
        }
    }
    impl FltF32LeGeFinSym {
        #[inline]
        pub fn into_inner(self) -> f32 {
            self.0
        }
    }
    impl ::core::convert::From<FltF32LeGeFinSym> for f32 {
        #[inline]
        fn from(value: FltF32LeGeFinSym) -> Self {
            value.into_inner()
        }
    }
    #[allow(clippy::derive_ord_xor_partial_ord)]
    impl ::core::cmp::Ord for FltF32LeGeFinSym {
        fn cmp(&self, other: &Self) -> ::core::cmp::Ordering {
            self.partial_cmp(other).unwrap_or_else(||
            {
                let tp = "FltF32LeGeFinSym"; panic!
                ("{tp}::cmp() panicked, because partial_cmp() returned None. Could it be that you're using unsafe {tp}::new_unchecked() ?",
                tp = tp);
            })
        }
    }
    impl ::core::borrow::Borrow<f32> for FltF32LeGeFinSym {
        #[inline]
        fn borrow(&self) -> &f32 {
            &self.0
        }
    }
    impl ::core::convert::TryFrom<f32> for FltF32LeGeFinSym {
        type Error = FltF32LeGeFinSymError;
        #[inline]
        fn try_from(raw_value: f32) -> ::core::result::Result<FltF32LeGeFinSym, Self::Error> {
            Self::try_new(raw_value)
        }
    }
    impl ::core::convert::AsRef<f32> for FltF32LeGeFinSym {
        #[inline]
        fn as_ref(&self) -> &f32 {
            &self.0
        }
    }
    impl ::core::cmp::Eq for FltF32LeGeFinSym {}
    impl ::core::ops::Deref for FltF32LeGeFinSym {
        type Target = f32;
        #[inline]
        fn deref(&self) -> &Self::Target {
            &self.0
        }
    }
    #[cfg(test)]
    mod tests {
        use super::*;
        #[test]
        fn should_have_consistent_lower_and_upper_boundaries() {
            assert!
            (sym_hi_f32() >= sym_lo_f32(),
            "\nInconsistent lower and upper boundaries for type `FltF32LeGeFinSym`\nThe upper boundary `sym_hi_f32()` must be greater than or equal to the lower boundary `sym_lo_f32()`\nNote: the test is generated automatically by #[nutype] macro.\n");
        }
    }
}
pub use __nutype_FltF32LeGeFinSym__::FltF32LeGeFinSym;
pub use __nutype_FltF32LeGeFinSym__::FltF32LeGeFinSymError;
