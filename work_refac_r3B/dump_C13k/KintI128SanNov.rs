// NUTYPE_VERIF_INPUT #[nutype(sanitize(with = san_i128), derive(Debug, Clone, Copy, PartialEq, Eq, PartialOrd, Ord, Hash, AsRef, Deref, Borrow, Into, From))] pub struct KintI128SanNov(i128);
#[doc(hidden)]
#[allow(
    non_snake_case,
    reason = "we keep original structure name which is probably CamelCase"
)]
mod __nutype_KintI128SanNov__ {
    use super::*;
    #[derive(Ord, Debug, PartialEq, Hash, Clone, PartialOrd, Eq, Copy)]
    pub struct KintI128SanNov(i128);
    impl KintI128SanNov {
        pub fn new(raw_value: i128) -> Self {
            Self(Self::__sanitize__(raw_value))
        }
        fn __sanitize__(mut value: i128) -> i128 {
            value = (san_i128)(value);
            value
        }
    }
    impl KintI128SanNov {
        #[inline]
        pub fn into_inner(self) -> i128 {
            self.0
        }
    }
    impl ::core::borrow::Borrow<i128> for KintI128SanNov {
        #[inline]
        fn borrow(&self) -> &i128 {
            &self.0
        }
    }
    impl ::core::convert::From<KintI128SanNov> for i128 {
        #[inline]
        fn from(value: KintI128SanNov) -> Self {
            value.into_inner()
        }
    }
    impl ::core::convert::AsRef<i128> for KintI128SanNov {
        #[inline]
        fn as_ref(&self) -> &i128 {
            &self.0
        }
    }
    impl ::core::convert::From<i128> for KintI128SanNov {
        #[inline]
        fn from(raw_value: i128) -> Self {
            Self::new(raw_value)
        }
    }
    impl ::core::ops::Deref for KintI128SanNov {
        type Target = i128;
        #[inline]
        fn deref(&self) -> &Self::Target {
            &self.0
        }
    }
    #[cfg(test)]
    mod tests {
        use super::*;
    }
}
pub use __nutype_KintI128SanNov__::KintI128SanNov;
