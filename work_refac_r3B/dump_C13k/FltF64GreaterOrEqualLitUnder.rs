// NUTYPE_VERIF_INPUT #[nutype(validate(greater_or_equal = 1_000.5), derive(Debug, Clone, Copy, PartialEq, PartialOrd, AsRef, Deref, Borrow, Into, TryFrom))] pub struct FltF64GreaterOrEqualLitUnder(f64);
#[doc(hidden)]
#[allow(
    non_snake_case,
    reason = "we keep original structure name which is probably CamelCase"
)]
mod __nutype_FltF64GreaterOrEqualLitUnder__ {
    use super::*;
    #[derive(PartialEq, Clone, Debug, Copy, PartialOrd)]
    pub struct FltF64GreaterOrEqualLitUnder(f64);
    #[derive(Debug, Clone, PartialEq, Eq)]
    #[allow(clippy::enum_variant_names)]
    pub enum FltF64GreaterOrEqualLitUnderError {
        GreaterOrEqualViolated,
    }
    impl ::core::fmt::Display for FltF64GreaterOrEqualLitUnderError {
        fn fmt(&self, f: &mut ::core::fmt::Formatter<'_>) -> ::core::fmt::Result {
            match self {
                FltF64GreaterOrEqualLitUnderError::GreaterOrEqualViolated => write!(
                    f,
                    "{} is too small. The value must be greater or equal to {:#?}.",
                    stringify!(FltF64GreaterOrEqualLitUnder),
                    1000.5f64
                ),
            }
        }
    }
    impl ::core::error::Error for FltF64GreaterOrEqualLitUnderError {
        fn source(&self) -> Option<&(dyn ::core::error::Error + 'static)> {
            None
        }
    }
    impl FltF64GreaterOrEqualLitUnder {
        pub fn try_new(
            raw_value: f64,
        ) -> ::core::result::Result<Self, FltF64GreaterOrEqualLitUnderError> {
            let sanitized_value: f64 = Self::__sanitize__(raw_value);
            #[allow(clippy::question_mark)]
            if let Err(e) = Self::__validate__(&sanitized_value) {
                return Err(e);
            }
            Ok(FltF64GreaterOrEqualLitUnder(sanitized_value))
        }
        fn __sanitize__(mut value: f64) -> f64 {
            value
        }
        fn __validate__(val: &f64) -> core::result::Result<(), FltF64GreaterOrEqualLitUnderError> {
            let val = *val;
            if val < 1000.5f64 {
                return Err(FltF64GreaterOrEqualLitUnderError::GreaterOrEqualViolated);
            }
            Ok(())
        }
    }
    impl FltF64GreaterOrEqualLitUnder {
        #[inline]
        pub fn into_inner(self) -> f64 {
            self.0
        }
    }
    impl ::core::ops::Deref for FltF64GreaterOrEqualLitUnder {
        type Target = f64;
        #[inline]
        fn deref(&self) -> &Self::Target {
            &self.0
        }
    }
    impl ::core::borrow::Borrow<f64> for FltF64GreaterOrEqualLitUnder {
        #[inline]
        fn borrow(&self) -> &f64 {
            &self.0
        }
    }
    impl ::core::convert::From<FltF64GreaterOrEqualLitUnder> for f64 {
        #[inline]
        fn from(value: FltF64GreaterOrEqualLitUnder) -> Self {
            value.into_inner()
        }
    }
    impl ::core::convert::TryFrom<f64> for FltF64GreaterOrEqualLitUnder {
        type Error = FltF64GreaterOrEqualLitUnderError;
        #[inline]
        fn try_from(
            raw_value: f64,
        ) -> ::core::result::Result<FltF64GreaterOrEqualLitUnder, Self::Error> {
            Self::try_new(raw_value)
        }
    }
    impl ::core::convert::AsRef<f64> for FltF64GreaterOrEqualLitUnder {
        #[inline]
        fn as_ref(&self) -> &f64 {
            &self.0
        }
    }
    #[cfg(test)]
    mod tests {
        use super::*;
    }
}
pub use __nutype_FltF64GreaterOrEqualLitUnder__::FltF64GreaterOrEqualLitUnder;
pub use __nutype_FltF64GreaterOrEqualLitUnder__::FltF64GreaterOrEqualLitUnderError;
