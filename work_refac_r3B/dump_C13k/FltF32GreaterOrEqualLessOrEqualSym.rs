// NUTYPE_VERIF_INPUT #[nutype(validate(greater_or_equal = sym_lo_f32(), less_or_equal = sym_hi_f32()), derive(Debug, Clone, Copy, PartialEq, PartialOrd, AsRef, Deref, Borrow, Into, TryFrom))] pub struct FltF32GreaterOrEqualLessOrEqualSym(f32);
#[doc(hidden)]
#[allow(
    non_snake_case,
    reason = "we keep original structure name which is probably CamelCase"
)]
mod __nutype_FltF32GreaterOrEqualLessOrEqualSym__ {
    use super::*;
    #[derive(Debug, PartialEq, Copy, PartialOrd, Clone)]
    pub struct FltF32GreaterOrEqualLessOrEqualSym(f32);
    #[derive(Debug, Clone, PartialEq, Eq)]
    #[allow(clippy::enum_variant_names)]
    pub enum FltF32GreaterOrEqualLessOrEqualSymError {
        GreaterOrEqualViolated,
        LessOrEqualViolated,
    }
    impl ::core::fmt::Display for FltF32GreaterOrEqualLessOrEqualSymError {
        fn fmt(&self, f: &mut ::core::fmt::Formatter<'_>) -> ::core::fmt::Result {
            match self {
                FltF32GreaterOrEqualLessOrEqualSymError::GreaterOrEqualViolated => write!(
                    f,
                    "{} is too small. The value must be greater or equal to {:#?}.",
                    stringify!(FltF32GreaterOrEqualLessOrEqualSym),
                    sym_lo_f32()
                ),
                FltF32GreaterOrEqualLessOrEqualSymError::LessOrEqualViolated => write!(
                    f,
                    "{} is too big. The value must be less than {:#?}.",
                    stringify!(FltF32GreaterOrEqualLessOrEqualSym),
                    sym_hi_f32()
                ),
            }
        }
    }
    impl ::core::error::Error for FltF32GreaterOrEqualLessOrEqualSymError {
        fn source(&self) -> Option<&(dyn ::core::error::Error + 'static)> {
            None
        }
    }
    impl FltF32GreaterOrEqualLessOrEqualSym {
        pub fn try_new(
            raw_value: f32,
        ) -> ::core::result::Result<Self, FltF32GreaterOrEqualLessOrEqualSymError> {
            let sanitized_value: f32 = Self::__sanitize__(raw_value);
            #[allow(clippy::question_mark)]
            if let Err(e) = Self::__validate__(&sanitized_value) {
                return Err(e);
            }
            Ok(FltF32GreaterOrEqualLessOrEqualSym(sanitized_value))
        }
        fn __sanitize__(mut value: f32) -> f32 {
            value
        }
        fn __validate__(
            val: &f32,
        ) -> core::result::Result<(), FltF32GreaterOrEqualLessOrEqualSymError> {
            let val = *val;
            if val < sym_lo_f32() {
                return Err(FltF32GreaterOrEqualLessOrEqualSymError::GreaterOrEqualViolated);
            }
            if val > sym_hi_f32() {
                return Err(FltF32GreaterOrEqualLessOrEqualSymError::LessOrEqualViolated);
            }
            Ok(())
        }
    }
    impl FltF32GreaterOrEqualLessOrEqualSym {
        #[inline]
        pub fn into_inner(self) -> f32 {
            self.0
        }
    }
    impl ::core::ops::Deref for FltF32GreaterOrEqualLessOrEqualSym {
        type Target = f32;
        #[inline]
        fn deref(&self) -> &Self::Target {
            &self.0
        }
    }
    impl ::core::convert::TryFrom<f32> for FltF32GreaterOrEqualLessOrEqualSym {
        type Error = FltF32GreaterOrEqualLessOrEqualSymError;
        #[inline]
        fn try_from(
            raw_value: f32,
        ) -> ::core::result::Result<FltF32GreaterOrEqualLessOrEqualSym, Self::Error> {
            Self::try_new(raw_value)
        }
    }
    impl ::core::borrow::Borrow<f32> for FltF32GreaterOrEqualLessOrEqualSym {
        #[inline]
        fn borrow(&self) -> &f32 {
            &self.0
        }
    }
    impl ::core::convert::AsRef<f32> for FltF32GreaterOrEqualLessOrEqualSym {
        #[inline]
        fn as_ref(&self) -> &f32 {
            &self.0
        }
    }
    impl ::core::convert::From<FltF32GreaterOrEqualLessOrEqualSym> for f32 {
        #[inline]
        fn from(value: FltF32GreaterOrEqualLessOrEqualSym) -> Self {
            value.into_inner()
        }
    }
    #[cfg(test)]
    mod tests {
        use super::*;
        #[test]
        fn should_have_consistent_lower_and_upper_boundaries() {
            assert!
            (sym_hi_f32() >= sym_lo_f32(),
            "\nInconsistent lower and upper boundaries for type `FltF32GreaterOrEqualLessOrEqualSym`\nThe upper boundary `sym_hi_f32()` must be greater than or equal to the lower boundary `sym_lo_f32()`\nNote: the test is generated automatically by #[nutype] macro.\n");
        }
    }
}
pub use __nutype_FltF32GreaterOrEqualLessOrEqualSym__::FltF32GreaterOrEqualLessOrEqualSym;
pub use __nutype_FltF32GreaterOrEqualLessOrEqualSym__::FltF32GreaterOrEqualLessOrEqualSymError;
