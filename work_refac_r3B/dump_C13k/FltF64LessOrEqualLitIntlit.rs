// NUTYPE_VERIF_INPUT #[nutype(validate(less_or_equal = 100), derive(Debug, Clone, Copy, PartialEq, PartialOrd, AsRef, Deref, Borrow, Into, TryFrom))] pub struct FltF64LessOrEqualLitIntlit(f64);
#[doc(hidden)]
#[allow(
    non_snake_case,
    reason = "we keep original structure name which is probably CamelCase"
)]
mod __nutype_FltF64LessOrEqualLitIntlit__ {
    use super::*;
    #[derive(PartialEq, Clone, Debug, Copy, PartialOrd)]
    pub struct FltF64LessOrEqualLitIntlit(f64);
    #[derive(Debug, Clone, PartialEq, Eq)]
    #[allow(clippy::enum_variant_names)]
    pub enum FltF64LessOrEqualLitIntlitError {
        LessOrEqualViolated,
    }
    impl ::core::fmt::Display for FltF64LessOrEqualLitIntlitError {
        fn fmt(&self, f: &mut ::core::fmt::Formatter<'_>) -> ::core::fmt::Result {
            match self {
                FltF64LessOrEqualLitIntlitError::LessOrEqualViolated => write!(
                    f,
                    "{} is too big. The value must be less than {:#?}.",
                    stringify!(FltF64LessOrEqualLitIntlit),
                    100f64
                ),
            }
        }
    }
    impl ::core::error::Error for FltF64LessOrEqualLitIntlitError {
        fn source(&self) -> Option<&(dyn ::core::error::Error + 'static)> {
            None
        }
    }
    impl FltF64LessOrEqualLitIntlit {
        pub fn try_new(
            raw_value: f64,
        ) -> ::core::result::Result<Self, FltF64LessOrEqualLitIntlitError> {
            let sanitized_value: f64 = Self::__sanitize__(raw_value);
            #[allow(clippy::question_mark)]
            if let Err(e) = Self::__validate__(&sanitized_value) {
                return Err(e);
            }
            Ok(FltF64LessOrEqualLitIntlit(sanitized_value))
        }
        fn __sanitize__(mut value: f64) -> f64 {
            value
        }
        fn __validate__(val: &f64) -> core::result::Result<(), FltF64LessOrEqualLitIntlitError> {
            let val = *val;
            if val > 100f64 {
                return Err(FltF64LessOrEqualLitIntlitError::LessOrEqualViolated);
            }
            Ok(())
        }
    }
    impl FltF64LessOrEqualLitIntlit {
        #[inline]
        pub fn into_inner(self) -> f64 {
            self.0
        }
    }
    impl ::core::convert::AsRef<f64> for FltF64LessOrEqualLitIntlit {
        #[inline]
        fn as_ref(&self) -> &f64 {
            &self.0
        }
    }
    impl ::core::convert::From<FltF64LessOrEqualLitIntlit> for f64 {
        #[inline]
        fn from(value: FltF64LessOrEqualLitIntlit) -> Self {
            value.into_inner()
        }
    }
    impl ::core::ops::Deref for FltF64LessOrEqualLitIntlit {
        type Target = f64;
        #[inline]
        fn deref(&self) -> &Self::Target {
            &self.0
        }
    }
    impl ::core::convert::TryFrom<f64> for FltF64LessOrEqualLitIntlit {
        type Error = FltF64LessOrEqualLitIntlitError;
        #[inline]
        fn try_from(
            raw_value: f64,
        ) -> ::core::result::Result<FltF64LessOrEqualLitIntlit, Self::Error> {
            Self::try_new(raw_value)
        }
    }
    impl ::core::borrow::Borrow<f64> for FltF64LessOrEqualLitIntlit {
        #[inline]
        fn borrow(&self) -> &f64 {
            &self.0
        }
    }
    #[cfg(test)]
    mod tests {
        use super::*;
    }
}
pub use __nutype_FltF64LessOrEqualLitIntlit__::FltF64LessOrEqualLitIntlit;
pub use __nutype_FltF64LessOrEqualLitIntlit__::FltF64LessOrEqualLitIntlitError;
