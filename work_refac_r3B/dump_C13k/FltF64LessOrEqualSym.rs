// NUTYPE_VERIF_INPUT #[nutype(validate(less_or_equal = sym_hi_f64()), derive(Debug, Clone, Copy, PartialEq, PartialOrd, AsRef, Deref, Borrow, Into, TryFrom))] pub struct FltF64LessOrEqualSym(f64);
#[doc(hidden)]
#[allow(
    non_snake_case,
    reason = "we keep original structure name which is probably CamelCase"
)]
mod __nutype_FltF64LessOrEqualSym__ {
    use super::*;
    #[derive(Clone, PartialEq, Debug, Copy, PartialOrd)]
    pub struct FltF64LessOrEqualSym(f64);
    #[derive(Debug, Clone, PartialEq, Eq)]
    #[allow(clippy::enum_variant_names)]
    pub enum FltF64LessOrEqualSymError {
        LessOrEqualViolated,
    }
    impl ::core::fmt::Display for FltF64LessOrEqualSymError {
        fn fmt(&self, f: &mut ::core::fmt::Formatter<'_>) -> ::core::fmt::Result {
            match self {
                FltF64LessOrEqualSymError::LessOrEqualViolated => write!(
                    f,
                    "{} is too big. The value must be less than {:#?}.",
                    stringify!(FltF64LessOrEqualSym),
                    sym_hi_f64()
                ),
            }
        }
    }
    impl ::core::error::Error for FltF64LessOrEqualSymError {
        fn source(&self) -> Option<&(dyn ::core::error::Error + 'static)> {
            None
        }
    }
    impl FltF64LessOrEqualSym {
        pub fn try_new(raw_value: f64) -> ::core::result::Result<Self, FltF64LessOrEqualSymError> {
            let sanitized_value: f64 = Self::__sanitize__(raw_value);
            #[allow(clippy::question_mark)]
            if let Err(e) = Self::__validate__(&sanitized_value) {
                return Err(e);
            }
            Ok(FltF64LessOrEqualSym(sanitized_value))
        }
        fn __sanitize__(mut value: f64) -> f64 {
            value
        }
        fn __validate__(val: &f64) -> core::result::Result<(), FltF64LessOrEqualSymError> {
            let val = *val;
            if val > sym_hi_f64() {
                return Err(FltF64LessOrEqualSymError::LessOrEqualViolated);
            }
            Ok(())
        }
    }
    impl FltF64LessOrEqualSym {
        #[inline]
        pub fn into_inner(self) -> f64 {
            self.0
        }
    }
    impl ::core::convert::From<FltF64LessOrEqualSym> for f64 {
        #[inline]
        fn from(value: FltF64LessOrEqualSym) -> Self {
            value.into_inner()
        }
    }
    impl ::core::ops::Deref for FltF64LessOrEqualSym {
        type Target = f64;
        #[inline]
        fn deref(&self) -> &Self::Target {
            &self.0
        }
    }
    impl ::core::convert::AsRef<f64> for FltF64LessOrEqualSym {
        #[inline]
        fn as_ref(&self) -> &f64 {
            &self.0
        }
    }
    impl ::core::borrow::Borrow<f64> for FltF64LessOrEqualSym {
        #[inline]
        fn borrow(&self) -> &f64 {
            &self.0
        }
    }
    impl ::core::convert::TryFrom<f64> for FltF64LessOrEqualSym {
        type Error = FltF64LessOrEqualSymError;
        #[inline]
        fn try_from(raw_value: f64) -> ::core::result::Result<FltF64LessOrEqualSym, Self::Error> {
            Self::try_new(raw_value)
        }
    }
    #[cfg(test)]
    mod tests {
        use super::*;
    }
}
pub use __nutype_FltF64LessOrEqualSym__::FltF64LessOrEqualSym;
pub use __nutype_FltF64LessOrEqualSym__::FltF64LessOrEqualSymError;
