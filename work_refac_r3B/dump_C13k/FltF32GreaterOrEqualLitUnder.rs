// NUTYPE_VERIF_INPUT #[nutype(validate(greater_or_equal = 1_000.5), derive(Debug, Clone, Copy, PartialEq, PartialOrd, AsRef, Deref, Borrow, Into, TryFrom))] pub struct FltF32GreaterOrEqualLitUnder(f32);
#[doc(hidden)]
#[allow(
    non_snake_case,
    reason = "we keep original structure name which is probably CamelCase"
)]
mod __nutype_FltF32GreaterOrEqualLitUnder__ {
    use super::*;
    #[derive(Clone, Debug, Copy, PartialOrd, PartialEq)]
    pub struct FltF32GreaterOrEqualLitUnder(f32);
    #[derive(Debug, Clone, PartialEq, Eq)]
    #[allow(clippy::enum_variant_names)]
    pub enum FltF32GreaterOrEqualLitUnderError {
        GreaterOrEqualViolated,
    }
    impl ::core::fmt::Display for FltF32GreaterOrEqualLitUnderError {
        fn fmt(&self, f: &mut ::core::fmt::Formatter<'_>) -> ::core::fmt::Result {
            match self {
                FltF32GreaterOrEqualLitUnderError::GreaterOrEqualViolated => write!(
                    f,
                    "{} is too small. The value must be greater or equal to {:#?}.",
                    stringify!(FltF32GreaterOrEqualLitUnder),
                    1000.5f32
                ),
            }
        }
    }
    impl ::core::error::Error for FltF32GreaterOrEqualLitUnderError {
        fn source(&self) -> Option<&(dyn ::core::error::Error + 'static)> {
            None
        }
    }
    impl FltF32GreaterOrEqualLitUnder {
        pub fn try_new(
            raw_value: f32,
        ) -> ::core::result::Result<Self, FltF32GreaterOrEqualLitUnderError> {
            let sanitized_value: f32 = Self::__sanitize__(raw_value);
            #[allow(clippy::question_mark)]
            if let Err(e) = Self::__validate__(&sanitized_value) {
                return Err(e);
            }
            Ok(FltF32GreaterOrEqualLitUnder(sanitized_value))
        }
        fn __sanitize__(mut value: f32) -> f32 {
            value
        }
        fn __validate__(val: &f32) -> core::result::Result<(), FltF32GreaterOrEqualLitUnderError> {
            let val = *val;
            if val < 1000.5f32 {
                return Err(FltF32GreaterOrEqualLitUnderError::GreaterOrEqualViolated);
            }
            Ok(())
        }
    }
    impl FltF32GreaterOrEqualLitUnder {
        #[inline]
        pub fn into_inner(self) -> f32 {
            self.0
        }
    }
    impl ::core::convert::AsRef<f32> for FltF32GreaterOrEqualLitUnder {
        #[inline]
        fn as_ref(&self) -> &f32 {
            &self.0
        }
    }
    impl ::core::convert::From<FltF32GreaterOrEqualLitUnder> for f32 {
        #[inline]
        fn from(value: FltF32GreaterOrEqualLitUnder) -> Self {
            value.into_inner()
        }
    }
    impl ::core::borrow::Borrow<f32> for FltF32GreaterOrEqualLitUnder {
        #[inline]
        fn borrow(&self) -> &f32 {
            &self.0
        }
    }
    impl ::core::convert::TryFrom<f32> for FltF32GreaterOrEqualLitUnder {
        type Error = FltF32GreaterOrEqualLitUnderError;
        #[inline]
        fn try_from(
            raw_value: f32,
        ) -> ::core::result::Result<FltF32GreaterOrEqualLitUnder, Self::Error> {
            Self::try_new(raw_value)
        }
    }
    impl ::core::ops::Deref for FltF32GreaterOrEqualLitUnder {
        type Target = f32;
        #[inline]
        fn deref(&self) -> &Self::Target {
            &self.0
        }
    }
    #[cfg(test)]
    mod tests {
        use super::*;
    }
}
pub use __nutype_FltF32GreaterOrEqualLitUnder__::FltF32GreaterOrEqualLitUnder;
pub use __nutype_FltF32GreaterOrEqualLitUnder__::FltF32GreaterOrEqualLitUnderError;
