// NUTYPE_VERIF_INPUT #[nutype(validate(less_or_equal = -2.5), derive(Debug, Clone, Copy, PartialEq, PartialOrd, AsRef, Deref, Borrow, Into, TryFrom))] pub struct FltF32LessOrEqualLitNeg(f32);
#[doc(hidden)]
#[allow(
    non_snake_case,
    reason = "we keep original structure name which is probably CamelCase"
)]
mod __nutype_FltF32LessOrEqualLitNeg__ {
    use super::*;
    #[derive(Copy, Clone, PartialEq, PartialOrd, Debug)]
    pub struct FltF32LessOrEqualLitNeg(f32);
    #[derive(Debug, Clone, PartialEq, Eq)]
    #[allow(clippy::enum_variant_names)]
    pub enum FltF32LessOrEqualLitNegError {
        LessOrEqualViolated,
    }
    impl ::core::fmt::Display for FltF32LessOrEqualLitNegError {
        fn fmt(&self, f: &mut ::core::fmt::Formatter<'_>) -> ::core::fmt::Result {
            match self {
                FltF32LessOrEqualLitNegError::LessOrEqualViolated => write!(
                    f,
                    "{} is too big. The value must be less than {:#?}.",
                    stringify!(FltF32LessOrEqualLitNeg),
                    -2.5f32
                ),
            }
        }
    }
    impl ::core::error::Error for FltF32LessOrEqualLitNegError {
        fn source(&self) -> Option<&(dyn ::core::error::Error + 'static)> {
            None
        }
    }
    impl FltF32LessOrEqualLitNeg {
        pub fn try_new(
            raw_value: f32,
        ) -> ::core::result::Result<Self, FltF32LessOrEqualLitNegError> {
            let sanitized_value: f32 = Self::__sanitize__(raw_value);
            #[allow(clippy::question_mark)]
            if let Err(e) = Self::__validate__(&sanitized_value) {
                return Err(e);
            }
            Ok(FltF32LessOrEqualLitNeg(sanitized_value))
        }
        fn __sanitize__(mut value: f32) -> f32 {
            value
        }
        fn __validate__(val: &f32) -> core::result::Result<(), FltF32LessOrEqualLitNegError> {
            let val = *val;
            if val > -2.5f32 {
                return Err(FltF32LessOrEqualLitNegError::LessOrEqualViolated);
            }
            Ok(())
        }
    }
    impl FltF32LessOrEqualLitNeg {
        #[inline]
        pub fn into_inner(self) -> f32 {
            self.0
        }
    }
    impl ::core::borrow::Borrow<f32> for FltF32LessOrEqualLitNeg {
        #[inline]
        fn borrow(&self) -> &f32 {
            &self.0
        }
    }
    impl ::core::convert::From<FltF32LessOrEqualLitNeg> for f32 {
        #[inline]
        fn from(value: FltF32LessOrEqualLitNeg) -> Self {
            value.into_inner()
        }
    }
    impl ::core::ops::Deref for FltF32LessOrEqualLitNeg {
        type Target = f32;
        #[inline]
        fn deref(&self) -> &Self::Target {
            &self.0
        }
    }
    impl ::core::convert::AsRef<f32> for FltF32LessOrEqualLitNeg {
        #[inline]
        fn as_ref(&self) -> &f32 {
            &self.0
        }
    }
    impl ::core::convert::TryFrom<f32> for FltF32LessOrEqualLitNeg {
        type Error = FltF32LessOrEqualLitNegError;
        #[inline]
        fn try_from(
            raw_value: f32,
        ) -> ::core::result::Result<FltF32LessOrEqualLitNeg, Self::Error> {
            Self::try_new(raw_value)
        }
    }
    #[cfg(test)]
    mod tests {
        use super::*;
    }
}
pub use __nutype_FltF32LessOrEqualLitNeg__::FltF32LessOrEqualLitNeg;
pub use __nutype_FltF32LessOrEqualLitNeg__::FltF32LessOrEqualLitNegError;
