// NUTYPE_VERIF_INPUT #[nutype(validate(less_or_equal = -2.5), derive(Debug, Clone, Copy, PartialEq, PartialOrd, AsRef, Deref, Borrow, Into, TryFrom))] pub struct FltF64LessOrEqualLitNeg(f64);
#[doc(hidden)]
#[allow(
    non_snake_case,
    reason = "we keep original structure name which is probably CamelCase"
)]
mod __nutype_FltF64LessOrEqualLitNeg__ {
    use super::*;
    #[derive(PartialEq, PartialOrd, Clone, Debug, Copy)]
    pub struct FltF64LessOrEqualLitNeg(f64);
    #[derive(Debug, Clone, PartialEq, Eq)]
    #[allow(clippy::enum_variant_names)]
    pub enum FltF64LessOrEqualLitNegError {
        LessOrEqualViolated,
    }
    impl ::core::fmt::Display for FltF64LessOrEqualLitNegError {
        fn fmt(&self, f: &mut ::core::fmt::Formatter<'_>) -> ::core::fmt::Result {
            match self {
                FltF64LessOrEqualLitNegError::LessOrEqualViolated => write!(
                    f,
                    "{} is too big. The value must be less than {:#?}.",
                    stringify!(FltF64LessOrEqualLitNeg),
                    -2.5f64
                ),
            }
        }
    }
    impl ::core::error::Error for FltF64LessOrEqualLitNegError {
        fn source(&self) -> Option<&(dyn ::core::error::Error + 'static)> {
            None
        }
    }
    impl FltF64LessOrEqualLitNeg {
        pub fn try_new(
            raw_value: f64,
        ) -> ::core::result::Result<Self, FltF64LessOrEqualLitNegError> {
            let sanitized_value: f64 = Self::__sanitize__(raw_value);
            #[allow(clippy::question_mark)]
            if let Err(e) = Self::__validate__(&sanitized_value) {
                return Err(e);
            }
            Ok(FltF64LessOrEqualLitNeg(sanitized_value))
        }
        fn __sanitize__(mut value: f64) -> f64 {
            value
        }
        fn __validate__(val: &f64) -> core::result::Result<(), FltF64LessOrEqualLitNegError> {
            let val = *val;
            if val > -2.5f64 {
                return Err(FltF64LessOrEqualLitNegError::LessOrEqualViolated);
            }
            Ok(())
        }
    }
    impl FltF64LessOrEqualLitNeg {
        #[inline]
        pub fn into_inner(self) -> f64 {
            self.0
        }
    }
    impl ::core::ops::Deref for FltF64LessOrEqualLitNeg {
        type Target = f64;
        #[inline]
        fn deref(&self) -> &Self::Target {
            &self.0
        }
    }
    impl ::core::borrow::Borrow<f64> for FltF64LessOrEqualLitNeg {
        #[inline]
        fn borrow(&self) -> &f64 {
            &self.0
        }
    }
    impl ::core::convert::TryFrom<f64> for FltF64LessOrEqualLitNeg {
        type Error = FltF64LessOrEqualLitNegError;
        #[inline]
        fn try_from(
            raw_value: f64,
        ) -> ::core::result::Result<FltF64LessOrEqualLitNeg, Self::Error> {
            Self::try_new(raw_value)
        }
    }
    impl ::core::convert::From<FltF64LessOrEqualLitNeg> for f64 {
        #[inline]
        fn from(value: FltF64LessOrEqualLitNeg) -> Self {
            value.into_inner()
        }
    }
    impl ::core::convert::AsRef<f64> for FltF64LessOrEqualLitNeg {
        #[inline]
        fn as_ref(&self) -> &f64 {
            &self.0
        }
    }
    #[cfg(test)]
    mod tests {
        use super::*;
    }
}
pub use __nutype_FltF64LessOrEqualLitNeg__::FltF64LessOrEqualLitNeg;
pub use __nutype_FltF64LessOrEqualLitNeg__::FltF64LessOrEqualLitNegError;
