// NUTYPE_VERIF_INPUT #[nutype(validate(greater = -0.0), derive(Debug, Clone, Copy, PartialEq, PartialOrd, AsRef, Deref, Borrow, Into, TryFrom))] pub struct FltF64GreaterLitNegzero(f64);
#[doc(hidden)]
#[allow(
    non_snake_case,
    reason = "we keep original structure name which is probably CamelCase"
)]
mod __nutype_FltF64GreaterLitNegzero__ {
    use super::*;
    #[derive(Debug, PartialOrd, Clone, Copy, PartialEq)]
    pub struct FltF64GreaterLitNegzero(f64);
    #[derive(Debug, Clone, PartialEq, Eq)]
    #[allow(clippy::enum_variant_names)]
    pub enum FltF64GreaterLitNegzeroError {
        GreaterViolated,
    }
    impl ::core::fmt::Display for FltF64GreaterLitNegzeroError {
        fn fmt(&self, f: &mut ::core::fmt::Formatter<'_>) -> ::core::fmt::Result {
            match self {
                FltF64GreaterLitNegzeroError::GreaterViolated => write!(
                    f,
                    "{} is too small. The value must be greater than {:#?}.",
                    stringify!(FltF64GreaterLitNegzero),
                    -0f64
                ),
            }
        }
    }
    impl ::core::error::Error for FltF64GreaterLitNegzeroError {
        fn source(&self) -> Option<&(dyn ::core::error::Error + 'static)> {
            None
        }
    }
    impl FltF64GreaterLitNegzero {
        pub fn try_new(
            raw_value: f64,
        ) -> ::core::result::Result<Self, FltF64GreaterLitNegzeroError> {
            let sanitized_value: f64 = Self::__sanitize__(raw_value);
            #[allow(clippy::question_mark)]
            if let Err(e) = Self::__validate__(&sanitized_value) {
                return Err(e);
            }
            Ok(FltF64GreaterLitNegzero(sanitized_value))
        }
        fn __sanitize__(mut value: f64) -> f64 {
            value
        }
        fn __validate__(val: &f64) -> core::result::Result<(), FltF64GreaterLitNegzeroError> {
            let val = *val;
            if val <= -0f64 {
                return Err(FltF64GreaterLitNegzeroError::GreaterViolated);
            }
            Ok(())
        }
    }
    impl FltF64GreaterLitNegzero {
        #[inline]
        pub fn into_inner(self) -> f64 {
            self.0
        }
    }
    impl ::core::ops::Deref for FltF64GreaterLitNegzero {
        type Target = f64;
        #[inline]
        fn deref(&self) -> &Self::Target {
            &self.0
        }
    }
    impl ::core::convert::TryFrom<f64> for FltF64GreaterLitNegzero {
        type Error = FltF64GreaterLitNegzeroError;
        #[inline]
        fn try_from(
            raw_value: f64,
        ) -> ::core::result::Result<FltF64GreaterLitNegzero, Self::Error> {
            Self::try_new(raw_value)
        }
    }
    impl ::core::borrow::Borrow<f64> for FltF64GreaterLitNegzero {
        #[inline]
        fn borrow(&self) -> &f64 {
            &self.0
        }
    }
    impl ::core::convert::From<FltF64GreaterLitNegzero> for f64 {
        #[inline]
        fn from(value: FltF64GreaterLitNegzero) -> Self {
            value.into_inner()
        }
    }
    impl ::core::convert::AsRef<f64> for FltF64GreaterLitNegzero {
        #[inline]
        fn as_ref(&self) -> &f64 {
            &self.0
        }
    }
    #[cfg(test)]
    mod tests {
        use super::*;
    }
}
pub use __nutype_FltF64GreaterLitNegzero__::FltF64GreaterLitNegzero;
pub use __nutype_FltF64GreaterLitNegzero__::FltF64GreaterLitNegzeroError;
