// NUTYPE_VERIF_INPUT #[nutype(validate(less = sym_hi_f32()), derive(Debug, Clone, Copy, PartialEq, PartialOrd, AsRef, Deref, Borrow, Into, TryFrom))] pub struct FltF32LessSym(f32);
#[doc(hidden)]
#[allow(
    non_snake_case,
    reason = "we keep original structure name which is probably CamelCase"
)]
mod __nutype_FltF32LessSym__ {
    use super::*;
    #[derive(PartialOrd, Copy, PartialEq, Debug, Clone)]
    pub struct FltF32LessSym(f32);
    #[derive(Debug, Clone, PartialEq, Eq)]
    #[allow(clippy::enum_variant_names)]
    pub enum FltF32LessSymError {
        LessViolated,
    }
    impl ::core::fmt::Display for FltF32LessSymError {
        fn fmt(&self, f: &mut ::core::fmt::Formatter<'_>) -> ::core::fmt::Result {
            match self {
                FltF32LessSymError::LessViolated => write!(
                    f,
                    "{} is too big. The value must be less than {:#?}.",
                    stringify!(FltF32LessSym),
                    sym_hi_f32()
                ),
            }
        }
    }
    impl ::core::error::Error for FltF32LessSymError {
        fn source(&self) -> Option<&(dyn ::core::error::Error + 'static)> {
            None
        }
    }
    impl FltF32LessSym {
        pub fn try_new(raw_value: f32) -> ::core::result::Result<Self, FltF32LessSymError> {
            let sanitized_value: f32 = Self::__sanitize__(raw_value);
            #[allow(clippy::question_mark)]
            if let Err(e) = Self::__validate__(&sanitized_value) {
                return Err(e);
            }
            Ok(FltF32LessSym(sanitized_value))
        }
        fn __sanitize__(mut value: f32) -> f32 {
            value
        }
        fn __validate__(val: &f32) -> core::result::Result<(), FltF32LessSymError> {
            let val = *val;
            if val >= sym_hi_f32() {
                return Err(FltF32LessSymError::LessViolated);
            }
            Ok(())
        }
    }
    impl FltF32LessSym {
        #[inline]
        pub fn into_inner(self) -> f32 {
            self.0
        }
    }
    impl ::core::convert::AsRef<f32> for FltF32LessSym {
        #[inline]
        fn as_ref(&self) -> &f32 {
            &self.0
        }
    }
    impl ::core::convert::From<FltF32LessSym> for f32 {
        #[inline]
        fn from(value: FltF32LessSym) -> Self {
            value.into_inner()
        }
    }
    impl ::core::ops::Deref for FltF32LessSym {
        type Target = f32;
        #[inline]
        fn deref(&self) -> &Self::Target {
            &self.0
        }
    }
    impl ::core::borrow::Borrow<f32> for FltF32LessSym {
        #[inline]
        fn borrow(&self) -> &f32 {
            &self.0
        }
    }
    impl ::core::convert::TryFrom<f32> for FltF32LessSym {
        type Error = FltF32LessSymError;
        #[inline]
        fn try_from(raw_value: f32) -> ::core::result::Result<FltF32LessSym, Self::Error> {
            Self::try_new(raw_value)
        }
    }
    #[cfg(test)]
    mod tests {
        use super::*;
    }
}
pub use __nutype_FltF32LessSym__::FltF32LessSym;
pub use __nutype_FltF32LessSym__::FltF32LessSymError;
