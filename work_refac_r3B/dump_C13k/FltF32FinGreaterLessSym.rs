// NUTYPE_VERIF_INPUT #[nutype(validate(finite, greater = sym_lo_f32(), less = sym_hi_f32()), derive(Debug, Clone, Copy, PartialEq, PartialOrd, AsRef, Deref, Borrow, Into, TryFrom, Eq, Ord))] pub struct FltF32FinGreaterLessSym(f32);
#[doc(hidden)]
#[allow(
    non_snake_case,
    reason = "we keep original structure name which is probably CamelCase"
)]
mod __nutype_FltF32FinGreaterLessSym__ {
    use super::*;
    #[derive(Debug, PartialEq, PartialOrd, Copy, Clone)]
    pub struct FltF32FinGreaterLessSym(f32);
    #[derive(Debug, Clone, PartialEq, Eq)]
    #[allow(clippy::enum_variant_names)]
    pub enum FltF32FinGreaterLessSymError {
        FiniteViolated,
        GreaterViolated,
        LessViolated,
    }
    impl ::core::fmt::Display for FltF32FinGreaterLessSymError {
        fn fmt(&self, f: &mut ::core::fmt::Formatter<'_>) -> ::core::fmt::Result {
            match self {
                FltF32FinGreaterLessSymError::FiniteViolated => {
                    write!(f, "{} is not finite.", stringify!(FltF32FinGreaterLessSym))
                }
                FltF32FinGreaterLessSymError::GreaterViolated => write!(
                    f,
                    "{} is too small. The value must be greater than {:#?}.",
                    stringify!(FltF32FinGreaterLessSym),
                    sym_lo_f32()
                ),
                FltF32FinGreaterLessSymError::LessViolated => write!(
                    f,
                    "{} is too big. The value must be less than {:#?}.",
                    stringify!(FltF32FinGreaterLessSym),
                    sym_hi_f32()
                ),
            }
        }
    }
    impl ::core::error::Error for FltF32FinGreaterLessSymError {
        fn source(&self) -> Option<&(dyn ::core::error::Error + 'static)> {
            None
        }
    }
    impl FltF32FinGreaterLessSym {
        pub fn try_new(
            raw_value: f32,
        ) -> ::core::result::Result<Self, FltF32FinGreaterLessSymError> {
            let sanitized_value: f32 = Self::__sanitize__(raw_value);
            #[allow(clippy::question_mark)]
            if let Err(e) = Self::__validate__(&sanitized_value) {
                return Err(e);
            }
            Ok(FltF32FinGreaterLessSym(sanitized_value))
        }
        fn __sanitize__(mut value: f32) -> f32 {
            value
        }
        fn __validate__(val: &f32) -> core::result::Result<(), FltF32FinGreaterLessSymError> {
            let val = *val;
            if !val.is_finite() {
                return Err(FltF32FinGreaterLessSymError::FiniteViolated);
            }
            if val <= sym_lo_f32() {
                return Err(FltF32FinGreaterLessSymError::GreaterViolated);
            }
            if val >= sym_hi_f32() {
                return Err(FltF32FinGreaterLessSymError::LessViolated);
            }
            Ok(())
        }
    }
    impl FltF32FinGreaterLessSym {
        #[inline]
        pub fn into_inner(self) -> f32 {
            self.0
        }
    }
    impl ::core::convert::TryFrom<f32> for FltF32FinGreaterLessSym {
        type Error = FltF32FinGreaterLessSymError;
        #[inline]
        fn try_from(
            raw_value: f32,
        ) -> ::core::result::Result<FltF32FinGreaterLessSym, Self::Error> {
            Self::try_new(raw_value)
        }
    }
    impl ::core::cmp::Eq for FltF32FinGreaterLessSym {}
    #[allow(clippy::derive_ord_xor_partial_ord)]
    impl ::core::cmp::Ord for FltF32FinGreaterLessSym {
        fn cmp(&self, other: &Self) -> ::core::cmp::Ordering {
            self.partial_cmp(other).unwrap_or_else(||
            {
                let tp = "FltF32FinGreaterLessSym"; panic!
                ("{tp}::cmp() panicked, because partial_cmp() returned None. Could it be that you're using unsafe {tp}::new_unchecked() ?",
                tp = tp);
            })
        }
    }
    impl ::core::borrow::Borrow<f32> for FltF32FinGreaterLessSym {
        #[inline]
        fn borrow(&self) -> &f32 {
            &self.0
        }
    }
    impl ::core::ops::Deref for FltF32FinGreaterLessSym {
        type Target = f32;
        #[inline]
        fn deref(&self) -> &Self::Target {
            &self.0
        }
    }
    impl ::core::convert::From<FltF32FinGreaterLessSym> for f32 {
        #[inline]
        fn from(value: FltF32FinGreaterLessSym) -> Self {
            value.into_inner()
        }
    }
    impl ::core::convert::AsRef<f32> for FltF32FinGreaterLessSym {
        #[inline]
        fn as_ref(&self) -> &f32 {
            &self.0
        }
    }
    #[cfg(test)]
    mod tests {
        use super::*;
        #[test]
        fn should_have_consistent_lower_and_upper_boundaries() {
            assert!
            (sym_hi_f32() >= sym_lo_f32(),
            "\nInconsistent lower and upper boundaries for type `FltF32FinGreaterLessSym`\nThe upper boundary `sym_hi_f32()` must be greater than or equal to the lower boundary `sym_lo_f32()`\nNote: the test is generated automatically by #[nutype] macro.\n");
        }
    }
}
pub use __nutype_FltF32FinGreaterLessSym__::FltF32FinGreaterLessSym;
pub use __nutype_FltF32FinGreaterLessSym__::FltF32FinGreaterLessSymError;
