// NUTYPE_VERIF_INPUT #[nutype(sanitize(with = san_arr), validate(predicate = pred_arr), derive(Debug, IntoIterator))] pub struct IterArrSanPred([i32; 3]);
#[doc(hidden)]
#[allow(
    non_snake_case,
    reason = "we keep original structure name which is probably CamelCase"
)]
mod __nutype_IterArrSanPred__ {
    use super::*;
    #[derive(Debug)]
    pub struct IterArrSanPred([i32; 3]);
    #[derive(Debug, Clone, PartialEq, Eq)]
    #[allow(clippy::enum_variant_names)]
    pub enum IterArrSanPredError {
        PredicateViolated,
    }
    impl ::core::fmt::Display for IterArrSanPredError {
        fn fmt(&self, f: &mut ::core::fmt::Formatter<'_>) -> ::core::fmt::Result {
            match self {
                IterArrSanPredError::PredicateViolated => write!(
                    f,
                    "{} failed the predicate test.",
                    stringify!(IterArrSanPred)
                ),
            }
        }
    }
    impl ::core::error::Error for IterArrSanPredError {
        fn source(&self) -> Option<&(dyn ::core::error::Error + 'static)> {
            None
        }
    }
    impl IterArrSanPred {
        pub fn try_new(raw_value: [i32; 3]) -> ::core::result::Result<Self, IterArrSanPredError> {
            let sanitized_value: [i32; 3] = Self::__sanitize__(raw_value);
            #[allow(clippy::question_mark)]
            if let Err(e) = Self::__validate__(&sanitized_value) {
                return Err(e);
            }
            Ok(IterArrSanPred(sanitized_value))
        }
        fn __sanitize__(mut value: [i32; 3]) -> [i32; 3] {
            value = (san_arr)(value);
            value
        }
        #[allow(clippy::ptr_arg)]
        fn __validate__<'nutype_a>(
            val: &'nutype_a [i32; 3],
        ) -> ::core::result::Result<(), IterArrSanPredError> {
            if !(pred_arr)(val) {
                return Err(IterArrSanPredError::PredicateViolated);
            }
            Ok(())
        }
    }
    impl IterArrSanPred {
        #[inline]
        pub fn into_inner(self) -> [i32; 3] {
            self.0
        }
    }
    impl ::core::iter::IntoIterator for IterArrSanPred {
        type Item = <[i32; 3] as ::core::iter::IntoIterator>::Item;
        type IntoIter = <[i32; 3] as ::core::iter::IntoIterator>::IntoIter;
        fn into_iter(self) -> Self::IntoIter {
            self.0.into_iter()
        }
    }
    impl<'__nutype_iter> ::core::iter::IntoIterator for &'__nutype_iter IterArrSanPred {
        type Item = <&'__nutype_iter [i32; 3] as ::core::iter::IntoIterator>::Item;
        type IntoIter = <&'__nutype_iter [i32; 3] as ::core::iter::IntoIterator>::IntoIter;
        fn into_iter(self) -> Self::IntoIter {
            self.0.iter().into_iter()
        }
    }
    #[cfg(test)]
    mod tests {
        use super::*;
    }
}
pub use __nutype_IterArrSanPred__::IterArrSanPred;
pub use __nutype_IterArrSanPred__::IterArrSanPredError;
