// NUTYPE_VERIF_INPUT #[nutype(validate(finite, greater = sym_lo_f32(), less_or_equal = sym_hi_f32()), derive(Debug, Clone, Copy, PartialEq, PartialOrd, AsRef, Deref, Borrow, Into, TryFrom, Eq, Ord))] pub struct FltF32FinGreaterLessOrEqualSym(f32);
#[doc(hidden)]
#[allow(
    non_snake_case,
    reason = "we keep original structure name which is probably CamelCase"
)]
mod __nutype_FltF32FinGreaterLessOrEqualSym__ {
    use super::*;
    #[derive(PartialOrd, PartialEq, Copy, Clone, Debug)]
    pub struct FltF32FinGreaterLessOrEqualSym(f32);
    #[derive(Debug, Clone, PartialEq, Eq)]
    #[allow(clippy::enum_variant_names)]
    pub enum FltF32FinGreaterLessOrEqualSymError {
        FiniteViolated,
        GreaterViolated,
        LessOrEqualViolated,
    }
    impl ::core::fmt::Display for FltF32FinGreaterLessOrEqualSymError {
        fn fmt(&self, f: &mut ::core::fmt::Formatter<'_>) -> ::core::fmt::Result {
            match self {
                FltF32FinGreaterLessOrEqualSymError::FiniteViolated => write!(
                    f,
                    "{} is not finite.",
                    stringify!(FltF32FinGreaterLessOrEqualSym)
                ),
                FltF32FinGreaterLessOrEqualSymError::GreaterViolated => write!(
                    f,
                    "{} is too small. The value must be greater than {:#?}.",
                    stringify!(FltF32FinGreaterLessOrEqualSym),
                    sym_lo_f32()
                ),
                FltF32FinGreaterLessOrEqualSymError::LessOrEqualViolated => write!(
                    f,
                    "{} is too big. The value must be less than {:#?}.",
                    stringify!(FltF32FinGreaterLessOrEqualSym),
                    sym_hi_f32()
                ),
            }
        }
    }
    impl ::core::error::Error for FltF32FinGreaterLessOrEqualSymError {
        fn source(&self) -> Option<&(dyn ::core::error::Error + 'static)> {
            None
        }
    }
    impl FltF32FinGreaterLessOrEqualSym {
        pub fn try_new(
            raw_value: f32,
        ) -> ::core::result::Result<Self, FltF32FinGreaterLessOrEqualSymError> {
            let sanitized_value: f32 = Self::__sanitize__(raw_value);
            #[allow(clippy::question_mark)]
            if let Err(e) = Self::__validate__(&sanitized_value) {
                return Err(e);
            }
            Ok(FltF32FinGreaterLessOrEqualSym(sanitized_value))
        }
        fn __sanitize__(mut value: f32) -> f32 {
            value
        }
        fn __validate__(
            val: &f32,
        ) -> core::result::Result<(), FltF32FinGreaterLessOrEqualSymError> {
            let val = *val;
            if !val.is_finite() {
                return Err(FltF32FinGreaterLessOrEqualSymError::FiniteViolated);
            }
            if val <= sym_lo_f32() {
                return Err(FltF32FinGreaterLessOrEqualSymError::GreaterViolated);
            }
            if val > sym_hi_f32() {
                return Err(FltF32FinGreaterLessOrEqualSymError::LessOrEqualViolated);
            }
            Ok(())
        }
    }
    impl FltF32FinGreaterLessOrEqualSym {
        #[inline]
        pub fn into_inner(self) -> f32 {
            self.0
        }
    }
    impl ::core::convert::TryFrom<f32> for FltF32FinGreaterLessOrEqualSym {
        type Error = FltF32FinGreaterLessOrEqualSymError;
        #[inline]
        fn try_from(
            raw_value: f32,
        ) -> ::core::result::Result<FltF32FinGreaterLessOrEqualSym, Self::Error> {
            Self::try_new(raw_value)
        }
    }
    impl ::core::ops::Deref for FltF32FinGreaterLessOrEqualSym {
        type Target = f32;
        #[inline]
        fn deref(&self) -> &Self::Target {
            &self.0
        }
    }
    impl ::core::cmp::Eq for FltF32FinGreaterLessOrEqualSym {}
    impl ::core::convert::From<FltF32FinGreaterLessOrEqualSym> for f32 {
        #[inline]
        fn from(value: FltF32FinGreaterLessOrEqualSym) -> Self {
            value.into_inner()
        }
    }
    impl ::core::convert::AsRef<f32> for FltF32FinGreaterLessOrEqualSym {
        #[inline]
        fn as_ref(&self) -> &f32 {
            &self.0
        }
    }
    impl ::core::borrow::Borrow<f32> for FltF32FinGreaterLessOrEqualSym {
        #[inline]
        fn borrow(&self) -> &f32 {
            &self.0
        }
    }
    #[allow(clippy::derive_ord_xor_partial_ord)]
    impl ::core::cmp::Ord for FltF32FinGreaterLessOrEqualSym {
        fn cmp(&self, other: &Self) -> ::core::cmp::Ordering {
            self.partial_cmp(other).unwrap_or_else(||
            {
                let tp = "FltF32FinGreaterLessOrEqualSym"; panic!
                ("{tp}::cmp() panicked, because partial_cmp() returned None. Could it be that you're using unsafe {tp}::new_unchecked() ?",
                tp = tp);
            })
        }
    }
    #[cfg(test)]
    mod tests {
        use super::*;
        #[test]
        fn should_have_consistent_lower_and_upper_boundaries() {
            assert!
            (sym_hi_f32() >= sym_lo_f32(),
            "\nInconsistent lower and upper boundaries for type `FltF32FinGreaterLessOrEqualSym`\nThe upper boundary `sym_hi_f32()` must be greater than or equal to the lower boundary `sym_lo_f32()`\nNote: the test is generated automatically by #[nutype] macro.\n");
        }
    }
}
pub use __nutype_FltF32FinGreaterLessOrEqualSym__::FltF32FinGreaterLessOrEqualSym;
pub use __nutype_FltF32FinGreaterLessOrEqualSym__::FltF32FinGreaterLessOrEqualSymError;
