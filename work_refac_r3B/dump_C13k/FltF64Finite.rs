// NUTYPE_VERIF_INPUT #[nutype(validate(finite), derive(Debug, Clone, Copy, PartialEq, PartialOrd, AsRef, Deref, Borrow, Into, TryFrom, Eq, Ord))] pub struct FltF64Finite(f64);
#[doc(hidden)]
#[allow(
    non_snake_case,
    reason = "we keep original structure name which is probably CamelCase"
)]
mod __nutype_FltF64Finite__ {
    use super::*;
    #[derive(PartialOrd, Clone, Copy, PartialEq, Debug)]
    pub struct FltF64Finite(f64);
    #[derive(Debug, Clone, PartialEq, Eq)]
    #[allow(clippy::enum_variant_names)]
    pub enum FltF64FiniteError {
        FiniteViolated,
    }
    impl ::core::fmt::Display for FltF64FiniteError {
        fn fmt(&self, f: &mut ::core::fmt::Formatter<'_>) -> ::core::fmt::Result {
            match self {
                FltF64FiniteError::FiniteViolated => {
                    write!(f, "{} is not finite.", stringify!(FltF64Finite))
                }
            }
        }
    }
    impl ::core::error::Error for FltF64FiniteError {
        fn source(&self) -> Option<&(dyn ::core::error::Error + 'static)> {
            None
        }
    }
    impl FltF64Finite {
        pub fn try_new(raw_value: f64) -> ::core::result::Result<Self, FltF64FiniteError> {
            let sanitized_value: f64 = Self::__sanitize__(raw_value);
            #[allow(clippy::question_mark)]
            if let Err(e) = Self::__validate__(&sanitized_value) {
                return Err(e);
            }
            Ok(FltF64Finite(sanitized_value))
        }
        fn __sanitize__(mut value: f64) -> f64 {
            value
        }
        fn __validate__(val: &f64) -> core::result::Result<(), FltF64FiniteError> {
            let val = *val;
            if !val.is_finite() {
                return Err(FltF64FiniteError::FiniteViolated);
            }
            Ok(())
        }
    }
    impl FltF64Finite {
        #[inline]
        pub fn into_inner(self) -> f64 {
            self.0
        }
    }
    impl ::core::convert::AsRef<f64> for FltF64Finite {
        #[inline]
        fn as_ref(&self) -> &f64 {
            &self.0
        }
    }
    impl ::core::ops::Deref for FltF64Finite {
        type Target = f64;
        #[inline]
        fn deref(&self) -> &Self::Target {
            &self.0
        }
    }
    impl ::core::borrow::Borrow<f64> for FltF64Finite {
        #[inline]
        fn borrow(&self) -> &f64 {
            &self.0
        }
    }
    #[allow(clippy::derive_ord_xor_partial_ord)]
    impl ::core::cmp::Ord for FltF64Finite {
        fn cmp(&self, other: &Self) -> ::core::cmp::Ordering {
            self.partial_cmp(other).unwrap_or_else(||
            {
                let tp = "FltF64Finite"; panic!
                ("{tp}::cmp() panicked, because partial_cmp() returned None. Could it be that you're using unsafe {tp}::new_unchecked() ?",
                tp = tp);
            })
        }
    }
    impl ::core::cmp::Eq for FltF64Finite {}
    impl ::core::convert::TryFrom<f64> for FltF64Finite {
        type Error = FltF64FiniteError;
        #[inline]
        fn try_from(raw_value: f64) -> ::core::result::Result<FltF64Finite, Self::Error> {
            Self::try_new(raw_value)
        }
    }
    impl ::core::convert::From<FltF64Finite> for f64 {
        #[inline]
        fn from(value: FltF64Finite) -> Self {
            value.into_inner()
        }
    }
    #[cfg(test)]
    mod tests {
        use super::*;
    }
}
pub use __nutype_FltF64Finite__::FltF64Finite;
pub use __nutype_FltF64Finite__::FltF64FiniteError;
