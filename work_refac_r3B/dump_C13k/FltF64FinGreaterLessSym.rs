// NUTYPE_VERIF_INPUT #[nutype(validate(finite, greater = sym_lo_f64(), less = sym_hi_f64()), derive(Debug, Clone, Copy, PartialEq, PartialOrd, AsRef, Deref, Borrow, Into, TryFrom, Eq, Ord))] pub struct FltF64FinGreaterLessSym(f64);
#[doc(hidden)]
#[allow(
    non_snake_case,
    reason = "we keep original structure name which is probably CamelCase"
)]
mod __nutype_FltF64FinGreaterLessSym__ {
    use super::*;
    #[derive(PartialEq, PartialOrd, Clone, Copy, Debug)]
    pub struct FltF64FinGreaterLessSym(f64);
    #[derive(Debug, Clone, PartialEq, Eq)]
    #[allow(clippy::enum_variant_names)]
    pub enum FltF64FinGreaterLessSymError {
        FiniteViolated,
        GreaterViolated,
        LessViolated,
    }
    impl ::core::fmt::Display for FltF64FinGreaterLessSymError {
        fn fmt(&self, f: &mut ::core::fmt::Formatter<'_>) -> ::core::fmt::Result {
            match self {
                FltF64FinGreaterLessSymError::FiniteViolated => {
                    write!(f, "{} is not finite.", stringify!(FltF64FinGreaterLessSym))
                }
                FltF64FinGreaterLessSymError::GreaterViolated => write!(
                    f,
                    "{} is too small. The value must be greater than {:#?}.",
                    stringify!(FltF64FinGreaterLessSym),
                    sym_lo_f64()
                ),
                FltF64FinGreaterLessSymError::LessViolated => write!(
                    f,
                    "{} is too big. The value must be less than {:#?}.",
                    stringify!(FltF64FinGreaterLessSym),
                    sym_hi_f64()
                ),
            }
        }
    }
    impl ::core::error::Error for FltF64FinGreaterLessSymError {
        fn source(&self) -> Option<&(dyn ::core::error::Error + 'static)> {
            None
        }
    }
    impl FltF64FinGreaterLessSym {
        pub fn try_new(
            raw_value: f64,
        ) -> ::core::result::Result<Self, FltF64FinGreaterLessSymError> {
            let sanitized_value: f64 = Self::__sanitize__(raw_value);
            #[allow(clippy::question_mark)]
            if let Err(e) = Self::__validate__(&sanitized_value) {
                return Err(e);
            }
            Ok(FltF64FinGreaterLessSym(sanitized_value))
        }
        fn __sanitize__(mut value: f64) -> f64 {
            value
        }
        fn __validate__(val: &f64) -> core::result::Result<(), FltF64FinGreaterLessSymError> {
            let val = *val;
            if !val.is_finite() {
                return Err(FltF64FinGreaterLessSymError::FiniteViolated);
            }
            if val <= sym_lo_f64() {
                return Err(FltF64FinGreaterLessSymError::GreaterViolated);
            }
            if val >= sym_hi_f64() {
                return Err(FltF64FinGreaterLessSymError::LessViolated);
            }
            Ok(())
        }
    }
    impl FltF64FinGreaterLessSym {
        #[inline]
        pub fn into_inner(self) -> f64 {
            self.0
        }
    }
    impl ::core::cmp::Eq for FltF64FinGreaterLessSym {}
    impl ::core::ops::Deref for FltF64FinGreaterLessSym {
        type Target = f64;
        #[inline]
        fn deref(&self) -> &Self::Target {
            &self.0
        }
    }
    impl ::core::borrow::Borrow<f64> for FltF64FinGreaterLessSym {
        #[inline]
        fn borrow(&self) -> &f64 {
            &self.0
        }
    }
    impl ::core::convert::TryFrom<f64> for FltF64FinGreaterLessSym {
        type Error = FltF64FinGreaterLessSymError;
        #[inline]
        fn try_from(
            raw_value: f64,
        ) -> ::core::result::Result<FltF64FinGreaterLessSym, Self::Error> {
            Self::try_new(raw_value)
        }
    }
    impl ::core::convert::AsRef<f64> for FltF64FinGreaterLessSym {
        #[inline]
        fn as_ref(&self) -> &f64 {
            &self.0
        }
    }
    impl ::core::convert::From<FltF64FinGreaterLessSym> for f64 {
        #[inline]
        fn from(value: FltF64FinGreaterLessSym) -> Self {
            value.into_inner()
        }
    }
    #[allow(clippy::derive_ord_xor_partial_ord)]
    impl ::core::cmp::Ord for FltF64FinGreaterLessSym {
        fn cmp(&self, other: &Self) -> ::core::cmp::Ordering {
            self.partial_cmp(other).unwrap_or_else(||
            {
                let tp = "FltF64FinGreaterLessSym"; panic!
                ("{tp}::cmp() panicked, because partial_cmp() returned None. Could it be that you're using unsafe {tp}::new_unchecked() ?",
                tp = tp);
            })
        }
    }
    #[cfg(test)]
    mod tests {
        use super::*;
        #[test]
        fn should_have_consistent_lower_and_upper_boundaries() {
            assert!
            (sym_hi_f64() >= sym_lo_f64(),
            "\nInconsistent lower and upper boundaries for type `FltF64FinGreaterLessSym`\nThe upper boundary `sym_hi_f64()` must be greater than or equal to the lower boundary `sym_lo_f64()`\nNote: the test is generated automatically by #[nutype] macro.\n");
        }
    }
}
pub use __nutype_FltF64FinGreaterLessSym__::FltF64FinGreaterLessSym;
pub use __nutype_FltF64FinGreaterLessSym__::FltF64FinGreaterLessSymError;
