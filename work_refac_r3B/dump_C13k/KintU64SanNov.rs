// NUTYPE_VERIF_INPUT #[nutype(sanitize(with = san_u64), derive(Debug, Clone, Copy, PartialEq, Eq, PartialOrd, Ord, Hash, AsRef, Deref, Borrow, Into, From))] pub struct KintU64SanNov(u64);
#[doc(hidden)]
#[allow(
    non_snake_case,
    reason = "we keep original structure name which is probably CamelCase"
)]
mod __nutype_KintU64SanNov__ {
    use super::*;
    #[derive(Copy, Eq, PartialEq, Clone, Debug, Ord, PartialOrd, Hash)]
    pub struct KintU64SanNov(u64);
    impl KintU64SanNov {
        pub fn new(raw_value: u64) -> Self {
            Self(Self::__sanitize__(raw_value))
        }
        fn __sanitize__(mut value: u64) -> u64 {
            value = (san_u64)(value);
            value
        }
    }
    impl KintU64SanNov {
        #[inline]
        pub fn into_inner(self) -> u64 {
            self.0
        }
    }
    impl ::core::borrow::Borrow<u64> for KintU64SanNov {
        #[inline]
        fn borrow(&self) -> &u64 {
            &self.0
        }
    }
    impl ::core::convert::From<KintU64SanNov> for u64 {
        #[inline]
        fn from(value: KintU64SanNov) -> Self {
            value.into_inner()
        }
    }
    impl ::core::convert::AsRef<u64> for KintU64SanNov {
        #[inline]
        fn as_ref(&self) -> &u64 {
            &self.0
        }
    }
    impl ::core::ops::Deref for KintU64SanNov {
        type Target = u64;
        #[inline]
        fn deref(&self) -> &Self::Target {
            &self.0
        }
    }
    impl ::core::convert::From<u64> for KintU64SanNov {
        #[inline]
        fn from(raw_value: u64) -> Self {
            Self::new(raw_value)
        }
    }
    #[cfg(test)]
    mod tests {
        use super::*;
    }
}
pub use __nutype_KintU64SanNov__::KintU64SanNov;
