// NUTYPE_VERIF_INPUT #[nutype(sanitize(with = san3_f64), validate(finite, less_or_equal = sym_hi_f64()), derive(Debug, Clone, Copy, PartialEq, PartialOrd, AsRef, Deref, Borrow, Into, TryFrom, Eq, Ord))] pub struct FltF64San3FinLe(f64);
#[doc(hidden)]
#[allow(
    non_snake_case,
    reason = "we keep original structure name which is probably CamelCase"
)]
mod __nutype_FltF64San3FinLe__ {
    use super::*;
    #[derive(Copy, PartialEq, Clone, PartialOrd, Debug)]
    pub struct FltF64San3FinLe(f64);
    #[derive(Debug, Clone, PartialEq, Eq)]
    #[allow(clippy::enum_variant_names)]
    pub enum FltF64San3FinLeError {
        FiniteViolated,
        LessOrEqualViolated,
    }
    impl ::core::fmt::Display for FltF64San3FinLeError {
        fn fmt(&self, f: &mut ::core::fmt::Formatter<'_>) -> ::core::fmt::Result {
            match self {
                FltF64San3FinLeError::FiniteViolated => {
                    write!(f, "{} is not finite.", stringify!(FltF64San3FinLe))
                }
                FltF64San3FinLeError::LessOrEqualViolated => write!(
                    f,
                    "{} is too big. The value must be less than {:#?}.",
                    stringify!(FltF64San3FinLe),
                    sym_hi_f64()
                ),
            }
        }
    }
    impl ::core::error::Error for FltF64San3FinLeError {
        fn source(&self) -> Option<&(dyn ::core::error::Error + 'static)> {
            None
        }
    }
    impl FltF64San3FinLe {
        pub fn try_new(raw_value: f64) -> ::core::result::Result<Self, FltF64San3FinLeError> {
            let sanitized_value: f64 = Self::__sanitize__(raw_value);
            #[allow(clippy::question_mark)]
            if let Err(e) = Self::__validate__(&sanitized_value) {
                return Err(e);
            }
            Ok(FltF64San3FinLe(sanitized_value))
        }
        fn __sanitize__(mut value: f64) -> f64 {
            value = (san3_f64)(value);
            value
        }
        fn __validate__(val: &f64) -> core::result::Result<(), FltF64San3FinLeError> {
            let val = *val;
            if !val.is_finite() {
                return Err(FltF64San3FinLeError::FiniteViolated);
            }
            if val > sym_hi_f64() {
                return Err(FltF64San3FinLeError::LessOrEqualViolated);
            }
            Ok(())
        }
    }
    impl FltF64San3FinLe {
        #[inline]
        pub fn into_inner(self) -> f64 {
            self.0
        }
    }
    #[allow(clippy::derive_ord_xor_partial_ord)]
    impl ::core::cmp::Ord for FltF64San3FinLe {
        fn cmp(&self, other: &Self) -> ::core::cmp::Ordering {
            self.partial_cmp(other).unwrap_or_else(||
            {
                let tp = "FltF64San3FinLe"; panic!
                ("{tp}::cmp() panicked, because partial_cmp() returned None. Could it be that you're using unsafe {tp}::new_unchecked() ?",
                tp = tp);
            })
        }
    }
    impl ::core::borrow::Borrow<f64> for FltF64San3FinLe {
        #[inline]
        fn borrow(&self) -> &f64 {
            &self.0
        }
    }
    impl ::core::ops::Deref for FltF64San3FinLe {
        type Target = f64;
        #[inline]
        fn deref(&self) -> &Self::Target {
            &self.0
        }
    }
    impl ::core::convert::AsRef<f64> for FltF64San3FinLe {
        #[inline]
        fn as_ref(&self) -> &f64 {
            &self.0
        }
    }
    impl ::core::cmp::Eq for FltF64San3FinLe {}
    impl ::core::convert::From<FltF64San3FinLe> for f64 {
        #[inline]
        fn from(value: FltF64San3FinLe) -> Self {
            value.into_inner()
        }
    }
    impl ::core::convert::TryFrom<f64> for FltF64San3FinLe {
        type Error = FltF64San3FinLeError;
        #[inline]
        fn try_from(raw_value: f64) -> ::core::result::Result<FltF64San3FinLe, Self::Error> {
            Self::try_new(raw_value)
        }
    }
    #[cfg(test)]
    mod tests {
        use super::*;
    }
}
pub use __nutype_FltF64San3FinLe__::FltF64San3FinLe;
pub use __nutype_FltF64San3FinLe__::FltF64San3FinLeError;
