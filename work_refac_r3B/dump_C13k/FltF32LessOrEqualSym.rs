// NUTYPE_VERIF_INPUT #[nutype(validate(less_or_equal = sym_hi_f32()), derive(Debug, Clone, Copy, PartialEq, PartialOrd, AsRef, Deref, Borrow, Into, TryFrom))] pub struct FltF32LessOrEqualSym(f32);
#[doc(hidden)]
#[allow(
    non_snake_case,
    reason = "we keep original structure name which is probably CamelCase"
)]
mod __nutype_FltF32LessOrEqualSym__ {
    use super::*;
    #[derive(Debug, Copy, Clone, PartialEq, PartialOrd)]
    pub struct FltF32LessOrEqualSym(f32);
    #[derive(Debug, Clone, PartialEq, Eq)]
    #[allow(clippy::enum_variant_names)]
    pub enum FltF32LessOrEqualSymError {
        LessOrEqualViolated,
    }
    impl ::core::fmt::Display for FltF32LessOrEqualSymError {
        fn fmt(&self, f: &mut ::core::fmt::Formatter<'_>) -> ::core::fmt::Result {
            match self {
                FltF32LessOrEqualSymError::LessOrEqualViolated => write!(
                    f,
                    "{} is too big. The value must be less than {:#?}.",
                    stringify!(FltF32LessOrEqualSym),
                    sym_hi_f32()
                ),
            }
        }
    }
    impl ::core::error::Error for FltF32LessOrEqualSymError {
        fn source(&self) -> Option<&(dyn ::core::error::Error + 'static)> {
            None
        }
    }
    impl FltF32LessOrEqualSym {
        pub fn try_new(raw_value: f32) -> ::core::result::Result<Self, FltF32LessOrEqualSymError> {
            let sanitized_value: f32 = Self::__sanitize__(raw_value);
            #[allow(clippy::question_mark)]
            if let Err(e) = Self::__validate__(&sanitized_value) {
                return Err(e);
            }
            Ok(FltF32LessOrEqualSym(sanitized_value))
        }
        fn __sanitize__(mut value: f32) -> f32 {
            value
        }
        fn __validate__(val: &f32) -> core::result::Result<(), FltF32LessOrEqualSymError> {
            let val = *val;
            if val > sym_hi_f32() {
                return Err(FltF32LessOrEqualSymError::LessOrEqualViolated);
            }
            Ok(())
        }
    }
    impl FltF32LessOrEqualSym {
        #[inline]
        pub fn into_inner(self) -> f32 {
            self.0
        }
    }
    impl ::core::ops::Deref for FltF32LessOrEqualSym {
        type Target = f32;
        #[inline]
        fn deref(&self) -> &Self::Target {
            &self.0
        }
    }
    impl ::core::borrow::Borrow<f32> for FltF32LessOrEqualSym {
        #[inline]
        fn borrow(&self) -> &f32 {
            &self.0
        }
    }
    impl ::core::convert::TryFrom<f32> for FltF32LessOrEqualSym {
        type Error = FltF32LessOrEqualSymError;
        #[inline]
        fn try_from(raw_value: f32) -> ::core::result::Result<FltF32LessOrEqualSym, Self::Error> {
            Self::try_new(raw_value)
        }
    }
    impl ::core::convert::AsRef<f32> for FltF32LessOrEqualSym {
        #[inline]
        fn as_ref(&self) -> &f32 {
            &self.0
        }
    }
    impl ::core::convert::From<FltF32LessOrEqualSym> for f32 {
        #[inline]
        fn from(value: FltF32LessOrEqualSym) -> Self {
            value.into_inner()
        }
    }
    #[cfg(test)]
    mod tests {
        use super::*;
    }
}
pub use __nutype_FltF32LessOrEqualSym__::FltF32LessOrEqualSym;
pub use __nutype_FltF32LessOrEqualSym__::FltF32LessOrEqualSymError;
