// NUTYPE_VERIF_INPUT #[nutype(validate(greater_or_equal = sym_lo_i128(), less_or_equal = sym_hi_i128()), derive(Debug, Clone, Copy, PartialEq, Eq, PartialOrd, Ord, Hash, AsRef, Deref, Borrow, Into, TryFrom))] pub struct KintI128GeLeSym(i128);
#[doc(hidden)]
#[allow(
    non_snake_case,
    reason = "we keep original structure name which is probably CamelCase"
)]
mod __nutype_KintI128GeLeSym__ {
    use super::*;
    #[derive(Ord, PartialOrd, Clone, Debug, Eq, Hash, Copy, PartialEq)]
    pub struct KintI128GeLeSym(i128);
    #[derive(Debug, Clone, PartialEq, Eq)]
    #[allow(clippy::enum_variant_names)]
    pub enum KintI128GeLeSymError {
        GreaterOrEqualViolated,
        LessOrEqualViolated,
    }
    impl ::core::fmt::Display for KintI128GeLeSymError {
        fn fmt(&self, f: &mut ::core::fmt::Formatter<'_>) -> ::core::fmt::Result {
            match self {
                KintI128GeLeSymError::GreaterOrEqualViolated => write!(
                    f,
                    "{} is too small. The value must be greater or equal to {:#?}.",
                    stringify!(KintI128GeLeSym),
                    sym_lo_i128()
                ),
                KintI128GeLeSymError::LessOrEqualViolated => write!(
                    f,
                    "{} is too big. The value must be less or equal to {:#?}.",
                    stringify!(KintI128GeLeSym),
                    sym_hi_i128()
                ),
            }
        }
    }
    impl ::core::error::Error for KintI128GeLeSymError {
        fn source(&self) -> Option<&(dyn ::core::error::Error + 'static)> {
            None
        }
    }
    impl KintI128GeLeSym {
        pub fn try_new(raw_value: i128) -> ::core::result::Result<Self, KintI128GeLeSymError> {
            let sanitized_value: i128 = Self::__sanitize__(raw_value);
            #[allow(clippy::question_mark)]
            if let Err(e) = Self::__validate__(&sanitized_value) {
                return Err(e);
            }
            Ok(KintI128GeLeSym(sanitized_value))
        }
        fn __sanitize__(mut value: i128) -> i128 {
            value
        }
        fn __validate__(val: &i128) -> ::core::result::Result<(), KintI128GeLeSymError> {
            let val = *val;
            if val < sym_lo_i128() {
                return Err(KintI128GeLeSymError::GreaterOrEqualViolated);
            }
            if val > sym_hi_i128() {
                return Err(KintI128GeLeSymError::LessOrEqualViolated);
            }
            Ok(())
        }
    }
    impl KintI128GeLeSym {
        #[inline]
        pub fn into_inner(self) -> i128 {
            self.0
        }
    }
    impl ::core::convert::AsRef<i128> for KintI128GeLeSym {
        #[inline]
        fn as_ref(&self) -> &i128 {
            &self.0
        }
    }
    impl ::core::convert::TryFrom<i128> for KintI128GeLeSym {
        type Error = KintI128GeLeSymError;
        #[inline]
        fn try_from(raw_value: i128) -> ::core::result::Result<KintI128GeLeSym, Self::Error> {
            Self::try_new(raw_value)
        }
    }
    impl ::core::ops::Deref for KintI128GeLeSym {
        type Target = i128;
        #[inline]
        fn deref(&self) -> &Self::Target {
            &self.0
        }
    }
    impl ::core::convert::From<KintI128GeLeSym> for i128 {
        #[inline]
        fn from(value: KintI128GeLeSym) -> Self {
            value.into_inner()
        }
    }
    impl ::core::borrow::Borrow<i128> for KintI128GeLeSym {
        #[inline]
        fn borrow(&self) -> &i128 {
            &self.0
        }
    }
    #[cfg(test)]
    mod tests {
        use super::*;
        #[test]
        fn should_have_consistent_lower_and_upper_boundaries() {
            assert!
            (sym_hi_i128() >= sym_lo_i128(),
            "\nInconsistent lower and upper boundaries for type `KintI128GeLeSym`\nThe upper boundary `sym_hi_i128()` must be greater than or equal to the lower boundary `sym_lo_i128()`\nNote: the test is generated automatically by #[nutype] macro.\n");
        }
    }
}
pub use __nutype_KintI128GeLeSym__::KintI128GeLeSym;
pub use __nutype_KintI128GeLeSym__::KintI128GeLeSymError;
