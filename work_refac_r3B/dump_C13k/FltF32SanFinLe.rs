// NUTYPE_VERIF_INPUT #[nutype(sanitize(with = san_f32), validate(finite, less_or_equal = sym_hi_f32()), derive(Debug, Clone, Copy, PartialEq, PartialOrd, AsRef, Deref, Borrow, Into, TryFrom, Eq, Ord))] pub struct FltF32SanFinLe(f32);
#[doc(hidden)]
#[allow(
    non_snake_case,
    reason = "we keep original structure name which is probably CamelCase"
)]
mod __nutype_FltF32SanFinLe__ {
    use super::*;
    #[derive(PartialEq, Clone, Copy, PartialOrd, Debug)]
    pub struct FltF32SanFinLe(f32);
    #[derive(Debug, Clone, PartialEq, Eq)]
    #[allow(clippy::enum_variant_names)]
    pub enum FltF32SanFinLeError {
        FiniteViolated,
        LessOrEqualViolated,
    }
    impl ::core::fmt::Display for FltF32SanFinLeError {
        fn fmt(&self, f: &mut ::core::fmt::Formatter<'_>) -> ::core::fmt::Result {
            match self {
                FltF32SanFinLeError::FiniteViolated => {
                    write!(f, "{} is not finite.", stringify!(FltF32SanFinLe))
                }
                FltF32SanFinLeError::LessOrEqualViolated => write!(
                    f,
                    "{} is too big. The value must be less than {:#?}.",
                    stringify!(FltF32SanFinLe),
                    sym_hi_f32()
                ),
            }
        }
    }
    impl ::core::error::Error for FltF32SanFinLeError {
        fn source(&self) -> Option<&(dyn ::core::error::Error + 'static)> {
            None
        }
    }
    impl FltF32SanFinLe {
        pub fn try_new(raw_value: f32) -> ::core::result::Result<Self, FltF32SanFinLeError> {
            let sanitized_value: f32 = Self::__sanitize__(raw_value);
            #[allow(clippy::question_mark)]
            if let Err(e) = Self::__validate__(&sanitized_value) {
                return Err(e);
            }
            Ok(FltF32SanFinLe(sanitized_value))
        }
        fn __sanitize__(mut value: f32) -> f32 {
            value = (san_f32)(value);
            value
        }
        fn __validate__(val: &f32) -> core::result::Result<(), FltF32SanFinLeError> {
            let val = *val;
            if !val.is_finite() {
                return Err(FltF32SanFinLeError::FiniteViolated);
            }
            if val > sym_hi_f32() {
                return Err(FltF32SanFinLeError::LessOrEqualViolated);
            }
            Ok(())
        }
    }
    impl FltF32SanFinLe {
        #[inline]
        pub fn into_inner(self) -> f32 {
            self.0
        }
    }
    #[allow(clippy::derive_ord_xor_partial_ord)]
    impl ::core::cmp::Ord for FltF32SanFinLe {
        fn cmp(&self, other: &Self) -> ::core::cmp::Ordering {
            self.partial_cmp(other).unwrap_or_else(||
            {
                let tp = "FltF32SanFinLe"; panic!
                ("{tp}::cmp() panicked, because partial_cmp() returned None. Could it be that you're using unsafe {tp}::new_unchecked() ?",
                tp = tp);
            })
        }
    }
    impl ::core::ops::Deref for FltF32SanFinLe {
        type Target = f32;
        #[inline]
        fn deref(&self) -> &Self::Target {
            &self.0
        }
    }
    impl ::core::borrow::Borrow<f32> for FltF32SanFinLe {
        #[inline]
        fn borrow(&self) -> &f32 {
            &self.0
        }
    }
    impl ::core::convert::AsRef<f32> for FltF32SanFinLe {
        #[inline]
        fn as_ref(&self) -> &f32 {
            &self.0
        }
    }
    impl ::core::cmp::Eq for FltF32SanFinLe {}
    impl ::core::convert::From<FltF32SanFinLe> for f32 {
        #[inline]
        fn from(value: FltF32SanFinLe) -> Self {
            value.into_inner()
        }
    }
    impl ::core::convert::TryFrom<f32> for FltF32SanFinLe {
        type Error = FltF32SanFinLeError;
        #[inline]
        fn try_from(raw_value: f32) -> ::core::result::Result<FltF32SanFinLe, Self::Error> {
            Self::try_new(raw_value)
        }
    }
    #[cfg(test)]
    mod tests {
        use super::*;
    }
}
pub use __nutype_FltF32SanFinLe__::FltF32SanFinLe;
pub use __nutype_FltF32SanFinLe__::FltF32SanFinLeError;
