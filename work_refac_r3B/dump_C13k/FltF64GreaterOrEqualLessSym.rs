// NUTYPE_VERIF_INPUT #[nutype(validate(greater_or_equal = sym_lo_f64(), less = sym_hi_f64()), derive(Debug, Clone, Copy, PartialEq, PartialOrd, AsRef, Deref, Borrow, Into, TryFrom))] pub struct FltF64GreaterOrEqualLessSym(f64);
#[doc(hidden)]
#[allow(
    non_snake_case,
    reason = "we keep original structure name which is probably CamelCase"
)]
mod __nutype_FltF64GreaterOrEqualLessSym__ {
    use super::*;
    #[derive(Copy, PartialOrd, PartialEq, Clone, Debug)]
    pub struct FltF64GreaterOrEqualLessSym(f64);
    #[derive(Debug, Clone, PartialEq, Eq)]
    #[allow(clippy::enum_variant_names)]
    pub enum FltF64GreaterOrEqualLessSymError {
        GreaterOrEqualViolated,
        LessViolated,
    }
    impl ::core::fmt::Display for FltF64GreaterOrEqualLessSymError {
        fn fmt(&self, f: &mut ::core::fmt::Formatter<'_>) -> ::core::fmt::Result {
            match self {
                FltF64GreaterOrEqualLessSymError::GreaterOrEqualViolated => write!(
                    f,
                    "{} is too small. The value must be greater or equal to {:#?}.",
                    stringify!(FltF64GreaterOrEqualLessSym),
                    sym_lo_f64()
                ),
                FltF64GreaterOrEqualLessSymError::LessViolated => write!(
                    f,
                    "{} is too big. The value must be less than {:#?}.",
                    stringify!(FltF64GreaterOrEqualLessSym),
                    sym_hi_f64()
                ),
            }
        }
    }
    impl ::core::error::Error for FltF64GreaterOrEqualLessSymError {
        fn source(&self) -> Option<&(dyn ::core::error::Error + 'static)> {
            None
        }
    }
    impl FltF64GreaterOrEqualLessSym {
        pub fn try_new(
            raw_value: f64,
        ) -> ::core::result::Result<Self, FltF64GreaterOrEqualLessSymError> {
            let sanitized_value: f64 = Self::__sanitize__(raw_value);
            #[allow(clippy::question_mark)]
            if let Err(e) = Self::__validate__(&sanitized_value) {
                return Err(e);
            }
            Ok(FltF64GreaterOrEqualLessSym(sanitized_value))
        }
        fn __sanitize__(mut value: f64) -> f64 {
            value
        }
        fn __validate__(val: &f64) -> core::result::Result<(), FltF64GreaterOrEqualLessSymError> {
            let val = *val;
            if val < sym_lo_f64() {
                return Err(FltF64GreaterOrEqualLessSymError::GreaterOrEqualViolated);
            }
            if val >= sym_hi_f64() {
                return Err(FltF64GreaterOrEqualLessSymError::LessViolated);
            }
            Ok(())
        }
    }
    impl FltF64GreaterOrEqualLessSym {
        #[inline]
        pub fn into_inner(self) -> f64 {
            self.0
        }
    }
    impl ::core::borrow::Borrow<f64> for FltF64GreaterOrEqualLessSym {
        #[inline]
        fn borrow(&self) -> &f64 {
            &self.0
        }
    }
    impl ::core::ops::Deref for FltF64GreaterOrEqualLessSym {
        type Target = f64;
        #[inline]
        fn deref(&self) -> &Self::Target {
            &self.0
        }
    }
    impl ::core::convert::TryFrom<f64> for FltF64GreaterOrEqualLessSym {
        type Error = FltF64GreaterOrEqualLessSymError;
        #[inline]
        fn try_from(
            raw_value: f64,
        ) -> ::core::result::Result<FltF64GreaterOrEqualLessSym, Self::Error> {
            Self::try_new(raw_value)
        }
    }
    impl ::core::convert::AsRef<f64> for FltF64GreaterOrEqualLessSym {
        #[inline]
        fn as_ref(&self) -> &f64 {
            &self.0
        }
    }
    impl ::core::convert::From<FltF64GreaterOrEqualLessSym> for f64 {
        #[inline]
        fn from(value: FltF64GreaterOrEqualLessSym) -> Self {
            value.into_inner()
        }
    }
    #[cfg(test)]
    mod tests {
        use super::*;
        #[test]
        fn should_have_consistent_lower_and_upper_boundaries() {
            assert!
            (sym_hi_f64() >= sym_lo_f64(),
            "\nInconsistent lower and upper boundaries for type `FltF64GreaterOrEqualLessSym`\nThe upper boundary `sym_hi_f64()` must be greater than or equal to the lower boundary `sym_lo_f64()`\nNote: the test is generated automatically by #[nutype] macro.\n");
        }
    }
}
pub use __nutype_FltF64GreaterOrEqualLessSym__::FltF64GreaterOrEqualLessSym;
pub use __nutype_FltF64GreaterOrEqualLessSym__::FltF64GreaterOrEqualLessSymError;
