// NUTYPE_VERIF_INPUT #[nutype(validate(predicate = pred_f32, less = sym_hi_f32(), finite), derive(Debug, Clone, Copy, PartialEq, PartialOrd, AsRef, Deref, Borrow, Into, TryFrom, Eq, Ord))] pub struct FltF32PredLtFin(f32);
#[doc(hidden)]
#[allow(
    non_snake_case,
    reason = "we keep original structure name which is probably CamelCase"
)]
mod __nutype_FltF32PredLtFin__ {
    use super::*;
    #[derive(PartialEq, Debug, PartialOrd, Copy, Clone)]
    pub struct FltF32PredLtFin(f32);
    #[derive(Debug, Clone, PartialEq, Eq)]
    #[allow(clippy::enum_variant_names)]
    pub enum FltF32PredLtFinError {
        PredicateViolated,
        LessViolated,
        FiniteViolated,
    }
    impl ::core::fmt::Display for FltF32PredLtFinError {
        fn fmt(&self, f: &mut ::core::fmt::Formatter<'_>) -> ::core::fmt::Result {
            match self {
                FltF32PredLtFinError::PredicateViolated => write!(
                    f,
                    "{} failed the predicate test.",
                    stringify!(FltF32PredLtFin)
                ),
                FltF32PredLtFinError::LessViolated => write!(
                    f,
                    "{} is too big. The value must be less than {:#?}.",
                    stringify!(FltF32PredLtFin),
                    sym_hi_f32()
                ),
                FltF32PredLtFinError::FiniteViolated => {
                    write!(f, "{} is not finite.", stringify!(FltF32PredLtFin))
                }
            }
        }
    }
    impl ::core::error::Error for FltF32PredLtFinError {
        fn source(&self) -> Option<&(dyn ::core::error::Error + 'static)> {
            None
        }
    }
    impl FltF32PredLtFin {
        pub fn try_new(raw_value: f32) -> ::core::result::Result<Self, FltF32PredLtFinError> {
            let sanitized_value: f32 = Self::__sanitize__(raw_value);
            #[allow(clippy::question_mark)]
            if let Err(e) = Self::__validate__(&sanitized_value) {
                return Err(e);
            }
            Ok(FltF32PredLtFin(sanitized_value))
        }
        fn __sanitize__(mut value: f32) -> f32 {
            value
        }
        fn __validate__(val: &f32) -> core::result::Result<(), FltF32PredLtFinError> {
            let val = *val;
            if !(pred_f32)(&val) {
                return Err(FltF32PredLtFinError::PredicateViolated);
            }
            if val >= sym_hi_f32() {
                return Err(FltF32PredLtFinError::LessViolated);
            }
            if !val.is_finite() {
                return Err(FltF32PredLtFinError::FiniteViolated);
            }
            Ok(())
        }
    }
    impl FltF32PredLtFin {
        #[inline]
        pub fn into_inner(self) -> f32 {
            self.0
        }
    }
    impl ::core::convert::AsRef<f32> for FltF32PredLtFin {
        #[inline]
        fn as_ref(&self) -> &f32 {
            &self.0
        }
    }
    impl ::core::cmp::Eq for FltF32PredLtFin {}
    #[allow(clippy::derive_ord_xor_partial_ord)]
    impl ::core::cmp::Ord for FltF32PredLtFin {
        fn cmp(&self, other: &Self) -> ::core::cmp::Ordering {
            self.partial_cmp(other).unwrap_or_else(||
            {
                let tp = "FltF32PredLtFin"; panic!
                ("{tp}::cmp() panicked, because partial_cmp() returned None. Could it be that you're using unsafe {tp}::new_unchecked() ?",
                tp = tp);
            })
        }
    }
    impl ::core::ops::Deref for FltF32PredLtFin {
        type Target = f32;
        #[inline]
        fn deref(&self) -> &Self::Target {
            &self.0
        }
    }
    impl ::core::borrow::Borrow<f32> for FltF32PredLtFin {
        #[inline]
        fn borrow(&self) -> &f32 {
            &self.0
        }
    }
    impl ::core::convert::From<FltF32PredLtFin> for f32 {
        #[inline]
        fn from(value: FltF32PredLtFin) -> Self {
            value.into_inner()
        }
    }
    impl ::core::convert::TryFrom<f32> for FltF32PredLtFin {
        type Error = FltF32PredLtFinError;
        #[inline]
        fn try_from(raw_value: f32) -> ::core::result::Result<FltF32PredLtFin, Self::Error> {
            Self::try_new(raw_value)
        }
    }
    #[cfg(test)]
    mod tests {
        use super::*;
    }
}
pub use __nutype_FltF32PredLtFin__::FltF32PredLtFin;
pub use __nutype_FltF32PredLtFin__::FltF32PredLtFinError;
