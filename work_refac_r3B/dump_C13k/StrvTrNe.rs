// NUTYPE_VERIF_INPUT #[nutype(sanitize(trim), validate(not_empty), derive(Debug, Clone, PartialEq, Eq, PartialOrd, Ord, Hash, Borrow))] pub struct StrvTrNe(String);
#[doc(hidden)]
#[allow(
    non_snake_case,
    reason = "we keep original structure name which is probably CamelCase"
)]
mod __nutype_StrvTrNe__ {
    use super::*;
    #[derive(Ord, Clone, PartialOrd, Debug, Eq, PartialEq, Hash)]
    pub struct StrvTrNe(String);
    #[derive(Debug, Clone, PartialEq, Eq)]
    #[allow(clippy::enum_variant_names)]
    pub enum StrvTrNeError {
        NotEmptyViolated,
    }
    impl ::core::fmt::Display for StrvTrNeError {
        fn fmt(&self, f: &mut ::core::fmt::Formatter<'_>) -> ::core::fmt::Result {
            match self {
                StrvTrNeError::NotEmptyViolated => write!(f, "{} is empty.", stringify!(StrvTrNe)),
            }
        }
    }
    impl ::core::error::Error for StrvTrNeError {
        fn source(&self) -> Option<&(dyn ::core::error::Error + 'static)> {
            None
        }
    }
    impl StrvTrNe {
        pub fn try_new(
            raw_value: impl Into<String>,
        ) -> ::core::result::Result<Self, StrvTrNeError> {
            let raw_value = raw_value.into();
            let sanitized_value: String = Self::__sanitize__(raw_value);
            #[allow(clippy::question_mark)]
            if let Err(e) = Self::__validate__(&sanitized_value) {
                return Err(e);
            }
            Ok(StrvTrNe(sanitized_value))
        }
        fn __sanitize__(value: String) -> String {
            let value: String = value.trim().to_string();
            value
        }
        fn __validate__(val: &str) -> ::core::result::Result<(), StrvTrNeError> {
            if val.is_empty() {
                return Err(StrvTrNeError::NotEmptyViolated);
            }
            Ok(())
        }
    }
    impl StrvTrNe {
        #[inline]
        pub fn into_inner(self) -> String {
            self.0
        }
    }
    impl ::core::borrow::Borrow<String> for StrvTrNe {
        #[inline]
        fn borrow(&self) -> &String {
            &self.0
        }
    }
    impl ::core::borrow::Borrow<str> for StrvTrNe {
        #[inline]
        fn borrow(&self) -> &str {
            &self.0
        }
    }
    #[cfg(test)]
    mod tests {
        use super::*;
    }
}
pub use __nutype_StrvTrNe__::StrvTrNe;
pub use __nutype_StrvTrNe__::StrvTrNeError;
