// NUTYPE_VERIF_INPUT #[nutype(validate(greater = 1e-30), derive(Debug, Clone, Copy, PartialEq, PartialOrd, AsRef, Deref, Borrow, Into, TryFrom))] pub struct FltF64GreaterLitSmall(f64);
#[doc(hidden)]
#[allow(
    non_snake_case,
    reason = "we keep original structure name which is probably CamelCase"
)]
mod __nutype_FltF64GreaterLitSmall__ {
    use super::*;
    #[derive(PartialOrd, Debug, Clone, Copy, PartialEq)]
    pub struct FltF64GreaterLitSmall(f64);
    #[derive(Debug, Clone, PartialEq, Eq)]
    #[allow(clippy::enum_variant_names)]
    pub enum FltF64GreaterLitSmallError {
        GreaterViolated,
    }
    impl ::core::fmt::Display for FltF64GreaterLitSmallError {
        fn fmt(&self, f: &mut ::core::fmt::Formatter<'_>) -> ::core::fmt::Result {
            match self {
                FltF64GreaterLitSmallError::GreaterViolated => write!(
                    f,
                    "{} is too small. The value must be greater than {:#?}.",
                    stringify!(FltF64GreaterLitSmall),
                    0.000000000000000000000000000001f64
                ),
            }
        }
    }
    impl ::core::error::Error for FltF64GreaterLitSmallError {
        fn source(&self) -> Option<&(dyn ::core::error::Error + 'static)> {
            None
        }
    }
    impl FltF64GreaterLitSmall {
        pub fn try_new(raw_value: f64) -> ::core::result::Result<Self, FltF64GreaterLitSmallError> {
            let sanitized_value: f64 = Self::__sanitize__(raw_value);
            #[allow(clippy::question_mark)]
            if let Err(e) = Self::__validate__(&sanitized_value) {
                return Err(e);
            }
            Ok(FltF64GreaterLitSmall(sanitized_value))
        }
        fn __sanitize__(mut value: f64) -> f64 {
            value
        }
        fn __validate__(val: &f64) -> core::result::Result<(), FltF64GreaterLitSmallError> {
            let val = *val;
            if val <= 0.000000000000000000000000000001f64 {
                return Err(FltF64GreaterLitSmallError::GreaterViolated);
            }
            Ok(())
        }
    }
    impl FltF64GreaterLitSmall {
        #[inline]
        pub fn into_inner(self) -> f64 {
            self.0
        }
    }
    impl ::core::borrow::Borrow<f64> for FltF64GreaterLitSmall {
        #[inline]
        fn borrow(&self) -> &f64 {
            &self.0
        }
    }
    impl ::core::convert::TryFrom<f64> for FltF64GreaterLitSmall {
        type Error = FltF64GreaterLitSmallError;
        #[inline]
        fn try_from(raw_value: f64) -> ::core::result::Result<FltF64GreaterLitSmall, Self::Error> {
            Self::try_new(raw_value)
        }
    }
    impl ::core::convert::From<FltF64GreaterLitSmall> for f64 {
        #[inline]
        fn from(value: FltF64GreaterLitSmall) -> Self {
            value.into_inner()
        }
    }
    impl ::core::convert::AsRef<f64> for FltF64GreaterLitSmall {
        #[inline]
        fn as_ref(&self) -> &f64 {
            &self.0
        }
    }
    impl ::core::ops::Deref for FltF64GreaterLitSmall {
        type Target = f64;
        #[inline]
        fn deref(&self) -> &Self::Target {
            &self.0
        }
    }
    #[cfg(test)]
    mod tests {
        use super::*;
    }
}
pub use __nutype_FltF64GreaterLitSmall__::FltF64GreaterLitSmall;
pub use __nutype_FltF64GreaterLitSmall__::FltF64GreaterLitSmallError;
