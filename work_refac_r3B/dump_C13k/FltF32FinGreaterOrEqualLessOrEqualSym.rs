// NUTYPE_VERIF_INPUT #[nutype(validate(finite, greater_or_equal = sym_lo_f32(), less_or_equal = sym_hi_f32()), derive(Debug, Clone, Copy, PartialEq, PartialOrd, AsRef, Deref, Borrow, Into, TryFrom, Eq, Ord))] pub struct FltF32FinGreaterOrEqualLessOrEqualSym(f32);
#[doc(hidden)]
#[allow(
    non_snake_case,
    reason = "we keep original structure name which is probably CamelCase"
)]
mod __nutype_FltF32FinGreaterOrEqualLessOrEqualSym__ {
    use super::*;
    #[derive(PartialEq, Debug, Clone, PartialOrd, Copy)]
    pub struct FltF32FinGreaterOrEqualLessOrEqualSym(f32);
    #[derive(Debug, Clone, PartialEq, Eq)]
    #[allow(clippy::enum_variant_names)]
    pub enum FltF32FinGreaterOrEqualLessOrEqualSymError {
        FiniteViolated,
        GreaterOrEqualViolated,
        LessOrEqualViolated,
    }
    impl ::core::fmt::Display for FltF32FinGreaterOrEqualLessOrEqualSymError {
        fn fmt(&self, f: &mut ::core::fmt::Formatter<'_>) -> ::core::fmt::Result {
            match self {
                FltF32FinGreaterOrEqualLessOrEqualSymError::FiniteViolated => write!(
                    f,
                    "{} is not finite.",
                    stringify!(FltF32FinGreaterOrEqualLessOrEqualSym)
                ),
                FltF32FinGreaterOrEqualLessOrEqualSymError::GreaterOrEqualViolated => write!(
                    f,
                    "{} is too small. The value must be greater or equal to {:#?}.",
                    stringify!(FltF32FinGreaterOrEqualLessOrEqualSym),
                    sym_lo_f32()
                ),
                FltF32FinGreaterOrEqualLessOrEqualSymError::LessOrEqualViolated => write!(
                    f,
                    "{} is too big. The value must be less than {:#?}.",
                    stringify!(FltF32FinGreaterOrEqualLessOrEqualSym),
                    sym_hi_f32()
                ),
            }
        }
    }
    impl ::core::error::Error for FltF32FinGreaterOrEqualLessOrEqualSymError {
        fn source(&self) -> Option<&(dyn ::core::error::Error + 'static)> {
            None
        }
    }
    impl FltF32FinGreaterOrEqualLessOrEqualSym {
        pub fn try_new(
            raw_value: f32,
        ) -> ::core::result::Result<Self, FltF32FinGreaterOrEqualLessOrEqualSymError> {
            let sanitized_value: f32 = Self::__sanitize__(raw_value);
            #[allow(clippy::question_mark)]
            if let Err(e) = Self::__validate__(&sanitized_value) {
                return Err(e);
            }
            Ok(FltF32FinGreaterOrEqualLessOrEqualSym(sanitized_value))
        }
        fn __sanitize__(mut value: f32) -> f32 {
            value
        }
        fn __validate__(
            val: &f32,
        ) -> core::result::Result<(), FltF32FinGreaterOrEqualLessOrEqualSymError> {
            let val = *val;
            if !val.is_finite() {
                return Err(FltF32FinGreaterOrEqualLessOrEqualSymError::FiniteViolated);
            }
            if val < sym_lo_f32() {
                return Err(FltF32FinGreaterOrEqualLessOrEqualSymError::GreaterOrEqualViolated);
            }
            if val > sym_hi_f32() {
                return Err(FltF32FinGreaterOrEqualLessOrEqualSymError::LessOrEqualViolated);
            }
            Ok(())
        }
    }
    impl FltF32FinGreaterOrEqualLessOrEqualSym {
        #[inline]
        pub fn into_inner(self) -> f32 {
            self.0
        }
    }
    impl ::core::convert::From<FltF32FinGreaterOrEqualLessOrEqualSym> for f32 {
        #[inline]
        fn from(value: FltF32FinGreaterOrEqualLessOrEqualSym) -> Self {
            value.into_inner()
        }
    }
    impl ::core::cmp::Eq for FltF32FinGreaterOrEqualLessOrEqualSym {}
    impl ::core::borrow::Borrow<f32> for FltF32FinGreaterOrEqualLessOrEqualSym {
        #[inline]
        fn borrow(&self) -> &f32 {
            &self.0
        }
    }
    #[allow(clippy::derive_ord_xor_partial_ord)]
    impl ::core::cmp::Ord for FltF32FinGreaterOrEqualLessOrEqualSym {
        fn cmp(&self, other: &Self) -> ::core::cmp::Ordering {
            self.partial_cmp(other).unwrap_or_else(||
            {
                let tp = "FltF32FinGreaterOrEqualLessOrEqualSym"; panic!
                ("{tp}::cmp() panicked, because partial_cmp() returned None. Could it be that you're using unsafe {tp}::new_unchecked() ?",
                tp = tp);
            })
        }
    }
    impl ::core::convert::AsRef<f32> for FltF32FinGreaterOrEqualLessOrEqualSym {
        #[inline]
        fn as_ref(&self) -> &f32 {
            &self.0
        }
    }
    impl ::core::ops::Deref for FltF32FinGreaterOrEqualLessOrEqualSym {
        type Target = f32;
        #[inline]
        fn deref(&self) -> &Self::Target {
            &self.0
        }
    }
    impl ::core::convert::TryFrom<f32> for FltF32FinGreaterOrEqualLessOrEqualSym {
        type Error = FltF32FinGreaterOrEqualLessOrEqualSymError;
        #[inline]
        fn try_from(
            raw_value: f32,
        ) -> ::core::result::Result<FltF32FinGreaterOrEqualLessOrEqualSym, Self::Error> {
            Self::try_new(raw_value)
        }
    }
    #[cfg(test)]
    mod tests {
        use super::*;
        #[test]
        fn should_have_consistent_lower_and_upper_boundaries() {
            assert!
            (sym_hi_f32() >= sym_lo_f32(),
            "\nInconsistent lower and upper boundaries for type `FltF32FinGreaterOrEqualLessOrEqualSym`\nThe upper boundary `sym_hi_f32()` must be greater than or equal to the lower boundary `sym_lo_f32()`\nNote: the test is generated automatically by #[nutype] macro.\n");
        }
    }
}
pub use __nutype_FltF32FinGreaterOrEqualLessOrEqualSym__::FltF32FinGreaterOrEqualLessOrEqualSym;
pub use __nutype_FltF32FinGreaterOrEqualLessOrEqualSym__::FltF32FinGreaterOrEqualLessOrEqualSymError;
