// NUTYPE_VERIF_INPUT #[nutype(validate(finite, greater_or_equal = sym_lo_f64(), less_or_equal = sym_hi_f64()), derive(Debug, Clone, Copy, PartialEq, PartialOrd, AsRef, Deref, Borrow, Into, TryFrom, Eq, Ord))] pub struct FltF64FinGreaterOrEqualLessOrEqualSym(f64);
#[doc(hidden)]
#[allow(
    non_snake_case,
    reason = "we keep original structure name which is probably CamelCase"
)]
mod __nutype_FltF64FinGreaterOrEqualLessOrEqualSym__ {
    use super::*;
    #[derive(Clone, Copy, PartialEq, Debug, PartialOrd)]
    pub struct FltF64FinGreaterOrEqualLessOrEqualSym(f64);
    #[derive(Debug, Clone, PartialEq, Eq)]
    #[allow(clippy::enum_variant_names)]
    pub enum FltF64FinGreaterOrEqualLessOrEqualSymError {
        FiniteViolated,
        GreaterOrEqualViolated,
        LessOrEqualViolated,
    }
    impl ::core::fmt::Display for FltF64FinGreaterOrEqualLessOrEqualSymError {
        fn fmt(&self, f: &mut ::core::fmt::Formatter<'_>) -> ::core::fmt::Result {
            match self {
                FltF64FinGreaterOrEqualLessOrEqualSymError::FiniteViolated => write!(
                    f,
                    "{} is not finite.",
                    stringify!(FltF64FinGreaterOrEqualLessOrEqualSym)
                ),
                FltF64FinGreaterOrEqualLessOrEqualSymError::GreaterOrEqualViolated => write!(
                    f,
                    "{} is too small. The value must be greater or equal to {:#?}.",
                    stringify!(FltF64FinGreaterOrEqualLessOrEqualSym),
                    sym_lo_f64()
                ),
                FltF64FinGreaterOrEqualLessOrEqualSymError::LessOrEqualViolated => write!(
                    f,
                    "{} is too big. The value must be less than {:#?}.",
                    stringify!(FltF64FinGreaterOrEqualLessOrEqualSym),
                    sym_hi_f64()
                ),
            }
        }
    }
    impl ::core::error::Error for FltF64FinGreaterOrEqualLessOrEqualSymError {
        fn source(&self) -> Option<&(dyn ::core::error::Error + 'static)> {
            None
        }
    }
    impl FltF64FinGreaterOrEqualLessOrEqualSym {
        pub fn try_new(
            raw_value: f64,
        ) -> ::core::result::Result<Self, FltF64FinGreaterOrEqualLessOrEqualSymError> {
            let sanitized_value: f64 = Self::__sanitize__(raw_value);
            #[allow(clippy::question_mark)]
            if let Err(e) = Self::__validate__(&sanitized_value) {
                return Err(e);
            }
            Ok(FltF64FinGreaterOrEqualLessOrEqualSym(sanitized_value))
        }
        fn __sanitize__(mut value: f64) -> f64 {
            value
        }
        fn __validate__(
            val: &f64,
        ) -> core::result::Result<(), FltF64FinGreaterOrEqualLessOrEqualSymError> {
            let val = *val;
            if !val.is_finite() {
                return Err(FltF64FinGreaterOrEqualLessOrEqualSymError::FiniteViolated);
            }
            if val < sym_lo_f64() {
                return Err(FltF64FinGreaterOrEqualLessOrEqualSymError::GreaterOrEqualViolated);
            }
            if val > sym_hi_f64() {
                return Err(FltF64FinGreaterOrEqualLessOrEqualSymError::LessOrEqualViolated);
            }
            Ok(())
        }
    }
    impl FltF64FinGreaterOrEqualLessOrEqualSym {
        #[inline]
        pub fn into_inner(self) -> f64 {
            self.0
        }
    }
    impl ::core::convert::TryFrom<f64> for FltF64FinGreaterOrEqualLessOrEqualSym {
        type Error = FltF64FinGreaterOrEqualLessOrEqualSymError;
        #[inline]
        fn try_from(
            raw_value: f64,
        ) -> ::core::result::Result<FltF64FinGreaterOrEqualLessOrEqualSym, Self::Error> {
            Self::try_new(raw_value)
        }
    }
    #[allow(clippy::derive_ord_xor_partial_ord)]
    impl ::core::cmp::Ord for FltF64FinGreaterOrEqualLessOrEqualSym {
        fn cmp(&self, other: &Self) -> ::core::cmp::Ordering {
            self.partial_cmp(other).unwrap_or_else(||
            {
                let tp = "FltF64FinGreaterOrEqualLessOrEqualSym"; panic!
                ("{tp}::cmp() panicked, because partial_cmp() returned None. Could it be that you're using unsafe {tp}::new_unchecked() ?",
                tp = tp);
            })
        }
    }
    impl ::core::ops::Deref for FltF64FinGreaterOrEqualLessOrEqualSym {
        type Target = f64;
        #[inline]
        fn deref(&self) -> &Self::Target {
            &self.0
        }
    }
    impl ::core::cmp::Eq for FltF64FinGreaterOrEqualLessOrEqualSym {}
    impl ::core::convert::AsRef<f64> for FltF64FinGreaterOrEqualLessOrEqualSym {
        #[inline]
        fn as_ref(&self) -> &f64 {
            &self.0
        }
    }
    impl ::core::convert::From<FltF64FinGreaterOrEqualLessOrEqualSym> for f64 {
        #[inline]
        fn from(value: FltF64FinGreaterOrEqualLessOrEqualSym) -> Self {
            value.into_inner()
        }
    }
    impl ::core::borrow::Borrow<f64> for FltF64FinGreaterOrEqualLessOrEqualSym {
        #[inline]
        fn borrow(&self) -> &f64 {
            &self.0
        }
    }
    #[cfg(test)]
    mod tests {
        use super::*;
        #[test]
        fn should_have_consistent_lower_and_upper_boundaries() {
            assert!
            (sym_hi_f64() >= sym_lo_f64(),
            "\nInconsistent lower and upper boundaries for type `FltF64FinGreaterOrEqualLessOrEqualSym`\nThe upper boundary `sym_hi_f64()` must be greater than or equal to the lower boundary `sym_lo_f64()`\nNote: the test is generated automatically by #[nutype] macro.\n");
        }
    }
}
pub use __nutype_FltF64FinGreaterOrEqualLessOrEqualSym__::FltF64FinGreaterOrEqualLessOrEqualSym;
pub use __nutype_FltF64FinGreaterOrEqualLessOrEqualSym__::FltF64FinGreaterOrEqualLessOrEqualSymError;
