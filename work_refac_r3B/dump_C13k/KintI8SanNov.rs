// NUTYPE_VERIF_INPUT #[nutype(sanitize(with = san_i8), derive(Debug, Clone, Copy, PartialEq, Eq, PartialOrd, Ord, Hash, AsRef, Deref, Borrow, Into, From))] pub struct KintI8SanNov(i8);
#[doc(hidden)]
#[allow(
    non_snake_case,
    reason = "we keep original structure name which is probably CamelCase"
)]
mod __nutype_KintI8SanNov__ {
    use super::*;
    #[derive(Debug, Eq, Hash, Ord, Copy, PartialEq, PartialOrd, Clone)]
    pub struct KintI8SanNov(i8);
    impl KintI8SanNov {
        pub fn new(raw_value: i8) -> Self {
            Self(Self::__sanitize__(raw_value))
        }
        fn __sanitize__(mut value: i8) -> i8 {
            value = (san_i8)(value);
            value
        }
    }
    impl KintI8SanNov {
        #[inline]
        pub fn into_inner(self) -> i8 {
            self.0
        }
    }
    impl ::core::ops::Deref for KintI8SanNov {
        type Target = i8;
        #[inline]
        fn deref(&self) -> &Self::Target {
            &self.0
        }
    }
    impl ::core::convert::AsRef<i8> for KintI8SanNov {
        #[inline]
        fn as_ref(&self) -> &i8 {
            &self.0
        }
    }
    impl ::core::convert::From<i8> for KintI8SanNov {
        #[inline]
        fn from(raw_value: i8) -> Self {
            Self::new(raw_value)
        }
    }
    impl ::core::convert::From<KintI8SanNov> for i8 {
        #[inline]
        fn from(value: KintI8SanNov) -> Self {
            value.into_inner()
        }
    }
    impl ::core::borrow::Borrow<i8> for KintI8SanNov {
        #[inline]
        fn borrow(&self) -> &i8 {
            &self.0
        }
    }
    #[cfg(test)]
    mod tests {
        use super::*;
    }
}
pub use __nutype_KintI8SanNov__::KintI8SanNov;
