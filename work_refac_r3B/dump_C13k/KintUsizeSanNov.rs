// NUTYPE_VERIF_INPUT #[nutype(sanitize(with = san_usize), derive(Debug, Clone, Copy, PartialEq, Eq, PartialOrd, Ord, Hash, AsRef, Deref, Borrow, Into, From))] pub struct KintUsizeSanNov(usize);
#[doc(hidden)]
#[allow(
    non_snake_case,
    reason = "we keep original structure name which is probably CamelCase"
)]
mod __nutype_KintUsizeSanNov__ {
    use super::*;
    #[derive(Ord, Copy, Debug, PartialOrd, Hash, Clone, PartialEq, Eq)]
    pub struct KintUsizeSanNov(usize);
    impl KintUsizeSanNov {
        pub fn new(raw_value: usize) -> Self {
            Self(Self::__sanitize__(raw_value))
        }
        fn __sanitize__(mut value: usize) -> usize {
            value = (san_usize)(value);
            value
        }
    }
    impl KintUsizeSanNov {
        #[inline]
        pub fn into_inner(self) -> usize {
            self.0
        }
    }
    impl ::core::convert::From<KintUsizeSanNov> for usize {
        #[inline]
        fn from(value: KintUsizeSanNov) -> Self {
            value.into_inner()
        }
    }
    impl ::core::borrow::Borrow<usize> for KintUsizeSanNov {
        #[inline]
        fn borrow(&self) -> &usize {
            &self.0
        }
    }
    impl ::core::ops::Deref for KintUsizeSanNov {
        type Target = usize;
        #[inline]
        fn deref(&self) -> &Self::Target {
            &self.0
        }
    }
    impl ::core::convert::From<usize> for KintUsizeSanNov {
        #[inline]
        fn from(raw_value: usize) -> Self {
            Self::new(raw_value)
        }
    }
    impl ::core::convert::AsRef<usize> for KintUsizeSanNov {
        #[inline]
        fn as_ref(&self) -> &usize {
            &self.0
        }
    }
    #[cfg(test)]
    mod tests {
        use super::*;
    }
}
pub use __nutype_KintUsizeSanNov__::KintUsizeSanNov;
