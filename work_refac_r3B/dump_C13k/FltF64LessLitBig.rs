// NUTYPE_VERIF_INPUT #[nutype(validate(less = 1e30), derive(Debug, Clone, Copy, PartialEq, PartialOrd, AsRef, Deref, Borrow, Into, TryFrom))] pub struct FltF64LessLitBig(f64);
#[doc(hidden)]
#[allow(
    non_snake_case,
    reason = "we keep original structure name which is probably CamelCase"
)]
mod __nutype_FltF64LessLitBig__ {
    use super::*;
    #[derive(PartialOrd, Debug, PartialEq, Copy, Clone)]
    pub struct FltF64LessLitBig(f64);
    #[derive(Debug, Clone, PartialEq, Eq)]
    #[allow(clippy::enum_variant_names)]
    pub enum FltF64LessLitBigError {
        LessViolated,
    }
    impl ::core::fmt::Display for FltF64LessLitBigError {
        fn fmt(&self, f: &mut ::core::fmt::Formatter<'_>) -> ::core::fmt::Result {
            match self {
                FltF64LessLitBigError::LessViolated => write!(
                    f,
                    "{} is too big. The value must be less than {:#?}.",
                    stringify!(FltF64LessLitBig),
                    1000000000000000000000000000000f64
                ),
            }
        }
    }
    impl ::core::error::Error for FltF64LessLitBigError {
        fn source(&self) -> Option<&(dyn ::core::error::Error + 'static)> {
            None
        }
    }
    impl FltF64LessLitBig {
        pub fn try_new(raw_value: f64) -> ::core::result::Result<Self, FltF64LessLitBigError> {
            let sanitized_value: f64 = Self::__sanitize__(raw_value);
            #[allow(clippy::question_mark)]
            if let Err(e) = Self::__validate__(&sanitized_value) {
                return Err(e);
            }
            Ok(FltF64LessLitBig(sanitized_value))
        }
        fn __sanitize__(mut value: f64) -> f64 {
            value
        }
        fn __validate__(val: &f64) -> core::result::Result<(), FltF64LessLitBigError> {
            let val = *val;
            if val >= 1000000000000000000000000000000f64 {
                return Err(FltF64LessLitBigError::LessViolated);
            }
            Ok(())
        }
    }
    impl FltF64LessLitBig {
        #[inline]
        pub fn into_inner(self) -> f64 {
            self.0
        }
    }
    impl ::core::borrow::Borrow<f64> for FltF64LessLitBig {
        #[inline]
        fn borrow(&self) -> &f64 {
            &self.0
        }
    }
    impl ::core::convert::From<FltF64LessLitBig> for f64 {
        #[inline]
        fn from(value: FltF64LessLitBig) -> Self {
            value.into_inner()
        }
    }
    impl ::core::convert::AsRef<f64> for FltF64LessLitBig {
        #[inline]
        fn as_ref(&self) -> &f64 {
            &self.0
        }
    }
    impl ::core::convert::TryFrom<f64> for FltF64LessLitBig {
        type Error = FltF64LessLitBigError;
        #[inline]
        fn try_from(raw_value: f64) -> ::core::result::Result<FltF64LessLitBig, Self::Error> {
            Self::try_new(raw_value)
        }
    }
    impl ::core::ops::Deref for FltF64LessLitBig {
        type Target = f64;
        #[inline]
        fn deref(&self) -> &Self::Target {
            &self.0
        }
    }
    #[cfg(test)]
    mod tests {
        use super::*;
    }
}
pub use __nutype_FltF64LessLitBig__::FltF64LessLitBig;
pub use __nutype_FltF64LessLitBig__::FltF64LessLitBigError;
