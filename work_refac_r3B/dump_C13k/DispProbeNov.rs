// NUTYPE_VERIF_INPUT #[nutype(derive(Debug, Display))] pub struct DispProbeNov(Probe);
#[doc(hidden)]
#[allow(
    non_snake_case,
    reason = "we keep original structure name which is probably CamelCase"
)]
mod __nutype_DispProbeNov__ {
    use super::*;
    #[derive(Debug)]
    pub struct DispProbeNov(Probe);
    impl DispProbeNov {
        pub fn new(raw_value: Probe) -> Self {
            Self(Self::__sanitize__(raw_value))
        }
        fn __sanitize__(mut value: Probe) -> Probe {
            value
        }
    }
    impl DispProbeNov {
        #[inline]
        pub fn into_inner(self) -> Probe {
            self.0
        }
    }
    impl ::core::fmt::Display for DispProbeNov {
        #[inline]
        fn fmt(&self, formatter: &mut ::core::fmt::Formatter<'_>) -> ::core::fmt::Result {
            #[inline]
            fn display<T: ::core::fmt::Display>(
                inner: &T,
                formatter: &mut ::core::fmt::Formatter<'_>,
            ) -> ::core::fmt::Result {
                <T as ::core::fmt::Display>::fmt(inner, formatter)
            }
            let Self(inner) = self;
            display(inner, formatter)
        }
    }
    #[cfg(test)]
    mod tests {
        use super::*;
    }
}
pub use __nutype_DispProbeNov__::DispProbeNov;
