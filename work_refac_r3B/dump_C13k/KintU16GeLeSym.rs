// NUTYPE_VERIF_INPUT #[nutype(validate(greater_or_equal = sym_lo_u16(), less_or_equal = sym_hi_u16()), derive(Debug, Clone, Copy, PartialEq, Eq, PartialOrd, Ord, Hash, AsRef, Deref, Borrow, Into, TryFrom))] pub struct KintU16GeLeSym(u16);
#[doc(hidden)]
#[allow(
    non_snake_case,
    reason = "we keep original structure name which is probably CamelCase"
)]
mod __nutype_KintU16GeLeSym__ {
    use super::*;
    #[derive(Clone, Copy, PartialEq, Hash, Debug, PartialOrd, Ord, Eq)]
    pub struct KintU16GeLeSym(u16);
    #[derive(Debug, Clone, PartialEq, Eq)]
    #[allow(clippy::enum_variant_names)]
    pub enum KintU16GeLeSymError {
        GreaterOrEqualViolated,
        LessOrEqualViolated,
    }
    impl ::core::fmt::Display for KintU16GeLeSymError {
        fn fmt(&self, f: &mut ::core::fmt::Formatter<'_>) -> ::core::fmt::Result {
            match self {
                KintU16GeLeSymError::GreaterOrEqualViolated => write!(
                    f,
                    "{} is too small. The value must be greater or equal to {:#?}.",
                    stringify!(KintU16GeLeSym),
                    sym_lo_u16()
                ),
                KintU16GeLeSymError::LessOrEqualViolated => write!(
                    f,
                    "{} is too big. The value must be less or equal to {:#?}.",
                    stringify!(KintU16GeLeSym),
                    sym_hi_u16()
                ),
            }
        }
    }
    impl ::core::error::Error for KintU16GeLeSymError {
        fn source(&self) -> Option<&(dyn ::core::error::Error + 'static)> {
            None
        }
    }
    impl KintU16GeLeSym {
        pub fn try_new(raw_value: u16) -> ::core::result::Result<Self, KintU16GeLeSymError> {
            let sanitized_value: u16 = Self::__sanitize__(raw_value);
            #[allow(clippy::question_mark)]
            if let Err(e) = Self::__validate__(&sanitized_value) {
                return Err(e);
            }
            Ok(KintU16GeLeSym(sanitized_value))
        }
        fn __sanitize__(mut value: u16) -> u16 {
            value
        }
        fn __validate__(val: &u16) -> ::core::result::Result<(), KintU16GeLeSymError> {
            let val = *val;
            if val < sym_lo_u16() {
                return Err(KintU16GeLeSymError::GreaterOrEqualViolated);
            }
            if val > sym_hi_u16() {
                return Err(KintU16GeLeSymError::LessOrEqualViolated);
            }
            Ok(())
        }
    }
    impl KintU16GeLeSym {
        #[inline]
        pub fn into_inner(self) -> u16 {
            self.0
        }
    }
    impl ::core::ops::Deref for KintU16GeLeSym {
        type Target = u16;
        #[inline]
        fn deref(&self) -> &Self::Target {
            &self.0
        }
    }
    impl ::core::convert::From<KintU16GeLeSym> for u16 {
        #[inline]
        fn from(value: KintU16GeLeSym) -> Self {
            value.into_inner()
        }
    }
    impl ::core::convert::AsRef<u16> for KintU16GeLeSym {
        #[inline]
        fn as_ref(&self) -> &u16 {
            &self.0
        }
    }
    impl ::core::convert::TryFrom<u16> for KintU16GeLeSym {
        type Error = KintU16GeLeSymError;
        #[inline]
        fn try_from(raw_value: u16) -> ::core::result::Result<KintU16GeLeSym, Self::Error> {
            Self::try_new(raw_value)
        }
    }
    impl ::core::borrow::Borrow<u16> for KintU16GeLeSym {
        #[inline]
        fn borrow(&self) -> &u16 {
            &self.0
        }
    }
    #[cfg(test)]
    mod tests {
        use super::*;
        #[test]
        fn should_have_consistent_lower_and_upper_boundaries() {
            assert!
            (sym_hi_u16() >= sym_lo_u16(),
            "\nInconsistent lower and upper boundaries for type `KintU16GeLeSym`\nThe upper boundary `sym_hi_u16()` must be greater than or equal to the lower boundary `sym_lo_u16()`\nNote: the test is generated automatically by #[nutype] macro.\n");
        }
    }
}
pub use __nutype_KintU16GeLeSym__::KintU16GeLeSym;
pub use __nutype_KintU16GeLeSym__::KintU16GeLeSymError;
