// NUTYPE_VERIF_INPUT #[nutype(validate(greater_or_equal = sym_lo_f64()), derive(Debug, Clone, Copy, PartialEq, PartialOrd, AsRef, Deref, Borrow, Into, TryFrom))] pub struct FltF64GreaterOrEqualSym(f64);
#[doc(hidden)]
#[allow(
    non_snake_case,
    reason = "we keep original structure name which is probably CamelCase"
)]
mod __nutype_FltF64GreaterOrEqualSym__ {
    use super::*;
    #[derive(Debug, Copy, PartialEq, PartialOrd, Clone)]
    pub struct FltF64GreaterOrEqualSym(f64);
    #[derive(Debug, Clone, PartialEq, Eq)]
    #[allow(clippy::enum_variant_names)]
    pub enum FltF64GreaterOrEqualSymError {
        GreaterOrEqualViolated,
    }
    impl ::core::fmt::Display for FltF64GreaterOrEqualSymError {
        fn fmt(&self, f: &mut ::core::fmt::Formatter<'_>) -> ::core::fmt::Result {
            match self {
                FltF64GreaterOrEqualSymError::GreaterOrEqualViolated => write!(
                    f,
                    "{} is too small. The value must be greater or equal to {:#?}.",
                    stringify!(FltF64GreaterOrEqualSym),
                    sym_lo_f64()
                ),
            }
        }
    }
    impl ::core::error::Error for FltF64GreaterOrEqualSymError {
        fn source(&self) -> Option<&(dyn ::core::error::Error + 'static)> {
            None
        }
    }
    impl FltF64GreaterOrEqualSym {
        pub fn try_new(
            raw_value: f64,
        ) -> ::core::result::Result<Self, FltF64GreaterOrEqualSymError> {
            let sanitized_value: f64 = Self::__sanitize__(raw_value);
            #[allow(clippy::question_mark)]
            if let Err(e) = Self::__validate__(&sanitized_value) {
                return Err(e);
            }
            Ok(FltF64GreaterOrEqualSym(sanitized_value))
        }
        fn __sanitize__(mut value: f64) -> f64 {
            value
        }
        fn __validate__(val: &f64) -> core::result::Result<(), FltF64GreaterOrEqualSymError> {
            let val = *val;
            if val < sym_lo_f64() {
                return Err(FltF64GreaterOrEqualSymError::GreaterOrEqualViolated);
            }
            Ok(())
        }
    }
    impl FltF64GreaterOrEqualSym {
        #[inline]
        pub fn into_inner(self) -> f64 {
            self.0
        }
    }
    impl ::core::convert::TryFrom<f64> for FltF64GreaterOrEqualSym {
        type Error = FltF64GreaterOrEqualSymError;
        #[inline]
        fn try_from(
            raw_value: f64,
        ) -> ::core::result::Result<FltF64GreaterOrEqualSym, Self::Error> {
            Self::try_new(raw_value)
        }
    }
    impl ::core::ops::Deref for FltF64GreaterOrEqualSym {
        type Target = f64;
        #[inline]
        fn deref(&self) -> &Self::Target {
            &self.0
        }
    }
    impl ::core::convert::From<FltF64GreaterOrEqualSym> for f64 {
        #[inline]
        fn from(value: FltF64GreaterOrEqualSym) -> Self {
            value.into_inner()
        }
    }
    impl ::core::convert::AsRef<f64> for FltF64GreaterOrEqualSym {
        #[inline]
        fn as_ref(&self) -> &f64 {
            &self.0
        }
    }
    impl ::core::borrow::Borrow<f64> for FltF64GreaterOrEqualSym {
        #[inline]
        fn borrow(&self) -> &f64 {
            &self.0
        }
    }
    #[cfg(test)]
    mod tests {
        use super::*;
    }
}
pub use __nutype_FltF64GreaterOrEqualSym__::FltF64GreaterOrEqualSym;
pub use __nutype_FltF64GreaterOrEqualSym__::FltF64GreaterOrEqualSymError;
