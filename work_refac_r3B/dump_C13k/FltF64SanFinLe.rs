// NUTYPE_VERIF_INPUT #[nutype(sanitize(with = san_f64), validate(finite, less_or_equal = sym_hi_f64()), derive(Debug, Clone, Copy, PartialEq, PartialOrd, AsRef, Deref, Borrow, Into, TryFrom, Eq, Ord))] pub struct FltF64SanFinLe(f64);
#[doc(hidden)]
#[allow(
    non_snake_case,
    reason = "we keep original structure name which is probably CamelCase"
)]
mod __nutype_FltF64SanFinLe__ {
    use super::*;
    #[derive(Clone, Debug, Copy, PartialOrd, PartialEq)]
    pub struct FltF64SanFinLe(f64);
    #[derive(Debug, Clone, PartialEq, Eq)]
    #[allow(clippy::enum_variant_names)]
    pub enum FltF64SanFinLeError {
        FiniteViolated,
        LessOrEqualViolated,
    }
    impl ::core::fmt::Display for FltF64SanFinLeError {
        fn fmt(&self, f: &mut ::core::fmt::Formatter<'_>) -> ::core::fmt::Result {
            match self {
                FltF64SanFinLeError::FiniteViolated => {
                    write!(f, "{} is not finite.", stringify!(FltF64SanFinLe))
                }
                FltF64SanFinLeError::LessOrEqualViolated => write!(
                    f,
                    "{} is too big. The value must be less than {:#?}.",
                    stringify!(FltF64SanFinLe),
                    sym_hi_f64()
                ),
            }
        }
    }
    impl ::core::error::Error for FltF64SanFinLeError {
        fn source(&self) -> Option<&(dyn ::core::error::Error + 'static)> {
            None
        }
    }
    impl FltF64SanFinLe {
        pub fn try_new(raw_value: f64) -> ::core::result::Result<Self, FltF64SanFinLeError> {
            let sanitized_value: f64 = Self::__sanitize__(raw_value);
            #[allow(clippy::question_mark)]
            if let Err(e) = Self::__validate__(&sanitized_value) {
                return Err(e);
            }
            Ok(FltF64SanFinLe(sanitized_value))
        }
        fn __sanitize__(mut value: f64) -> f64 {
            value = (san_f64)(value);
            value
        }
        fn __validate__(val: &f64) -> core::result::Result<(), FltF64SanFinLeError> {
            let val = *val;
            if !val.is_finite() {
                return Err(FltF64SanFinLeError::FiniteViolated);
            }
            if val > sym_hi_f64() {
                return Err(FltF64SanFinLeError::LessOrEqualViolated);
            }
            Ok(())
        }
    }
    impl FltF64SanFinLe {
        #[inline]
        pub fn into_inner(self) -> f64 {
            self.0
        }
    }
    impl ::core::convert::TryFrom<f64> for FltF64SanFinLe {
        type Error = FltF64SanFinLeError;
        #[inline]
        fn try_from(raw_value: f64) -> ::core::result::Result<FltF64SanFinLe, Self::Error> {
            Self::try_new(raw_value)
        }
    }
    impl ::core::borrow::Borrow<f64> for FltF64SanFinLe {
        #[inline]
        fn borrow(&self) -> &f64 {
            &self.0
        }
    }
    impl ::core::convert::AsRef<f64> for FltF64SanFinLe {
        #[inline]
        fn as_ref(&self) -> &f64 {
            &self.0
        }
    }
    impl ::core::convert::From<FltF64SanFinLe> for f64 {
        #[inline]
        fn from(value: FltF64SanFinLe) -> Self {
            value.into_inner()
        }
    }
    impl ::core::ops::Deref for FltF64SanFinLe {
        type Target = f64;
        #[inline]
        fn deref(&self) -> &Self::Target {
            &self.0
        }
    }
    impl ::core::cmp::Eq for FltF64SanFinLe {}
    #[allow(clippy::derive_ord_xor_partial_ord)]
    impl ::core::cmp::Ord for FltF64SanFinLe {
        fn cmp(&self, other: &Self) -> ::core::cmp::Ordering {
            self.partial_cmp(other).unwrap_or_else(||
            {
                let tp = "FltF64SanFinLe"; panic!
                ("{tp}::cmp() panicked, because partial_cmp() returned None. Could it be that you're using unsafe {tp}::new_unchecked() ?",
                tp = tp);
            })
        }
    }
    #[cfg(test)]
    mod tests {
        use super::*;
    }
}
pub use __nutype_FltF64SanFinLe__::FltF64SanFinLe;
pub use __nutype_FltF64SanFinLe__::FltF64SanFinLeError;
