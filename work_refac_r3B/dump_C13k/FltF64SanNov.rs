// NUTYPE_VERIF_INPUT #[nutype(sanitize(with = san_f64), derive(Debug, Clone, Copy, PartialEq, PartialOrd, AsRef, Deref, Borrow, Into, From))] pub struct FltF64SanNov(f64);
#[doc(hidden)]
#[allow(
    non_snake_case,
    reason = "we keep original structure name which is probably CamelCase"
)]
mod __nutype_FltF64SanNov__ {
    use super::*;
    #[derive(Debug, Copy, Clone, PartialEq, PartialOrd)]
    pub struct FltF64SanNov(f64);
    impl FltF64SanNov {
        pub fn new(raw_value: f64) -> Self {
            Self(Self::__sanitize__(raw_value))
        }
        fn __sanitize__(mut value: f64) -> f64 {
            value = (san_f64)(value);
            value
        }
    }
    impl FltF64SanNov {
        #[inline]
        pub fn into_inner(self) -> f64 {
            self.0
        }
    }
    impl ::core::borrow::Borrow<f64> for FltF64SanNov {
        #[inline]
        fn borrow(&self) -> &f64 {
            &self.0
        }
    }
    impl ::core::convert::From<FltF64SanNov> for f64 {
        #[inline]
        fn from(value: FltF64SanNov) -> Self {
            value.into_inner()
        }
    }
    impl ::core::convert::AsRef<f64> for FltF64SanNov {
        #[inline]
        fn as_ref(&self) -> &f64 {
            &self.0
        }
    }
    impl ::core::ops::Deref for FltF64SanNov {
        type Target = f64;
        #[inline]
        fn deref(&self) -> &Self::Target {
            &self.0
        }
    }
    impl ::core::convert::From<f64> for FltF64SanNov {
        #[inline]
        fn from(raw_value: f64) -> Self {
            Self::new(raw_value)
        }
    }
    #[cfg(test)]
    mod tests {
        use super::*;
    }
}
pub use __nutype_FltF64SanNov__::FltF64SanNov;
