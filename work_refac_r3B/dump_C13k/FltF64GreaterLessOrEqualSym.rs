// NUTYPE_VERIF_INPUT #[nutype(validate(greater = sym_lo_f64(), less_or_equal = sym_hi_f64()), derive(Debug, Clone, Copy, PartialEq, PartialOrd, AsRef, Deref, Borrow, Into, TryFrom))] pub struct FltF64GreaterLessOrEqualSym(f64);
#[doc(hidden)]
#[allow(
    non_snake_case,
    reason = "we keep original structure name which is probably CamelCase"
)]
mod __nutype_FltF64GreaterLessOrEqualSym__ {
    use super::*;
    #[derive(Copy, Debug, Clone, PartialOrd, PartialEq)]
    pub struct FltF64GreaterLessOrEqualSym(f64);
    #[derive(Debug, Clone, PartialEq, Eq)]
    #[allow(clippy::enum_variant_names)]
    pub enum FltF64GreaterLessOrEqualSymError {
        GreaterViolated,
        LessOrEqualViolated,
    }
    impl ::core::fmt::Display for FltF64GreaterLessOrEqualSymError {
        fn fmt(&self, f: &mut ::core::fmt::Formatter<'_>) -> ::core::fmt::Result {
            match self {
                FltF64GreaterLessOrEqualSymError::GreaterViolated => write!(
                    f,
                    "{} is too small. The value must be greater than {:#?}.",
                    stringify!(FltF64GreaterLessOrEqualSym),
                    sym_lo_f64()
                ),
                FltF64GreaterLessOrEqualSymError::LessOrEqualViolated => write!(
                    f,
                    "{} is too big. The value must be less than {:#?}.",
                    stringify!(FltF64GreaterLessOrEqualSym),
                    sym_hi_f64()
                ),
            }
        }
    }
    impl ::core::error::Error for FltF64GreaterLessOrEqualSymError {
        fn source(&self) -> Option<&(dyn ::core::error::Error + 'static)> {
            None
        }
    }
    impl FltF64GreaterLessOrEqualSym {
        pub fn try_new(
            raw_value: f64,
        ) -> ::core::result::Result<Self, FltF64GreaterLessOrEqualSymError> {
            let sanitized_value: f64 = Self::__sanitize__(raw_value);
            #[allow(clippy::question_mark)]
            if let Err(e) = Self::__validate__(&sanitized_value) {
                return Err(e);
            }
            Ok(FltF64GreaterLessOrEqualSym(sanitized_value))
        }
        fn __sanitize__(mut value: f64) -> f64 {
            value
        }
        fn __validate__(val: &f64) -> core::result::Result<(), FltF64GreaterLessOrEqualSymError> {
            let val = *val;
            if val <= sym_lo_f64() {
                return Err(FltF64GreaterLessOrEqualSymError::GreaterViolated);
            }
            if val > sym_hi_f64() {
                return Err(FltF64GreaterLessOrEqualSymError::LessOrEqualViolated);
            }
            Ok(())
        }
    }
    impl FltF64GreaterLessOrEqualSym {
        #[inline]
        pub fn into_inner(self) -> f64 {
            self.0
        }
    }
    impl ::core::convert::AsRef<f64> for FltF64GreaterLessOrEqualSym {
        #[inline]
        fn as_ref(&self) -> &f64 {
            &self.0
        }
    }
    impl ::core::borrow::Borrow<f64> for FltF64GreaterLessOrEqualSym {
        #[inline]
        fn borrow(&self) -> &f64 {
            &self.0
        }
    }
    impl ::core::convert::TryFrom<f64> for FltF64GreaterLessOrEqualSym {
        type Error = FltF64GreaterLessOrEqualSymError;
        #[inline]
        fn try_from(
            raw_value: f64,
        ) -> ::core::result::Result<FltF64GreaterLessOrEqualSym, Self::Error> {
            Self::try_new(raw_value)
        }
    }
    impl ::core::ops::Deref for FltF64GreaterLessOrEqualSym {
        type Target = f64;
        #[inline]
        fn deref(&self) -> &Self::Target {
            &self.0
        }
    }
    impl ::core::convert::From<FltF64GreaterLessOrEqualSym> for f64 {
        #[inline]
        fn from(value: FltF64GreaterLessOrEqualSym) -> Self {
            value.into_inner()
        }
    }
    #[cfg(test)]
    mod tests {
        use super::*;
        #[test]
        fn should_have_consistent_lower_and_upper_boundaries() {
            assert!
            (sym_hi_f64() >= sym_lo_f64(),
            "\nInconsistent lower and upper boundaries for type `FltF64GreaterLessOrEqualSym`\nThe upper boundary `sym_hi_f64()` must be greater than or equal to the lower boundary `sym_lo_f64()`\nNote: the test is generated automatically by #[nutype] macro.\n");
        }
    }
}
pub use __nutype_FltF64GreaterLessOrEqualSym__::FltF64GreaterLessOrEqualSym;
pub use __nutype_FltF64GreaterLessOrEqualSym__::FltF64GreaterLessOrEqualSymError;
