// NUTYPE_VERIF_INPUT #[nutype(validate(greater_or_equal = sym_lo_u64(), less_or_equal = sym_hi_u64()), derive(Debug, Clone, Copy, PartialEq, Eq, PartialOrd, Ord, Hash, AsRef, Deref, Borrow, Into, TryFrom))] pub struct KintU64GeLeSym(u64);
#[doc(hidden)]
#[allow(
    non_snake_case,
    reason = "we keep original structure name which is probably CamelCase"
)]
mod __nutype_KintU64GeLeSym__ {
    use super::*;
    #[derive(Eq, Hash, Copy, Ord, Clone, Debug, PartialOrd, PartialEq)]
    pub struct KintU64GeLeSym(u64);
    #[derive(Debug, Clone, PartialEq, Eq)]
    #[allow(clippy::enum_variant_names)]
    pub enum KintU64GeLeSymError {
        GreaterOrEqualViolated,
        LessOrEqualViolated,
    }
    impl ::core::fmt::Display for KintU64GeLeSymError {
        fn fmt(&self, f: &mut ::core::fmt::Formatter<'_>) -> ::core::fmt::Result {
            match self {
                KintU64GeLeSymError::GreaterOrEqualViolated => write!(
                    f,
                    "{} is too small. The value must be greater or equal to {:#?}.",
                    stringify!(KintU64GeLeSym),
                    sym_lo_u64()
                ),
                KintU64GeLeSymError::LessOrEqualViolated => write!(
                    f,
                    "{} is too big. The value must be less or equal to {:#?}.",
                    stringify!(KintU64GeLeSym),
                    sym_hi_u64()
                ),
            }
        }
    }
    impl ::core::error::Error for KintU64GeLeSymError {
        fn source(&self) -> Option<&(dyn ::core::error::Error + 'static)> {
            None
        }
    }
    impl KintU64GeLeSym {
        pub fn try_new(raw_value: u64) -> ::core::result::Result<Self, KintU64GeLeSymError> {
            let sanitized_value: u64 = Self::__sanitize__(raw_value);
            #[allow(clippy::question_mark)]
            if let Err(e) = Self::__validate__(&sanitized_value) {
                return Err(e);
            }
            Ok(KintU64GeLeSym(sanitized_value))
        }
        fn __sanitize__(mut value: u64) -> u64 {
            value
        }
        fn __validate__(val: &u64) -> ::core::result::Result<(), KintU64GeLeSymError> {
            let val = *val;
            if val < sym_lo_u64() {
                return Err(KintU64GeLeSymError::GreaterOrEqualViolated);
            }
            if val > sym_hi_u64() {
                return Err(KintU64GeLeSymError::LessOrEqualViolated);
            }
            Ok(())
        }
    }
    impl KintU64GeLeSym {
        #[inline]
        pub fn into_inner(self) -> u64 {
            self.0
        }
    }
    impl ::core::convert::AsRef<u64> for KintU64GeLeSym {
        #[inline]
        fn as_ref(&self) -> &u64 {
            &self.0
        }
    }
    impl ::core::convert::TryFrom<u64> for KintU64GeLeSym {
        type Error = KintU64GeLeSymError;
        #[inline]
        fn try_from(raw_value: u64) -> ::core::result::Result<KintU64GeLeSym, Self::Error> {
            Self::try_new(raw_value)
        }
    }
    impl ::core::ops::Deref for KintU64GeLeSym {
        type Target = u64;
        #[inline]
        fn deref(&self) -> &Self::Target {
            &self.0
        }
    }
    impl ::core::borrow::Borrow<u64> for KintU64GeLeSym {
        #[inline]
        fn borrow(&self) -> &u64 {
            &self.0
        }
    }
    impl ::core::convert::From<KintU64GeLeSym> for u64 {
        #[inline]
        fn from(value: KintU64GeLeSym) -> Self {
            value.into_inner()
        }
    }
    #[cfg(test)]
    mod tests {
        use super::*;
        #[test]
        fn should_have_consistent_lower_and_upper_boundaries() {
            assert!
            (sym_hi_u64() >= sym_lo_u64(),
            "\nInconsistent lower and upper boundaries for type `KintU64GeLeSym`\nThe upper boundary `sym_hi_u64()` must be greater than or equal to the lower boundary `sym_lo_u64()`\nNote: the test is generated automatically by #[nutype] macro.\n");
        }
    }
}
pub use __nutype_KintU64GeLeSym__::KintU64GeLeSym;
pub use __nutype_KintU64GeLeSym__::KintU64GeLeSymError;
