// NUTYPE_VERIF_INPUT #[nutype(sanitize(with = san_i32), derive(Debug, Clone, Copy, PartialEq, Eq, PartialOrd, Ord, Hash, AsRef, Deref, Borrow, Into, From))] pub struct KintI32SanNov(i32);
#[doc(hidden)]
#[allow(
    non_snake_case,
    reason = "we keep original structure name which is probably CamelCase"
)]
mod __nutype_KintI32SanNov__ {
    use super::*;
    #[derive(PartialOrd, PartialEq, Eq, Hash, Copy, Clone, Ord, Debug)]
    pub struct KintI32SanNov(i32);
    impl KintI32SanNov {
        pub fn new(raw_value: i32) -> Self {
            Self(Self::__sanitize__(raw_value))
        }
        fn __sanitize__(mut value: i32) -> i32 {
            value = (san_i32)(value);
            value
        }
    }
    impl KintI32SanNov {
        #[inline]
        pub fn into_inner(self) -> i32 {
            self.0
        }
    }
    impl ::core::convert::From<i32> for KintI32SanNov {
        #[inline]
        fn from(raw_value: i32) -> Self {
            Self::new(raw_value)
        }
    }
    impl ::core::ops::Deref for KintI32SanNov {
        type Target = i32;
        #[inline]
        fn deref(&self) -> &Self::Target {
            &self.0
        }
    }
    impl ::core::convert::AsRef<i32> for KintI32SanNov {
        #[inline]
        fn as_ref(&self) -> &i32 {
            &self.0
        }
    }
    impl ::core::convert::From<KintI32SanNov> for i32 {
        #[inline]
        fn from(value: KintI32SanNov) -> Self {
            value.into_inner()
        }
    }
    impl ::core::borrow::Borrow<i32> for KintI32SanNov {
        #[inline]
        fn borrow(&self) -> &i32 {
            &self.0
        }
    }
    #[cfg(test)]
    mod tests {
        use super::*;
    }
}
pub use __nutype_KintI32SanNov__::KintI32SanNov;
