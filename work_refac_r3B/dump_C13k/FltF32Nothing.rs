// NUTYPE_VERIF_INPUT #[nutype(derive(Debug, Clone, Copy, PartialEq, PartialOrd, AsRef, Deref, Borrow, Into, From))] pub struct FltF32Nothing(f32);
#[doc(hidden)]
#[allow(
    non_snake_case,
    reason = "we keep original structure name which is probably CamelCase"
)]
mod __nutype_FltF32Nothing__ {
    use super::*;
    #[derive(Clone, Debug, PartialOrd, PartialEq, Copy)]
    pub struct FltF32Nothing(f32);
    impl FltF32Nothing {
        pub fn new(raw_value: f32) -> Self {
            Self(Self::__sanitize__(raw_value))
        }
        fn __sanitize__(mut value: f32) -> f32 {
            value
        }
    }
    impl FltF32Nothing {
        #[inline]
        pub fn into_inner(self) -> f32 {
            self.0
        }
    }
    impl ::core::convert::AsRef<f32> for FltF32Nothing {
        #[inline]
        fn as_ref(&self) -> &f32 {
            &self.0
        }
    }
    impl ::core::ops::Deref for FltF32Nothing {
        type Target = f32;
        #[inline]
        fn deref(&self) -> &Self::Target {
            &self.0
        }
    }
    impl ::core::convert::From<f32> for FltF32Nothing {
        #[inline]
        fn from(raw_value: f32) -> Self {
            Self::new(raw_value)
        }
    }
    impl ::core::convert::From<FltF32Nothing> for f32 {
        #[inline]
        fn from(value: FltF32Nothing) -> Self {
            value.into_inner()
        }
    }
    impl ::core::borrow::Borrow<f32> for FltF32Nothing {
        #[inline]
        fn borrow(&self) -> &f32 {
            &self.0
        }
    }
    #[cfg(test)]
    mod tests {
        use super::*;
    }
}
pub use __nutype_FltF32Nothing__::FltF32Nothing;
