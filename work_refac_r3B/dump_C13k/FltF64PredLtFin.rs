// NUTYPE_VERIF_INPUT #[nutype(validate(predicate = pred_f64, less = sym_hi_f64(), finite), derive(Debug, Clone, Copy, PartialEq, PartialOrd, AsRef, Deref, Borrow, Into, TryFrom, Eq, Ord))] pub struct FltF64PredLtFin(f64);
#[doc(hidden)]
#[allow(
    non_snake_case,
    reason = "we keep original structure name which is probably CamelCase"
)]
mod __nutype_FltF64PredLtFin__ {
    use super::*;
    #[derive(PartialEq, Clone, PartialOrd, Debug, Copy)]
    pub struct FltF64PredLtFin(f64);
    #[derive(Debug, Clone, PartialEq, Eq)]
    #[allow(clippy::enum_variant_names)]
    pub enum FltF64PredLtFinError {
        PredicateViolated,
        LessViolated,
        FiniteViolated,
    }
    impl ::core::fmt::Display for FltF64PredLtFinError {
        fn fmt(&self, f: &mut ::core::fmt::Formatter<'_>) -> ::core::fmt::Result {
            match self {
                FltF64PredLtFinError::PredicateViolated => write!(
                    f,
                    "{} failed the predicate test.",
                    stringify!(FltF64PredLtFin)
                ),
                FltF64PredLtFinError::LessViolated => write!(
                    f,
                    "{} is too big. The value must be less than {:#?}.",
                    stringify!(FltF64PredLtFin),
                    sym_hi_f64()
                ),
                FltF64PredLtFinError::FiniteViolated => {
                    write!(f, "{} is not finite.", stringify!(FltF64PredLtFin))
                }
            }
        }
    }
    impl ::core::error::Error for FltF64PredLtFinError {
        fn source(&self) -> Option<&(dyn ::core::error::Error + 'static)> {
            None
        }
    }
    impl FltF64PredLtFin {
        pub fn try_new(raw_value: f64) -> ::core::result::Result<Self, FltF64PredLtFinError> {
            let sanitized_value: f64 = Self::__sanitize__(raw_value);
            #[allow(clippy::question_mark)]
            if let Err(e) = Self::__validate__(&sanitized_value) {
                return Err(e);
            }
            Ok(FltF64PredLtFin(sanitized_value))
        }
        fn __sanitize__(mut value: f64) -> f64 {
            value
        }
        fn __validate__(val: &f64) -> core::result::Result<(), FltF64PredLtFinError> {
            let val = *val;
            if !(pred_f64)(&val) {
                return Err(FltF64PredLtFinError::PredicateViolated);
            }
            if val >= sym_hi_f64() {
                return Err(FltF64PredLtFinError::LessViolated);
            }
            if !val.is_finite() {
                return Err(FltF64PredLtFinError::FiniteViolated);
            }
            Ok(())
        }
    }
    impl FltF64PredLtFin {
        #[inline]
        pub fn into_inner(self) -> f64 {
            self.0
        }
    }
    impl ::core::cmp::Eq for FltF64PredLtFin {}
    impl ::core::convert::From<FltF64PredLtFin> for f64 {
        #[inline]
        fn from(value: FltF64PredLtFin) -> Self {
            value.into_inner()
        }
    }
    impl ::core::ops::Deref for FltF64PredLtFin {
        type Target = f64;
        #[inline]
        fn deref(&self) -> &Self::Target {
            &self.0
        }
    }
    impl ::core::borrow::Borrow<f64> for FltF64PredLtFin {
        #[inline]
        fn borrow(&self) -> &f64 {
            &self.0
        }
    }
    impl ::core::convert::AsRef<f64> for FltF64PredLtFin {
        #[inline]
        fn as_ref(&self) -> &f64 {
            &self.0
        }
    }
    impl ::core::convert::TryFrom<f64> for FltF64PredLtFin {
        type Error = FltF64PredLtFinError;
        #[inline]
        fn try_from(raw_value: f64) -> ::core::result::Result<FltF64PredLtFin, Self::Error> {
            Self::try_new(raw_value)
        }
    }
    #[allow(clippy::derive_ord_xor_partial_ord)]
    impl ::core::cmp::Ord for FltF64PredLtFin {
        fn cmp(&self, other: &Self) -> ::core::cmp::Ordering {
            self.partial_cmp(other).unwrap_or_else(||
            {
                let tp = "FltF64PredLtFin"; panic!
                ("{tp}::cmp() panicked, because partial_cmp() returned None. Could it be that you're using unsafe {tp}::new_unchecked() ?",
                tp = tp);
            })
        }
    }
    #[cfg(test)]
    mod tests {
        use super::*;
    }
}
pub use __nutype_FltF64PredLtFin__::FltF64PredLtFin;
pub use __nutype_FltF64PredLtFin__::FltF64PredLtFinError;
