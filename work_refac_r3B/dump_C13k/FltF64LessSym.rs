// NUTYPE_VERIF_INPUT #[nutype(validate(less = sym_hi_f64()), derive(Debug, Clone, Copy, PartialEq, PartialOrd, AsRef, Deref, Borrow, Into, TryFrom))] pub struct FltF64LessSym(f64);
#[doc(hidden)]
#[allow(
    non_snake_case,
    reason = "we keep original structure name which is probably CamelCase"
)]
mod __nutype_FltF64LessSym__ {
    use super::*;
    #[derive(Debug, Clone, PartialOrd, PartialEq, Copy)]
    pub struct FltF64LessSym(f64);
    #[derive(Debug, Clone, PartialEq, Eq)]
    #[allow(clippy::enum_variant_names)]
    pub enum FltF64LessSymError {
        LessViolated,
    }
    impl ::core::fmt::Display for FltF64LessSymError {
        fn fmt(&self, f: &mut ::core::fmt::Formatter<'_>) -> ::core::fmt::Result {
            match self {
                FltF64LessSymError::LessViolated => write!(
                    f,
                    "{} is too big. The value must be less than {:#?}.",
                    stringify!(FltF64LessSym),
                    sym_hi_f64()
                ),
            }
        }
    }
    impl ::core::error::Error for FltF64LessSymError {
        fn source(&self) -> Option<&(dyn ::core::error::Error + 'static)> {
            None
        }
    }
    impl FltF64LessSym {
        pub fn try_new(raw_value: f64) -> ::core::result::Result<Self, FltF64LessSymError> {
            let sanitized_value: f64 = Self::__sanitize__(raw_value);
            #[allow(clippy::question_mark)]
            if let Err(e) = Self::__validate__(&sanitized_value) {
                return Err(e);
            }
            Ok(FltF64LessSym(sanitized_value))
        }
        fn __sanitize__(mut value: f64) -> f64 {
            value
        }
        fn __validate__(val: &f64) -> core::result::Result<(), FltF64LessSymError> {
            let val = *val;
            if val >= sym_hi_f64() {
                return Err(FltF64LessSymError::LessViolated);
            }
            Ok(())
        }
    }
    impl FltF64LessSym {
        #[inline]
        pub fn into_inner(self) -> f64 {
            self.0
        }
    }
    impl ::core::ops::Deref for FltF64LessSym {
        type Target = f64;
        #[inline]
        fn deref(&self) -> &Self::Target {
            &self.0
        }
    }
    impl ::core::convert::AsRef<f64> for FltF64LessSym {
        #[inline]
        fn as_ref(&self) -> &f64 {
            &self.0
        }
    }
    impl ::core::convert::From<FltF64LessSym> for f64 {
        #[inline]
        fn from(value: FltF64LessSym) -> Self {
            value.into_inner()
        }
    }
    impl ::core::convert::TryFrom<f64> for FltF64LessSym {
        type Error = FltF64LessSymError;
        #[inline]
        fn try_from(raw_value: f64) -> ::core::result::Result<FltF64LessSym, Self::Error> {
            Self::try_new(raw_value)
        }
    }
    impl ::core::borrow::Borrow<f64> for FltF64LessSym {
        #[inline]
        fn borrow(&self) -> &f64 {
            &self.0
        }
    }
    #[cfg(test)]
    mod tests {
        use super::*;
    }
}
pub use __nutype_FltF64LessSym__::FltF64LessSym;
pub use __nutype_FltF64LessSym__::FltF64LessSymError;
