// NUTYPE_VERIF_INPUT #[nutype(validate(greater_or_equal = sym_lo_f64(), less_or_equal = sym_hi_f64()), derive(Debug, Clone, Copy, PartialEq, PartialOrd, AsRef, Deref, Borrow, Into, TryFrom))] pub struct FltF64GreaterOrEqualLessOrEqualSym(f64);
#[doc(hidden)]
#[allow(
    non_snake_case,
    reason = "we keep original structure name which is probably CamelCase"
)]
mod __nutype_FltF64GreaterOrEqualLessOrEqualSym__ {
    use super::*;
    #[derive(PartialOrd, Clone, PartialEq, Copy, Debug)]
    pub struct FltF64GreaterOrEqualLessOrEqualSym(f64);
    #[derive(Debug, Clone, PartialEq, Eq)]
    #[allow(clippy::enum_variant_names)]
    pub enum FltF64GreaterOrEqualLessOrEqualSymError {
        GreaterOrEqualViolated,
        LessOrEqualViolated,
    }
    impl ::core::fmt::Display for FltF64GreaterOrEqualLessOrEqualSymError {
        fn fmt(&self, f: &mut ::core::fmt::Formatter<'_>) -> ::core::fmt::Result {
            match self {
                FltF64GreaterOrEqualLessOrEqualSymError::GreaterOrEqualViolated => write!(
                    f,
                    "{} is too small. The value must be greater or equal to {:#?}.",
                    stringify!(FltF64GreaterOrEqualLessOrEqualSym),
                    sym_lo_f64()
                ),
                FltF64GreaterOrEqualLessOrEqualSymError::LessOrEqualViolated => write!(
                    f,
                    "{} is too big. The value must be less than {:#?}.",
                    stringify!(FltF64GreaterOrEqualLessOrEqualSym),
                    sym_hi_f64()
                ),
            }
        }
    }
    impl ::core::error::Error for FltF64GreaterOrEqualLessOrEqualSymError {
        fn source(&self) -> Option<&(dyn ::core::error::Error + 'static)> {
            None
        }
    }
    impl FltF64GreaterOrEqualLessOrEqualSym {
        pub fn try_new(
            raw_value: f64,
        ) -> ::core::result::Result<Self, FltF64GreaterOrEqualLessOrEqualSymError> {
            let sanitized_value: f64 = Self::__sanitize__(raw_value);
            #[allow(clippy::question_mark)]
            if let Err(e) = Self::__validate__(&sanitized_value) {
                return Err(e);
            }
            Ok(FltF64GreaterOrEqualLessOrEqualSym(sanitized_value))
        }
        fn __sanitize__(mut value: f64) -> f64 {
            value
        }
        fn __validate__(
            val: &f64,
        ) -> core::result::Result<(), FltF64GreaterOrEqualLessOrEqualSymError> {
            let val = *val;
            if val < sym_lo_f64() {
                return Err(FltF64GreaterOrEqualLessOrEqualSymError::GreaterOrEqualViolated);
            }
            if val > sym_hi_f64() {
                return Err(FltF64GreaterOrEqualLessOrEqualSymError::LessOrEqualViolated);
            }
            Ok(())
        }
    }
    impl FltF64GreaterOrEqualLessOrEqualSym {
        #[inline]
        pub fn into_inner(self) -> f64 {
            self.0
        }
    }
    impl ::core::convert::AsRef<f64> for FltF64GreaterOrEqualLessOrEqualSym {
        #[inline]
        fn as_ref(&self) -> &f64 {
            &self.0
        }
    }
    impl ::core::convert::TryFrom<f64> for FltF64GreaterOrEqualLessOrEqualSym {
        type Error = FltF64GreaterOrEqualLessOrEqualSymError;
        #[inline]
        fn try_from(
            raw_value: f64,
        ) -> ::core::result::Result<FltF64GreaterOrEqualLessOrEqualSym, Self::Error> {
            Self::try_new(raw_value)
        }
    }
    impl ::core::convert::From<FltF64GreaterOrEqualLessOrEqualSym> for f64 {
        #[inline]
        fn from(value: FltF64GreaterOrEqualLessOrEqualSym) -> Self {
            value.into_inner()
        }
    }
    impl ::core::borrow::Borrow<f64> for FltF64GreaterOrEqualLessOrEqualSym {
        #[inline]
        fn borrow(&self) -> &f64 {
            &self.0
        }
    }
    impl ::core::ops::Deref for FltF64GreaterOrEqualLessOrEqualSym {
        type Target = f64;
        #[inline]
        fn deref(&self) -> &Self::Target {
            &self.0
        }
    }
    #[cfg(test)]
    mod tests {
        use super::*;
        #[test]
        fn should_have_consistent_lower_and_upper_boundaries() {
            assert!
            (sym_hi_f64() >= sym_lo_f64(),
            "\nInconsistent lower and upper boundaries for type `FltF64GreaterOrEqualLessOrEqualSym`\nThe upper boundary `sym_hi_f64()` must be greater than or equal to the lower boundary `sym_lo_f64()`\nNote: the test is generated automatically by #[nutype] macro.\n");
        }
    }
}
pub use __nutype_FltF64GreaterOrEqualLessOrEqualSym__::FltF64GreaterOrEqualLessOrEqualSym;
pub use __nutype_FltF64GreaterOrEqualLessOrEqualSym__::FltF64GreaterOrEqualLessOrEqualSymError;
