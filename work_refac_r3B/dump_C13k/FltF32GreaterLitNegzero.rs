// NUTYPE_VERIF_INPUT #[nutype(validate(greater = -0.0), derive(Debug, Clone, Copy, PartialEq, PartialOrd, AsRef, Deref, Borrow, Into, TryFrom))] pub struct FltF32GreaterLitNegzero(f32);
#[doc(hidden)]
#[allow(
    non_snake_case,
    reason = "we keep original structure name which is probably CamelCase"
)]
mod __nutype_FltF32GreaterLitNegzero__ {
    use super::*;
    #[derive(Copy, PartialOrd, Clone, Debug, PartialEq)]
    pub struct FltF32GreaterLitNegzero(f32);
    #[derive(Debug, Clone, PartialEq, Eq)]
    #[allow(clippy::enum_variant_names)]
    pub enum FltF32GreaterLitNegzeroError {
        GreaterViolated,
    }
    impl ::core::fmt::Display for FltF32GreaterLitNegzeroError {
        fn fmt(&self, f: &mut ::core::fmt::Formatter<'_>) -> ::core::fmt::Result {
            match self {
                FltF32GreaterLitNegzeroError::GreaterViolated => write!(
                    f,
                    "{} is too small. The value must be greater than {:#?}.",
                    stringify!(FltF32GreaterLitNegzero),
                    -0f32
                ),
            }
        }
    }
    impl ::core::error::Error for FltF32GreaterLitNegzeroError {
        fn source(&self) -> Option<&(dyn ::core::error::Error + 'static)> {
            None
        }
    }
    impl FltF32GreaterLitNegzero {
        pub fn try_new(
            raw_value: f32,
        ) -> ::core::result::Result<Self, FltF32GreaterLitNegzeroError> {
            let sanitized_value: f32 = Self::__sanitize__(raw_value);
            #[allow(clippy::question_mark)]
            if let Err(e) = Self::__validate__(&sanitized_value) {
                return Err(e);
            }
            Ok(FltF32GreaterLitNegzero(sanitized_value))
        }
        fn __sanitize__(mut value: f32) -> f32 {
            value
        }
        fn __validate__(val: &f32) -> core::result::Result<(), FltF32GreaterLitNegzeroError> {
            let val = *val;
            if val <= -0f32 {
                return Err(FltF32GreaterLitNegzeroError::GreaterViolated);
            }
            Ok(())
        }
    }
    impl FltF32GreaterLitNegzero {
        #[inline]
        pub fn into_inner(self) -> f32 {
            self.0
        }
    }
    impl ::core::convert::From<FltF32GreaterLitNegzero> for f32 {
        #[inline]
        fn from(value: FltF32GreaterLitNegzero) -> Self {
            value.into_inner()
        }
    }
    impl ::core::borrow::Borrow<f32> for FltF32GreaterLitNegzero {
        #[inline]
        fn borrow(&self) -> &f32 {
            &self.0
        }
    }
    impl ::core::convert::AsRef<f32> for FltF32GreaterLitNegzero {
        #[inline]
        fn as_ref(&self) -> &f32 {
            &self.0
        }
    }
    impl ::core::ops::Deref for FltF32GreaterLitNegzero {
        type Target = f32;
        #[inline]
        fn deref(&self) -> &Self::Target {
            &self.0
        }
    }
    impl ::core::convert::TryFrom<f32> for FltF32GreaterLitNegzero {
        type Error = FltF32GreaterLitNegzeroError;
        #[inline]
        fn try_from(
            raw_value: f32,
        ) -> ::core::result::Result<FltF32GreaterLitNegzero, Self::Error> {
            Self::try_new(raw_value)
        }
    }
    #[cfg(test)]
    mod tests {
        use super::*;
    }
}
pub use __nutype_FltF32GreaterLitNegzero__::FltF32GreaterLitNegzero;
pub use __nutype_FltF32GreaterLitNegzero__::FltF32GreaterLitNegzeroError;
