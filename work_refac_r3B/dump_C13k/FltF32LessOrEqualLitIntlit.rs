// NUTYPE_VERIF_INPUT #[nutype(validate(less_or_equal = 100), derive(Debug, Clone, Copy, PartialEq, PartialOrd, AsRef, Deref, Borrow, Into, TryFrom))] pub struct FltF32LessOrEqualLitIntlit(f32);
#[doc(hidden)]
#[allow(
    non_snake_case,
    reason = "we keep original structure name which is probably CamelCase"
)]
mod __nutype_FltF32LessOrEqualLitIntlit__ {
    use super::*;
    #[derive(PartialOrd, Clone, Debug, Copy, PartialEq)]
    pub struct FltF32LessOrEqualLitIntlit(f32);
    #[derive(Debug, Clone, PartialEq, Eq)]
    #[allow(clippy::enum_variant_names)]
    pub enum FltF32LessOrEqualLitIntlitError {
        LessOrEqualViolated,
    }
    impl ::core::fmt::Display for FltF32LessOrEqualLitIntlitError {
        fn fmt(&self, f: &mut ::core::fmt::Formatter<'_>) -> ::core::fmt::Result {
            match self {
                FltF32LessOrEqualLitIntlitError::LessOrEqualViolated => write!(
                    f,
                    "{} is too big. The value must be less than {:#?}.",
                    stringify!(FltF32LessOrEqualLitIntlit),
                    100f32
                ),
            }
        }
    }
    impl ::core::error::Error for FltF32LessOrEqualLitIntlitError {
        fn source(&self) -> Option<&(dyn ::core::error::Error + 'static)> {
            None
        }
    }
    impl FltF32LessOrEqualLitIntlit {
        pub fn try_new(
            raw_value: f32,
        ) -> ::core::result::Result<Self, FltF32LessOrEqualLitIntlitError> {
            let sanitized_value: f32 = Self::__sanitize__(raw_value);
            #[allow(clippy::question_mark)]
            if let Err(e) = Self::__validate__(&sanitized_value) {
                return Err(e);
            }
            Ok(FltF32LessOrEqualLitIntlit(sanitized_value))
        }
        fn __sanitize__(mut value: f32) -> f32 {
            value
        }
        fn __validate__(val: &f32) -> core::result::Result<(), FltF32LessOrEqualLitIntlitError> {
            let val = *val;
            if val > 100f32 {
                return Err(FltF32LessOrEqualLitIntlitError::LessOrEqualViolated);
            }
            Ok(())
        }
    }
    impl FltF32LessOrEqualLitIntlit {
        #[inline]
        pub fn into_inner(self) -> f32 {
            self.0
        }
    }
    impl ::core::convert::AsRef<f32> for FltF32LessOrEqualLitIntlit {
        #[inline]
        fn as_ref(&self) -> &f32 {
            &self.0
        }
    }
    impl ::core::convert::TryFrom<f32> for FltF32LessOrEqualLitIntlit {
        type Error = FltF32LessOrEqualLitIntlitError;
        #[inline]
        fn try_from(
            raw_value: f32,
        ) -> ::core::result::Result<FltF32LessOrEqualLitIntlit, Self::Error> {
            Self::try_new(raw_value)
        }
    }
    impl ::core::convert::From<FltF32LessOrEqualLitIntlit> for f32 {
        #[inline]
        fn from(value: FltF32LessOrEqualLitIntlit) -> Self {
            value.into_inner()
        }
    }
    impl ::core::ops::Deref for FltF32LessOrEqualLitIntlit {
        type Target = f32;
        #[inline]
        fn deref(&self) -> &Self::Target {
            &self.0
        }
    }
    impl ::core::borrow::Borrow<f32> for FltF32LessOrEqualLitIntlit {
        #[inline]
        fn borrow(&self) -> &f32 {
            &self.0
        }
    }
    #[cfg(test)]
    mod tests {
        use super::*;
    }
}
pub use __nutype_FltF32LessOrEqualLitIntlit__::FltF32LessOrEqualLitIntlit;
pub use __nutype_FltF32LessOrEqualLitIntlit__::FltF32LessOrEqualLitIntlitError;
