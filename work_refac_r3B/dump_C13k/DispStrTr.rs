// NUTYPE_VERIF_INPUT #[nutype(sanitize(trim), validate(not_empty), derive(Debug, Display))] pub struct DispStrTr(String);
#[doc(hidden)]
#[allow(
    non_snake_case,
    reason = "we keep original structure name which is probably CamelCase"
)]
mod __nutype_DispStrTr__ {
    use super::*;
    #[derive(Debug)]
    pub struct DispStrTr(String);
    #[derive(Debug, Clone, PartialEq, Eq)]
    #[allow(clippy::enum_variant_names)]
    pub enum DispStrTrError {
        NotEmptyViolated,
    }
    impl ::core::fmt::Display for DispStrTrError {
        fn fmt(&self, f: &mut ::core::fmt::Formatter<'_>) -> ::core::fmt::Result {
            match self {
                DispStrTrError::NotEmptyViolated => {
                    write!(f, "{} is empty.", stringify!(DispStrTr))
                }
            }
        }
    }
    impl ::core::error::Error for DispStrTrError {
        fn source(&self) -> Option<&(dyn ::core::error::Error + 'static)> {
            None
        }
    }
    impl DispStrTr {
        pub fn try_new(
            raw_value: impl Into<String>,
        ) -> ::core::result::Result<Self, DispStrTrError> {
            let raw_value = raw_value.into();
            let sanitized_value: String = Self::__sanitize__(raw_value);
            #[allow(clippy::question_mark)]
            if let Err(e) = Self::__validate__(&sanitized_value) {
                return Err(e);
            }
            Ok(DispStrTr(sanitized_value))
        }
        fn __sanitize__(value: String) -> String {
            let value: String = value.trim().to_string();
            value
        }
        fn __validate__(val: &str) -> ::core::result::Result<(), DispStrTrError> {
            if val.is_empty() {
                return Err(DispStrTrError::NotEmptyViolated);
            }
            Ok(())
        }
    }
    impl DispStrTr {
        #[inline]
        pub fn into_inner(self) -> String {
            self.0
        }
    }
    impl ::core::fmt::Display for DispStrTr {
        #[inline]
        fn fmt(&self, formatter: &mut ::core::fmt::Formatter<'_>) -> ::core::fmt::Result {
            #[inline]
            fn display<T: ::core::fmt::Display>(
                inner: &T,
                formatter: &mut ::core::fmt::Formatter<'_>,
            ) -> ::core::fmt::Result {
                <T as ::core::fmt::Display>::fmt(inner, formatter)
            }
            let Self(inner) = self;
            display(inner, formatter)
        }
    }
    #[cfg(test)]
    mod tests {
        use super::*;
    }
}
pub use __nutype_DispStrTr__::DispStrTr;
pub use __nutype_DispStrTr__::DispStrTrError;
