// NUTYPE_VERIF_INPUT #[nutype(validate(finite), derive(Debug, Clone, Copy, PartialEq, PartialOrd, AsRef, Deref, Borrow, Into, TryFrom, Eq, Ord))] pub struct FltF32Finite(f32);
#[doc(hidden)]
#[allow(
    non_snake_case,
    reason = "we keep original structure name which is probably CamelCase"
)]
mod __nutype_FltF32Finite__ {
    use super::*;
    #[derive(Copy, PartialOrd, PartialEq, Debug, Clone)]
    pub struct FltF32Finite(f32);
    #[derive(Debug, Clone, PartialEq, Eq)]
    #[allow(clippy::enum_variant_names)]
    pub enum FltF32FiniteError {
        FiniteViolated,
    }
    impl ::core::fmt::Display for FltF32FiniteError {
        fn fmt(&self, f: &mut ::core::fmt::Formatter<'_>) -> ::core::fmt::Result {
            match self {
                FltF32FiniteError::FiniteViolated => {
                    write!(f, "{} is not finite.", stringify!(FltF32Finite))
                }
            }
        }
    }
    impl ::core::error::Error for FltF32FiniteError {
        fn source(&self) -> Option<&(dyn ::core::error::Error + 'static)> {
            None
        }
    }
    impl FltF32Finite {
        pub fn try_new(raw_value: f32) -> ::core::result::Result<Self, FltF32FiniteError> {
            let sanitized_value: f32 = Self::__sanitize__(raw_value);
            #[allow(clippy::question_mark)]
            if let Err(e) = Self::__validate__(&sanitized_value) {
                return Err(e);
            }
            Ok(FltF32Finite(sanitized_value))
        }
        fn __sanitize__(mut value: f32) -> f32 {
            value
        }
        fn __validate__(val: &f32) -> core::result::Result<(), FltF32FiniteError> {
            let val = *val;
            if !val.is_finite() {
                return Err(FltF32FiniteError::FiniteViolated);
            }
            Ok(())
        }
    }
    impl FltF32Finite {
        #[inline]
        pub fn into_inner(self) -> f32 {
            self.0
        }
    }
    impl ::core::convert::From<FltF32Finite> for f32 {
        #[inline]
        fn from(value: FltF32Finite) -> Self {
            value.into_inner()
        }
    }
    impl ::core::cmp::Eq for FltF32Finite {}
    impl ::core::borrow::Borrow<f32> for FltF32Finite {
        #[inline]
        fn borrow(&self) -> &f32 {
            &self.0
        }
    }
    impl ::core::convert::AsRef<f32> for FltF32Finite {
        #[inline]
        fn as_ref(&self) -> &f32 {
            &self.0
        }
    }
    impl ::core::convert::TryFrom<f32> for FltF32Finite {
        type Error = FltF32FiniteError;
        #[inline]
        fn try_from(raw_value: f32) -> ::core::result::Result<FltF32Finite, Self::Error> {
            Self::try_new(raw_value)
        }
    }
    #[allow(clippy::derive_ord_xor_partial_ord)]
    impl ::core::cmp::Ord for FltF32Finite {
        fn cmp(&self, other: &Self) -> ::core::cmp::Ordering {
            self.partial_cmp(other).unwrap_or_else(||
            {
                let tp = "FltF32Finite"; panic!
                ("{tp}::cmp() panicked, because partial_cmp() returned None. Could it be that you're using unsafe {tp}::new_unchecked() ?",
                tp = tp);
            })
        }
    }
    impl ::core::ops::Deref for FltF32Finite {
        type Target = f32;
        #[inline]
        fn deref(&self) -> &Self::Target {
            &self.0
        }
    }
    #[cfg(test)]
    mod tests {
        use super::*;
    }
}
pub use __nutype_FltF32Finite__::FltF32Finite;
pub use __nutype_FltF32Finite__::FltF32FiniteError;
