// NUTYPE_VERIF_INPUT #[nutype(validate(with = vfn_f64, error = MyErr), derive(Debug, Clone, Copy, PartialEq, PartialOrd, AsRef, Deref, Borrow, Into, TryFrom))] pub struct FltF64Custom(f64);
#[doc(hidden)]
#[allow(
    non_snake_case,
    reason = "we keep original structure name which is probably CamelCase"
)]
mod __nutype_FltF64Custom__ {
    use super::*;
    #[derive(PartialOrd, Debug, Copy, Clone, PartialEq)]
    pub struct FltF64Custom(f64);
    impl FltF64Custom {
        pub fn try_new(raw_value: f64) -> ::core::result::Result<Self, MyErr> {
            let sanitized_value: f64 = Self::__sanitize__(raw_value);
            #[allow(clippy::question_mark)]
            if let Err(e) = Self::__validate__(&sanitized_value) {
                return Err(e);
            }
            Ok(FltF64Custom(sanitized_value))
        }
        fn __sanitize__(mut value: f64) -> f64 {
            value
        }
        #[allow(clippy::ptr_arg)]
        fn __validate__(value: &f64) -> ::core::result::Result<(), MyErr> {
            vfn_f64(value)
        }
    }
    impl FltF64Custom {
        #[inline]
        pub fn into_inner(self) -> f64 {
            self.0
        }
    }
    impl ::core::convert::From<FltF64Custom> for f64 {
        #[inline]
        fn from(value: FltF64Custom) -> Self {
            value.into_inner()
        }
    }
    impl ::core::convert::TryFrom<f64> for FltF64Custom {
        type Error = MyErr;
        #[inline]
        fn try_from(raw_value: f64) -> ::core::result::Result<FltF64Custom, Self::Error> {
            Self::try_new(raw_value)
        }
    }
    impl ::core::convert::AsRef<f64> for FltF64Custom {
        #[inline]
        fn as_ref(&self) -> &f64 {
            &self.0
        }
    }
    impl ::core::ops::Deref for FltF64Custom {
        type Target = f64;
        #[inline]
        fn deref(&self) -> &Self::Target {
            &self.0
        }
    }
    impl ::core::borrow::Borrow<f64> for FltF64Custom {
        #[inline]
        fn borrow(&self) -> &f64 {
            &self.0
        }
    }
    #[cfg(test)]
    mod tests {
        use super::*;
    }
}
pub use __nutype_FltF64Custom__::FltF64Custom;
