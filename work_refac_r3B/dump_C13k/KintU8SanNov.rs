// NUTYPE_VERIF_INPUT #[nutype(sanitize(with = san_u8), derive(Debug, Clone, Copy, PartialEq, Eq, PartialOrd, Ord, Hash, AsRef, Deref, Borrow, Into, From))] pub struct KintU8SanNov(u8);
#[doc(hidden)]
#[allow(
    non_snake_case,
    reason = "we keep original structure name which is probably CamelCase"
)]
mod __nutype_KintU8SanNov__ {
    use super::*;
    #[derive(Copy, PartialOrd, Ord, PartialEq, Debug, Hash, Clone, Eq)]
    pub struct KintU8SanNov(u8);
    impl KintU8SanNov {
        pub fn new(raw_value: u8) -> Self {
            Self(Self::__sanitize__(raw_value))
        }
        fn __sanitize__(mut value: u8) -> u8 {
            value = (san_u8)(value);
            value
        }
    }
    impl KintU8SanNov {
        #[inline]
        pub fn into_inner(self) -> u8 {
            self.0
        }
    }
    impl ::core::ops::Deref for KintU8SanNov {
        type Target = u8;
        #[inline]
        fn deref(&self) -> &Self::Target {
            &self.0
        }
    }
    impl ::core::convert::From<KintU8SanNov> for u8 {
        #[inline]
        fn from(value: KintU8SanNov) -> Self {
            value.into_inner()
        }
    }
    impl ::core::borrow::Borrow<u8> for KintU8SanNov {
        #[inline]
        fn borrow(&self) -> &u8 {
            &self.0
        }
    }
    impl ::core::convert::AsRef<u8> for KintU8SanNov {
        #[inline]
        fn as_ref(&self) -> &u8 {
            &self.0
        }
    }
    impl ::core::convert::From<u8> for KintU8SanNov {
        #[inline]
        fn from(raw_value: u8) -> Self {
            Self::new(raw_value)
        }
    }
    #[cfg(test)]
    mod tests {
        use super::*;
    }
}
pub use __nutype_KintU8SanNov__::KintU8SanNov;
