// NUTYPE_VERIF_INPUT #[nutype(validate(less_or_equal = 100), derive(Debug, Display))] pub struct DispI32Le(i32);
#[doc(hidden)]
#[allow(
    non_snake_case,
    reason = "we keep original structure name which is probably CamelCase"
)]
mod __nutype_DispI32Le__ {
    use super::*;
    #[derive(Debug)]
    pub struct DispI32Le(i32);
    #[derive(Debug, Clone, PartialEq, Eq)]
    #[allow(clippy::enum_variant_names)]
    pub enum DispI32LeError {
        LessOrEqualViolated,
    }
    impl ::core::fmt::Display for DispI32LeError {
        fn fmt(&self, f: &mut ::core::fmt::Formatter<'_>) -> ::core::fmt::Result {
            match self {
                DispI32LeError::LessOrEqualViolated => write!(
                    f,
                    "{} is too big. The value must be less or equal to {:#?}.",
                    stringify!(DispI32Le),
                    100i32
                ),
            }
        }
    }
    impl ::core::error::Error for DispI32LeError {
        fn source(&self) -> Option<&(dyn ::core::error::Error + 'static)> {
            None
        }
    }
    impl DispI32Le {
        pub fn try_new(raw_value: i32) -> ::core::result::Result<Self, DispI32LeError> {
            let sanitized_value: i32 = Self::__sanitize__(raw_value);
            #[allow(clippy::question_mark)]
            if let Err(e) = Self::__validate__(&sanitized_value) {
                return Err(e);
            }
            Ok(DispI32Le(sanitized_value))
        }
        fn __sanitize__(mut value: i32) -> i32 {
            value
        }
        fn __validate__(val: &i32) -> ::core::result::Result<(), DispI32LeError> {
            let val = *val;
            if val > 100i32 {
                return Err(DispI32LeError::LessOrEqualViolated);
            }
            Ok(())
        }
    }
    impl DispI32Le {
        #[inline]
        pub fn into_inner(self) -> i32 {
            self.0
        }
    }
    impl ::core::fmt::Display for DispI32Le {
        #[inline]
        fn fmt(&self, formatter: &mut ::core::fmt::Formatter<'_>) -> ::core::fmt::Result {
            #[inline]
            fn display<T: ::core::fmt::Display>(
                inner: &T,
                formatter: &mut ::core::fmt::Formatter<'_>,
            ) -> ::core::fmt::Result {
                <T as ::core::fmt::Display>::fmt(inner, formatter)
            }
            let Self(inner) = self;
            display(inner, formatter)
        }
    }
    #[cfg(test)]
    mod tests {
        use super::*;
    }
}
pub use __nutype_DispI32Le__::DispI32Le;
pub use __nutype_DispI32Le__::DispI32LeError;
