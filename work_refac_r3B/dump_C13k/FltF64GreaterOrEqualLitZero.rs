// NUTYPE_VERIF_INPUT #[nutype(validate(greater_or_equal = 0.0), derive(Debug, Clone, Copy, PartialEq, PartialOrd, AsRef, Deref, Borrow, Into, TryFrom))] pub struct FltF64GreaterOrEqualLitZero(f64);
#[doc(hidden)]
#[allow(
    non_snake_case,
    reason = "we keep original structure name which is probably CamelCase"
)]
mod __nutype_FltF64GreaterOrEqualLitZero__ {
    use super::*;
    #[derive(PartialEq, PartialOrd, Copy, Clone, Debug)]
    pub struct FltF64GreaterOrEqualLitZero(f64);
    #[derive(Debug, Clone, PartialEq, Eq)]
    #[allow(clippy::enum_variant_names)]
    pub enum FltF64GreaterOrEqualLitZeroError {
        GreaterOrEqualViolated,
    }
    impl ::core::fmt::Display for FltF64GreaterOrEqualLitZeroError {
        fn fmt(&self, f: &mut ::core::fmt::Formatter<'_>) -> ::core::fmt::Result {
            match self {
                FltF64GreaterOrEqualLitZeroError::GreaterOrEqualViolated => write!(
                    f,
                    "{} is too small. The value must be greater or equal to {:#?}.",
                    stringify!(FltF64GreaterOrEqualLitZero),
                    0f64
                ),
            }
        }
    }
    impl ::core::error::Error for FltF64GreaterOrEqualLitZeroError {
        fn source(&self) -> Option<&(dyn ::core::error::Error + 'static)> {
            None
        }
    }
    impl FltF64GreaterOrEqualLitZero {
        pub fn try_new(
            raw_value: f64,
        ) -> ::core::result::Result<Self, FltF64GreaterOrEqualLitZeroError> {
            let sanitized_value: f64 = Self::__sanitize__(raw_value);
            #[allow(clippy::question_mark)]
            if let Err(e) = Self::__validate__(&sanitized_value) {
                return Err(e);
            }
            Ok(FltF64GreaterOrEqualLitZero(sanitized_value))
        }
        fn __sanitize__(mut value: f64) -> f64 {
            value
        }
        fn __validate__(val: &f64) -> core::result::Result<(), FltF64GreaterOrEqualLitZeroError> {
            let val = *val;
            if val < 0f64 {
                return Err(FltF64GreaterOrEqualLitZeroError::GreaterOrEqualViolated);
            }
            Ok(())
        }
    }
    impl FltF64GreaterOrEqualLitZero {
        #[inline]
        pub fn into_inner(self) -> f64 {
            self.0
        }
    }
    impl ::core::convert::TryFrom<f64> for FltF64GreaterOrEqualLitZero {
        type Error = FltF64GreaterOrEqualLitZeroError;
        #[inline]
        fn try_from(
            raw_value: f64,
        ) -> ::core::result::Result<FltF64GreaterOrEqualLitZero, Self::Error> {
            Self::try_new(raw_value)
        }
    }
    impl ::core::convert::AsRef<f64> for FltF64GreaterOrEqualLitZero {
        #[inline]
        fn as_ref(&self) -> &f64 {
            &self.0
        }
    }
    impl ::core::borrow::Borrow<f64> for FltF64GreaterOrEqualLitZero {
        #[inline]
        fn borrow(&self) -> &f64 {
            &self.0
        }
    }
    impl ::core::ops::Deref for FltF64GreaterOrEqualLitZero {
        type Target = f64;
        #[inline]
        fn deref(&self) -> &Self::Target {
            &self.0
        }
    }
    impl ::core::convert::From<FltF64GreaterOrEqualLitZero> for f64 {
        #[inline]
        fn from(value: FltF64GreaterOrEqualLitZero) -> Self {
            value.into_inner()
        }
    }
    #[cfg(test)]
    mod tests {
        use super::*;
    }
}
pub use __nutype_FltF64GreaterOrEqualLitZero__::FltF64GreaterOrEqualLitZero;
pub use __nutype_FltF64GreaterOrEqualLitZero__::FltF64GreaterOrEqualLitZeroError;
