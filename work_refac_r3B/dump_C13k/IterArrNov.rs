// NUTYPE_VERIF_INPUT #[nutype(derive(Debug, IntoIterator))] pub struct IterArrNov([i32; 3]);
#[doc(hidden)]
#[allow(
    non_snake_case,
    reason = "we keep original structure name which is probably CamelCase"
)]
mod __nutype_IterArrNov__ {
    use super::*;
    #[derive(Debug)]
    pub struct IterArrNov([i32; 3]);
    impl IterArrNov {
        pub fn new(raw_value: [i32; 3]) -> Self {
            Self(Self::__sanitize__(raw_value))
        }
        fn __sanitize__(mut value: [i32; 3]) -> [i32; 3] {
            value
        }
    }
    impl IterArrNov {
        #[inline]
        pub fn into_inner(self) -> [i32; 3] {
            self.0
        }
    }
    impl ::core::iter::IntoIterator for IterArrNov {
        type Item = <[i32; 3] as ::core::iter::IntoIterator>::Item;
        type IntoIter = <[i32; 3] as ::core::iter::IntoIterator>::IntoIter;
        fn into_iter(self) -> Self::IntoIter {
            self.0.into_iter()
        }
    }
    impl<'__nutype_iter> ::core::iter::IntoIterator for &'__nutype_iter IterArrNov {
        type Item = <&'__nutype_iter [i32; 3] as ::core::iter::IntoIterator>::Item;
        type IntoIter = <&'__nutype_iter [i32; 3] as ::core::iter::IntoIterator>::IntoIter;
        fn into_iter(self) -> Self::IntoIter {
            self.0.iter().into_iter()
        }
    }
    #[cfg(test)]
    mod tests {
        use super::*;
    }
}
pub use __nutype_IterArrNov__::IterArrNov;
