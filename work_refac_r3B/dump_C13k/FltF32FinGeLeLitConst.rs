// NUTYPE_VERIF_INPUT #[nutype(const_fn, validate(finite, greater_or_equal = -1.0, less_or_equal = 1.0), derive(Debug, Clone, Copy, PartialEq, PartialOrd, AsRef, Deref, Borrow, Into, TryFrom, Eq, Ord))] pub struct FltF32FinGeLeLitConst(f32);
#[doc(hidden)]
#[allow(
    non_snake_case,
    reason = "we keep original structure name which is probably CamelCase"
)]
mod __nutype_FltF32FinGeLeLitConst__ {
    use super::*;
    #[derive(PartialEq, PartialOrd, Copy, Clone, Debug)]
    pub struct FltF32FinGeLeLitConst(f32);
    #[derive(Debug, Clone, PartialEq, Eq)]
    #[allow(clippy::enum_variant_names)]
    pub enum FltF32FinGeLeLitConstError {
        FiniteViolated,
        GreaterOrEqualViolated,
        LessOrEqualViolated,
    }
    impl ::core::fmt::Display for FltF32FinGeLeLitConstError {
        fn fmt(&self, f: &mut ::core::fmt::Formatter<'_>) -> ::core::fmt::Result {
            match self {
                FltF32FinGeLeLitConstError::FiniteViolated => {
                    write!(f, "{} is not finite.", stringify!(FltF32FinGeLeLitConst))
                }
                FltF32FinGeLeLitConstError::GreaterOrEqualViolated => write!(
                    f,
                    "{} is too small. The value must be greater or equal to {:#?}.",
                    stringify!(FltF32FinGeLeLitConst),
                    -1f32
                ),
                FltF32FinGeLeLitConstError::LessOrEqualViolated => write!(
                    f,
                    "{} is too big. The value must be less than {:#?}.",
                    stringify!(FltF32FinGeLeLitConst),
                    1f32
                ),
            }
        }
    }
    impl ::core::error::Error for FltF32FinGeLeLitConstError {
        fn source(&self) -> Option<&(dyn ::core::error::Error + 'static)> {
            None
        }
    }
    impl FltF32FinGeLeLitConst {
        pub const fn try_new(
            raw_value: f32,
        ) -> ::core::result::Result<Self, FltF32FinGeLeLitConstError> {
            let sanitized_value: f32 = Self::__sanitize__(raw_value);
            #[allow(clippy::question_mark)]
            if let Err(e) = Self::__validate__(&sanitized_value) {
                return Err(e);
            }
            Ok(FltF32FinGeLeLitConst(sanitized_value))
        }
        const fn __sanitize__(mut value: f32) -> f32 {
            value
        }
        const fn __validate__(val: &f32) -> core::result::Result<(), FltF32FinGeLeLitConstError> {
            let val = *val;
            if !val.is_finite() {
                return Err(FltF32FinGeLeLitConstError::FiniteViolated);
            }
            if val < -1f32 {
                return Err(FltF32FinGeLeLitConstError::GreaterOrEqualViolated);
            }
            if val > 1f32 {
                return Err(FltF32FinGeLeLitConstError::LessOrEqualViolated);
            }
            Ok(())
        }
    }
    impl FltF32FinGeLeLitConst {
        #[inline]
        pub const fn into_inner(self) -> f32 {
            self.0
        }
    }
    impl ::core::ops::Deref for FltF32FinGeLeLitConst {
        type Target = f32;
        #[inline]
        fn deref(&self) -> &Self::Target {
            &self.0
        }
    }
    impl ::core::convert::From<FltF32FinGeLeLitConst> for f32 {
        #[inline]
        fn from(value: FltF32FinGeLeLitConst) -> Self {
            value.into_inner()
        }
    }
    impl ::core::cmp::Eq for FltF32FinGeLeLitConst {}
    #[allow(clippy::derive_ord_xor_partial_ord)]
    impl ::core::cmp::Ord for FltF32FinGeLeLitConst {
        fn cmp(&self, other: &Self) -> ::core::cmp::Ordering {
            self.partial_cmp(other).unwrap_or_else(||
            {
                let tp = "FltF32FinGeLeLitConst"; panic!
                ("{tp}::cmp() panicked, because partial_cmp() returned None. Could it be that you're using unsafe {tp}::new_unchecked() ?",
                tp = tp);
            })
        }
    }
    impl ::core::borrow::Borrow<f32> for FltF32FinGeLeLitConst {
        #[inline]
        fn borrow(&self) -> &f32 {
            &self.0
        }
    }
    impl ::core::convert::TryFrom<f32> for FltF32FinGeLeLitConst {
        type Error = FltF32FinGeLeLitConstError;
        #[inline]
        fn try_from(raw_value: f32) -> ::core::result::Result<FltF32FinGeLeLitConst, Self::Error> {
            Self::try_new(raw_value)
        }
    }
    impl ::core::convert::AsRef<f32> for FltF32FinGeLeLitConst {
        #[inline]
        fn as_ref(&self) -> &f32 {
            &self.0
        }
    }
    #[cfg(test)]
    mod tests {
        use super::*;
        #[test]
        fn should_have_consistent_lower_and_upper_boundaries() {
            assert!
            (1f32 >= -1f32,
            "\nInconsistent lower and upper boundaries for type `FltF32FinGeLeLitConst`\nThe upper boundary `1f32` must be greater than or equal to the lower boundary `-1f32`\nNote: the test is generated automatically by #[nutype] macro.\n");
        }
    }
}
pub use __nutype_FltF32FinGeLeLitConst__::FltF32FinGeLeLitConst;
pub use __nutype_FltF32FinGeLeLitConst__::FltF32FinGeLeLitConstError;
