// NUTYPE_VERIF_INPUT #[nutype(const_fn, validate(finite, greater_or_equal = -1.0, less_or_equal = 1.0), derive(Debug, Clone, Copy, PartialEq, PartialOrd, AsRef, Deref, Borrow, Into, TryFrom, Eq, Ord))] pub struct FltF64FinGeLeLitConst(f64);
#[doc(hidden)]
#[allow(
    non_snake_case,
    reason = "we keep original structure name which is probably CamelCase"
)]
mod __nutype_FltF64FinGeLeLitConst__ {
    use super::*;
    #[derive(PartialEq, Clone, Copy, Debug, PartialOrd)]
    pub struct FltF64FinGeLeLitConst(f64);
    #[derive(Debug, Clone, PartialEq, Eq)]
    #[allow(clippy::enum_variant_names)]
    pub enum FltF64FinGeLeLitConstError {
        FiniteViolated,
        GreaterOrEqualViolated,
        LessOrEqualViolated,
    }
    impl ::core::fmt::Display for FltF64FinGeLeLitConstError {
        fn fmt(&self, f: &mut ::core::fmt::Formatter<'_>) -> ::core::fmt::Result {
            match self {
                FltF64FinGeLeLitConstError::FiniteViolated => {
                    write!(f, "{} is not finite.", stringify!(FltF64FinGeLeLitConst))
                }
                FltF64FinGeLeLitConstError::GreaterOrEqualViolated => write!(
                    f,
                    "{} is too small. The value must be greater or equal to {:#?}.",
                    stringify!(FltF64FinGeLeLitConst),
                    -1f64
                ),
                FltF64FinGeLeLitConstError::LessOrEqualViolated => write!(
                    f,
                    "{} is too big. The value must be less than {:#?}.",
                    stringify!(FltF64FinGeLeLitConst),
                    1f64
                ),
            }
        }
    }
    impl ::core::error::Error for FltF64FinGeLeLitConstError {
        fn source(&self) -> Option<&(dyn ::core::error::Error + 'static)> {
            None
        }
    }
    impl FltF64FinGeLeLitConst {
        pub const fn try_new(
            raw_value: f64,
        ) -> ::core::result::Result<Self, FltF64FinGeLeLitConstError> {
            let sanitized_value: f64 = Self::__sanitize__(raw_value);
            #[allow(clippy::question_mark)]
            if let Err(e) = Self::__validate__(&sanitized_value) {
                return Err(e);
            }
            Ok(FltF64FinGeLeLitConst(sanitized_value))
        }
        const fn __sanitize__(mut value: f64) -> f64 {
            value
        }
        const fn __validate__(val: &f64) -> core::result::Result<(), FltF64FinGeLeLitConstError> {
            let val = *val;
            if !val.is_finite() {
                return Err(FltF64FinGeLeLitConstError::FiniteViolated);
            }
            if val < -1f64 {
                return Err(FltF64FinGeLeLitConstError::GreaterOrEqualViolated);
            }
            if val > 1f64 {
                return Err(FltF64FinGeLeLitConstError::LessOrEqualViolated);
            }
            Ok(())
        }
    }
    impl FltF64FinGeLeLitConst {
        #[inline]
        pub const fn into_inner(self) -> f64 {
            self.0
        }
    }
    impl ::core::convert::AsRef<f64> for FltF64FinGeLeLitConst {
        #[inline]
        fn as_ref(&self) -> &f64 {
            &self.0
        }
    }
    #[allow(clippy::derive_ord_xor_partial_ord)]
    impl ::core::cmp::Ord for FltF64FinGeLeLitConst {
        fn cmp(&self, other: &Self) -> ::core::cmp::Ordering {
            self.partial_cmp(other).unwrap_or_else(||
            {
                let tp = "FltF64FinGeLeLitConst"; panic!
                ("{tp}::cmp() panicked, because partial_cmp() returned None. Could it be that you're using unsafe {tp}::new_unchecked() ?",
                tp = tp);
            })
        }
    }
    impl ::core::ops::Deref for FltF64FinGeLeLitConst {
        type Target = f64;
        #[inline]
        fn deref(&self) -> &Self::Target {
            &self.0
        }
    }
    impl ::core::borrow::Borrow<f64> for FltF64FinGeLeLitConst {
        #[inline]
        fn borrow(&self) -> &f64 {
            &self.0
        }
    }
    impl ::core::convert::TryFrom<f64> for FltF64FinGeLeLitConst {
        type Error = FltF64FinGeLeLitConstError;
        #[inline]
        fn try_from(raw_value: f64) -> ::core::result::Result<FltF64FinGeLeLitConst, Self::Error> {
            Self::try_new(raw_value)
        }
    }
    impl ::core::convert::From<FltF64FinGeLeLitConst> for f64 {
        #[inline]
        fn from(value: FltF64FinGeLeLitConst) -> Self {
            value.into_inner()
        }
    }
    impl ::core::cmp::Eq for FltF64FinGeLeLitConst {}
    #[cfg(test)]
    mod tests {
        use super::*;
        #[test]
        fn should_have_consistent_lower_and_upper_boundaries() {
            assert!
            (1f64 >= -1f64,
            "\nInconsistent lower and upper boundaries for type `FltF64FinGeLeLitConst`\nThe upper boundary `1f64` must be greater than or equal to the lower boundary `-1f64`\nNote: the test is generated automatically by #[nutype] macro.\n");
        }
    }
}
pub use __nutype_FltF64FinGeLeLitConst__::FltF64FinGeLeLitConst;
pub use __nutype_FltF64FinGeLeLitConst__::FltF64FinGeLeLitConstError;
