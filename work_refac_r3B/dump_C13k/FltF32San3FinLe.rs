// NUTYPE_VERIF_INPUT #[nutype(sanitize(with = san3_f32), validate(finite, less_or_equal = sym_hi_f32()), derive(Debug, Clone, Copy, PartialEq, PartialOrd, AsRef, Deref, Borrow, Into, TryFrom, Eq, Ord))] pub struct FltF32San3FinLe(f32);
#[doc(hidden)]
#[allow(
    non_snake_case,
    reason = "we keep original structure name which is probably CamelCase"
)]
mod __nutype_FltF32San3FinLe__ {
    use super::*;
    #[derive(Clone, Debug, PartialOrd, PartialEq, Copy)]
    pub struct FltF32San3FinLe(f32);
    #[derive(Debug, Clone, PartialEq, Eq)]
    #[allow(clippy::enum_variant_names)]
    pub enum FltF32San3FinLeError {
        FiniteViolated,
        LessOrEqualViolated,
    }
    impl ::core::fmt::Display for FltF32San3FinLeError {
        fn fmt(&self, f: &mut ::core::fmt::Formatter<'_>) -> ::core::fmt::Result {
            match self {
                FltF32San3FinLeError::FiniteViolated => {
                    write!(f, "{} is not finite.", stringify!(FltF32San3FinLe))
                }
                FltF32San3FinLeError::LessOrEqualViolated => write!(
                    f,
                    "{} is too big. The value must be less than {:#?}.",
                    stringify!(FltF32San3FinLe),
                    sym_hi_f32()
                ),
            }
        }
    }
    impl ::core::error::Error for FltF32San3FinLeError {
        fn source(&self) -> Option<&(dyn ::core::error::Error + 'static)> {
            None
        }
    }
    impl FltF32San3FinLe {
        pub fn try_new(raw_value: f32) -> ::core::result::Result<Self, FltF32San3FinLeError> {
            let sanitized_value: f32 = Self::__sanitize__(raw_value);
            #[allow(clippy::question_mark)]
            if let Err(e) = Self::__validate__(&sanitized_value) {
                return Err(e);
            }
            Ok(FltF32San3FinLe(sanitized_value))
        }
        fn __sanitize__(mut value: f32) -> f32 {
            value = (san3_f32)(value);
            value
        }
        fn __validate__(val: &f32) -> core::result::Result<(), FltF32San3FinLeError> {
            let val = *val;
            if !val.is_finite() {
                return Err(FltF32San3FinLeError::FiniteViolated);
            }
            if val > sym_hi_f32() {
                return Err(FltF32San3FinLeError::LessOrEqualViolated);
            }
            Ok(())
        }
    }
    impl FltF32San3FinLe {
        #[inline]
        pub fn into_inner(self) -> f32 {
            self.0
        }
    }
    impl ::core::convert::AsRef<f32> for FltF32San3FinLe {
        #[inline]
        fn as_ref(&self) -> &f32 {
            &self.0
        }
    }
    impl ::core::ops::Deref for FltF32San3FinLe {
        type Target = f32;
        #[inline]
        fn deref(&self) -> &Self::Target {
            &self.0
        }
    }
    impl ::core::borrow::Borrow<f32> for FltF32San3FinLe {
        #[inline]
        fn borrow(&self) -> &f32 {
            &self.0
        }
    }
    impl ::core::convert::From<FltF32San3FinLe> for f32 {
        #[inline]
        fn from(value: FltF32San3FinLe) -> Self {
            value.into_inner()
        }
    }
    impl ::core::cmp::Eq for FltF32San3FinLe {}
    #[allow(clippy::derive_ord_xor_partial_ord)]
    impl ::core::cmp::Ord for FltF32San3FinLe {
        fn cmp(&self, other: &Self) -> ::core::cmp::Ordering {
            self.partial_cmp(other).unwrap_or_else(||
            {
                let tp = "FltF32San3FinLe"; panic!
                ("{tp}::cmp() panicked, because partial_cmp() returned None. Could it be that you're using unsafe {tp}::new_unchecked() ?",
                tp = tp);
            })
        }
    }
    impl ::core::convert::TryFrom<f32> for FltF32San3FinLe {
        type Error = FltF32San3FinLeError;
        #[inline]
        fn try_from(raw_value: f32) -> ::core::result::Result<FltF32San3FinLe, Self::Error> {
            Self::try_new(raw_value)
        }
    }
    #[cfg(test)]
    mod tests {
        use super::*;
    }
}
pub use __nutype_FltF32San3FinLe__::FltF32San3FinLe;
pub use __nutype_FltF32San3FinLe__::FltF32San3FinLeError;
