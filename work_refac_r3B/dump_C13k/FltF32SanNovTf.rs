// NUTYPE_VERIF_INPUT #[nutype(sanitize(with = san_f32), derive(Debug, Clone, Copy, PartialEq, PartialOrd, AsRef, Deref, Borrow, Into, TryFrom))] pub struct FltF32SanNovTf(f32);
#[doc(hidden)]
#[allow(
    non_snake_case,
    reason = "we keep original structure name which is probably CamelCase"
)]
mod __nutype_FltF32SanNovTf__ {
    use super::*;
    #[derive(PartialEq, Clone, PartialOrd, Copy, Debug)]
    pub struct FltF32SanNovTf(f32);
    impl FltF32SanNovTf {
        pub fn new(raw_value: f32) -> Self {
            Self(Self::__sanitize__(raw_value))
        }
        fn __sanitize__(mut value: f32) -> f32 {
            value = (san_f32)(value);
            value
        }
    }
    impl FltF32SanNovTf {
        #[inline]
        pub fn into_inner(self) -> f32 {
            self.0
        }
    }
    impl ::core::convert::TryFrom<f32> for FltF32SanNovTf {
        type Error = ::core::convert::Infallible;
        #[inline]
        fn try_from(raw_value: f32) -> ::core::result::Result<FltF32SanNovTf, Self::Error> {
            Ok(Self::new(raw_value))
        }
    }
    impl ::core::convert::From<FltF32SanNovTf> for f32 {
        #[inline]
        fn from(value: FltF32SanNovTf) -> Self {
            value.into_inner()
        }
    }
    impl ::core::convert::AsRef<f32> for FltF32SanNovTf {
        #[inline]
        fn as_ref(&self) -> &f32 {
            &self.0
        }
    }
    impl ::core::ops::Deref for FltF32SanNovTf {
        type Target = f32;
        #[inline]
        fn deref(&self) -> &Self::Target {
            &self.0
        }
    }
    impl ::core::borrow::Borrow<f32> for FltF32SanNovTf {
        #[inline]
        fn borrow(&self) -> &f32 {
            &self.0
        }
    }
    #[cfg(test)]
    mod tests {
        use super::*;
    }
}
pub use __nutype_FltF32SanNovTf__::FltF32SanNovTf;
