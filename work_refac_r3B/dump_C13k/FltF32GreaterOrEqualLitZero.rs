// NUTYPE_VERIF_INPUT #[nutype(validate(greater_or_equal = 0.0), derive(Debug, Clone, Copy, PartialEq, PartialOrd, AsRef, Deref, Borrow, Into, TryFrom))] pub struct FltF32GreaterOrEqualLitZero(f32);
#[doc(hidden)]
#[allow(
    non_snake_case,
    reason = "we keep original structure name which is probably CamelCase"
)]
mod __nutype_FltF32GreaterOrEqualLitZero__ {
    use super::*;
    #[derive(Copy, PartialEq, Debug, PartialOrd, Clone)]
    pub struct FltF32GreaterOrEqualLitZero(f32);
    #[derive(Debug, Clone, PartialEq, Eq)]
    #[allow(clippy::enum_variant_names)]
    pub enum FltF32GreaterOrEqualLitZeroError {
        GreaterOrEqualViolated,
    }
    impl ::core::fmt::Display for FltF32GreaterOrEqualLitZeroError {
        fn fmt(&self, f: &mut ::core::fmt::Formatter<'_>) -> ::core::fmt::Result {
            match self {
                FltF32GreaterOrEqualLitZeroError::GreaterOrEqualViolated => write!(
                    f,
                    "{} is too small. The value must be greater or equal to {:#?}.",
                    stringify!(FltF32GreaterOrEqualLitZero),
                    0f32
                ),
            }
        }
    }
    impl ::core::error::Error for FltF32GreaterOrEqualLitZeroError {
        fn source(&self) -> Option<&(dyn ::core::error::Error + 'static)> {
            None
        }
    }
    impl FltF32GreaterOrEqualLitZero {
        pub fn try_new(
            raw_value: f32,
        ) -> ::core::result::Result<Self, FltF32GreaterOrEqualLitZeroError> {
            let sanitized_value: f32 = Self::__sanitize__(raw_value);
            #[allow(clippy::question_mark)]
            if let Err(e) = Self::__validate__(&sanitized_value) {
                return Err(e);
            }
            Ok(FltF32GreaterOrEqualLitZero(sanitized_value))
        }
        fn __sanitize__(mut value: f32) -> f32 {
            value
        }
        fn __validate__(val: &f32) -> core::result::Result<(), FltF32GreaterOrEqualLitZeroError> {
            let val = *val;
            if val < 0f32 {
                return Err(FltF32GreaterOrEqualLitZeroError::GreaterOrEqualViolated);
            }
            Ok(())
        }
    }
    impl FltF32GreaterOrEqualLitZero {
        #[inline]
        pub fn into_inner(self) -> f32 {
            self.0
        }
    }
    impl ::core::ops::Deref for FltF32GreaterOrEqualLitZero {
        type Target = f32;
        #[inline]
        fn deref(&self) -> &Self::Target {
            &self.0
        }
    }
    impl ::core::convert::TryFrom<f32> for FltF32GreaterOrEqualLitZero {
        type Error = FltF32GreaterOrEqualLitZeroError;
        #[inline]
        fn try_from(
            raw_value: f32,
        ) -> ::core::result::Result<FltF32GreaterOrEqualLitZero, Self::Error> {
            Self::try_new(raw_value)
        }
    }
    impl ::core::borrow::Borrow<f32> for FltF32GreaterOrEqualLitZero {
        #[inline]
        fn borrow(&self) -> &f32 {
            &self.0
        }
    }
    impl ::core::convert::From<FltF32GreaterOrEqualLitZero> for f32 {
        #[inline]
        fn from(value: FltF32GreaterOrEqualLitZero) -> Self {
            value.into_inner()
        }
    }
    impl ::core::convert::AsRef<f32> for FltF32GreaterOrEqualLitZero {
        #[inline]
        fn as_ref(&self) -> &f32 {
            &self.0
        }
    }
    #[cfg(test)]
    mod tests {
        use super::*;
    }
}
pub use __nutype_FltF32GreaterOrEqualLitZero__::FltF32GreaterOrEqualLitZero;
pub use __nutype_FltF32GreaterOrEqualLitZero__::FltF32GreaterOrEqualLitZeroError;
