// NUTYPE_VERIF_INPUT #[nutype(derive(Debug, Clone, Copy, PartialEq, PartialOrd, AsRef, Deref, Borrow, Into, From))] pub struct FltF64Nothing(f64);
#[doc(hidden)]
#[allow(
    non_snake_case,
    reason = "we keep original structure name which is probably CamelCase"
)]
mod __nutype_FltF64Nothing__ {
    use super::*;
    #[derive(Clone, Copy, Debug, PartialOrd, PartialEq)]
    pub struct FltF64Nothing(f64);
    impl FltF64Nothing {
        pub fn new(raw_value: f64) -> Self {
            Self(Self::__sanitize__(raw_value))
        }
        fn __sanitize__(mut value: f64) -> f64 {
            value
        }
    }
    impl FltF64Nothing {
        #[inline]
        pub fn into_inner(self) -> f64 {
            self.0
        }
    }
    impl ::core::convert::AsRef<f64> for FltF64Nothing {
        #[inline]
        fn as_ref(&self) -> &f64 {
            &self.0
        }
    }
    impl ::core::borrow::Borrow<f64> for FltF64Nothing {
        #[inline]
        fn borrow(&self) -> &f64 {
            &self.0
        }
    }
    impl ::core::ops::Deref for FltF64Nothing {
        type Target = f64;
        #[inline]
        fn deref(&self) -> &Self::Target {
            &self.0
        }
    }
    impl ::core::convert::From<FltF64Nothing> for f64 {
        #[inline]
        fn from(value: FltF64Nothing) -> Self {
            value.into_inner()
        }
    }
    impl ::core::convert::From<f64> for FltF64Nothing {
        #[inline]
        fn from(raw_value: f64) -> Self {
            Self::new(raw_value)
        }
    }
    #[cfg(test)]
    mod tests {
        use super::*;
    }
}
pub use __nutype_FltF64Nothing__::FltF64Nothing;
