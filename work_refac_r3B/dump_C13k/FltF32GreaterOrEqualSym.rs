// NUTYPE_VERIF_INPUT #[nutype(validate(greater_or_equal = sym_lo_f32()), derive(Debug, Clone, Copy, PartialEq, PartialOrd, AsRef, Deref, Borrow, Into, TryFrom))] pub struct FltF32GreaterOrEqualSym(f32);
#[doc(hidden)]
#[allow(
    non_snake_case,
    reason = "we keep original structure name which is probably CamelCase"
)]
mod __nutype_FltF32GreaterOrEqualSym__ {
    use super::*;
    #[derive(PartialEq, PartialOrd, Debug, Copy, Clone)]
    pub struct FltF32GreaterOrEqualSym(f32);
    #[derive(Debug, Clone, PartialEq, Eq)]
    #[allow(clippy::enum_variant_names)]
    pub enum FltF32GreaterOrEqualSymError {
        GreaterOrEqualViolated,
    }
    impl ::core::fmt::Display for FltF32GreaterOrEqualSymError {
        fn fmt(&self, f: &mut ::core::fmt::Formatter<'_>) -> ::core::fmt::Result {
            match self {
                FltF32GreaterOrEqualSymError::GreaterOrEqualViolated => write!(
                    f,
                    "{} is too small. The value must be greater or equal to {:#?}.",
                    stringify!(FltF32GreaterOrEqualSym),
                    sym_lo_f32()
                ),
            }
        }
    }
    impl ::core::error::Error for FltF32GreaterOrEqualSymError {
        fn source(&self) -> Option<&(dyn ::core::error::Error + 'static)> {
            None
        }
    }
    impl FltF32GreaterOrEqualSym {
        pub fn try_new(
            raw_value: f32,
        ) -> ::core::result::Result<Self, FltF32GreaterOrEqualSymError> {
            let sanitized_value: f32 = Self::__sanitize__(raw_value);
            #[allow(clippy::question_mark)]
            if let Err(e) = Self::__validate__(&sanitized_value) {
                return Err(e);
            }
            Ok(FltF32GreaterOrEqualSym(sanitized_value))
        }
        fn __sanitize__(mut value: f32) -> f32 {
            value
        }
        fn __validate__(val: &f32) -> core::result::Result<(), FltF32GreaterOrEqualSymError> {
            let val = *val;
            if val < sym_lo_f32() {
                return Err(FltF32GreaterOrEqualSymError::GreaterOrEqualViolated);
            }
            Ok(())
        }
    }
    impl FltF32GreaterOrEqualSym {
        #[inline]
        pub fn into_inner(self) -> f32 {
            self.0
        }
    }
    impl ::core::convert::TryFrom<f32> for FltF32GreaterOrEqualSym {
        type Error = FltF32GreaterOrEqualSymError;
        #[inline]
        fn try_from(
            raw_value: f32,
        ) -> ::core::result::Result<FltF32GreaterOrEqualSym, Self::Error> {
            Self::try_new(raw_value)
        }
    }
    impl ::core::convert::AsRef<f32> for FltF32GreaterOrEqualSym {
        #[inline]
        fn as_ref(&self) -> &f32 {
            &self.0
        }
    }
    impl ::core::convert::From<FltF32GreaterOrEqualSym> for f32 {
        #[inline]
        fn from(value: FltF32GreaterOrEqualSym) -> Self {
            value.into_inner()
        }
    }
    impl ::core::ops::Deref for FltF32GreaterOrEqualSym {
        type Target = f32;
        #[inline]
        fn deref(&self) -> &Self::Target {
            &self.0
        }
    }
    impl ::core::borrow::Borrow<f32> for FltF32GreaterOrEqualSym {
        #[inline]
        fn borrow(&self) -> &f32 {
            &self.0
        }
    }
    #[cfg(test)]
    mod tests {
        use super::*;
    }
}
pub use __nutype_FltF32GreaterOrEqualSym__::FltF32GreaterOrEqualSym;
pub use __nutype_FltF32GreaterOrEqualSym__::FltF32GreaterOrEqualSymError;
