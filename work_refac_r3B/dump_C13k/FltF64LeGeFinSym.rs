// NUTYPE_VERIF_INPUT #[nutype(validate(less_or_equal = sym_hi_f64(), greater_or_equal = sym_lo_f64(), finite), derive(Debug, Clone, Copy, PartialEq, PartialOrd, AsRef, Deref, Borrow, Into, TryFrom, Eq, Ord))] pub struct FltF64LeGeFinSym(f64);
#[doc(hidden)]
#[allow(
    non_snake_case,
    reason = "we keep original structure name which is probably CamelCase"
)]
mod __nutype_FltF64LeGeFinSym__ {
    use super::*;
    #[derive(PartialOrd, Debug, Copy, Clone, PartialEq)]
    pub struct FltF64LeGeFinSym(f64);
    #[derive(Debug, Clone, PartialEq, Eq)]
    #[allow(clippy::enum_variant_names)]
    pub enum FltF64LeGeFinSymError {
        LessOrEqualViolated,
        GreaterOrEqualViolated,
        FiniteViolated,
    }
    impl ::core::fmt::Display for FltF64LeGeFinSymError {
        fn fmt(&self, f: &mut ::core::fmt::Formatter<'_>) -> ::core::fmt::Result {
            match self {
                FltF64LeGeFinSymError::LessOrEqualViolated => write!(
                    f,
                    "{} is too big. The value must be less than {:#?}.",
                    stringify!(FltF64LeGeFinSym),
                    sym_hi_f64()
                ),
                FltF64LeGeFinSymError::GreaterOrEqualViolated => write!(
                    f,
                    "{} is too small. The value must be greater or equal to {:#?}.",
                    stringify!(FltF64LeGeFinSym),
                    sym_lo_f64()
                ),
                FltF64LeGeFinSymError::FiniteViolated => {
                    write!(f, "{} is not finite.", stringify!(FltF64LeGeFinSym))
                }
            }
        }
    }
    impl ::core::error::Error for FltF64LeGeFinSymError {
        fn source(&self) -> Option<&(dyn ::core::error::Error + 'static)> {
            None
        }
    }
    impl FltF64LeGeFinSym {
        pub fn try_new(raw_value: f64) -> ::core::result::Result<Self, FltF64LeGeFinSymError> {
            let sanitized_value: f64 = Self::__sanitize__(raw_value);
            #[allow(clippy::question_mark)]
            if let Err(e) = Self::__validate__(&sanitized_value) {
                return Err(e);
            }
            Ok(FltF64LeGeFinSym(sanitized_value))
        }
        fn __sanitize__(mut value: f64) -> f64 {
            value
        }
        fn __validate__(val: &f64) -> core::result::Result<(), FltF64LeGeFinSymError> {
            let val = *val;
            if val > sym_hi_f64() {
                return Err(FltF64LeGeFinSymError::LessOrEqualViolated);
            }
            if val < sym_lo_f64() {
                return Err(FltF64LeGeFinSymError::GreaterOrEqualViolated);
            }
            if !val.is_finite() {
                return Err(FltF64LeGeFinSymError::FiniteViolated);
            }
            Ok(())
        }
    }
    impl FltF64LeGeFinSym {
        #[inline]
        pub fn into_inner(self) -> f64 {
            self.0
        }
    }
    impl ::core::convert::TryFrom<f64> for FltF64LeGeFinSym {
        type Error = FltF64LeGeFinSymError;
        #[inline]
        fn try_from(raw_value: f64) -> ::core::result::Result<FltF64LeGeFinSym, Self::Error> {
            Self::try_new(raw_value)
        }
    }
    impl ::core::borrow::Borrow<f64> for FltF64LeGeFinSym {
        #[inline]
        fn borrow(&self) -> &f64 {
            &self.0
        }
    }
    impl ::core::ops::Deref for FltF64LeGeFinSym {
        type Target = f64;
        #[inline]
        fn deref(&self) -> &Self::Target {
            &self.0
        }
    }
    #[allow(clippy::derive_ord_xor_partial_ord)]
    impl ::core::cmp::Ord for FltF64LeGeFinSym {
        fn cmp(&self, other: &Self) -> ::core::cmp::Ordering {
            self.partial_cmp(other).unwrap_or_else(||
            {
                let tp = "FltF64LeGeFinSym"; panic!
                ("{tp}::cmp() panicked, because partial_cmp() returned None. Could it be that you're using unsafe {tp}::new_unchecked() ?",
                tp = tp);
            })
        }
    }
    impl ::core::convert::From<FltF64LeGeFinSym> for f64 {
        #[inline]
        fn from(value: FltF64LeGeFinSym) -> Self {
            value.into_inner()
        }
    }
    impl ::core::convert::AsRef<f64> for FltF64LeGeFinSym {
        #[inline]
        fn as_ref(&self) -> &f64 {
            &self.0
        }
    }
    impl ::core::cmp::Eq for FltF64LeGeFinSym {}
    #[cfg(test)]
    mod tests {
        use super::*;
        #[test]
        fn should_have_consistent_lower_and_upper_boundaries() {
            assert!
            (sym_hi_f64() >= sym_lo_f64(),
            "\nInconsistent lower and upper boundaries for type `FltF64LeGeFinSym`\nThe upper boundary `sym_hi_f64()` must be greater than or equal to the lower boundary `sym_lo_f64()`\nNote: the test is generated automatically by #[nutype] macro.\n");
        }
    }
}
pub use __nutype_FltF64LeGeFinSym__::FltF64LeGeFinSym;
pub use __nutype_FltF64LeGeFinSym__::FltF64LeGeFinSymError;
