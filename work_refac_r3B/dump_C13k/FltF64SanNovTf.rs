// NUTYPE_VERIF_INPUT #[nutype(sanitize(with = san_f64), derive(Debug, Clone, Copy, PartialEq, PartialOrd, AsRef, Deref, Borrow, Into, TryFrom))] pub struct FltF64SanNovTf(f64);
#[doc(hidden)]
#[allow(
    non_snake_case,
    reason = "we keep original structure name which is probably CamelCase"
)]
mod __nutype_FltF64SanNovTf__ {
    use super::*;
    #[derive(Clone, Copy, PartialOrd, Debug, PartialEq)]
    pub struct FltF64SanNovTf(f64);
    impl FltF64SanNovTf {
        pub fn new(raw_value: f64) -> Self {
            Self(Self::__sanitize__(raw_value))
        }
        fn __sanitize__(mut value: f64) -> f64 {
            value = (san_f64)(value);
            value
        }
    }
    impl FltF64SanNovTf {
        #[inline]
        pub fn into_inner(self) -> f64 {
            self.0
        }
    }
    impl ::core::convert::TryFrom<f64> for FltF64SanNovTf {
        type Error = ::core::convert::Infallible;
        #[inline]
        fn try_from(raw_value: f64) -> ::core::result::Result<FltF64SanNovTf, Self::Error> {
            Ok(Self::new(raw_value))
        }
    }
    impl ::core::ops::Deref for FltF64SanNovTf {
        type Target = f64;
        #[inline]
        fn deref(&self) -> &Self::Target {
            &self.0
        }
    }
    impl ::core::convert::AsRef<f64> for FltF64SanNovTf {
        #[inline]
        fn as_ref(&self) -> &f64 {
            &self.0
        }
    }
    impl ::core::borrow::Borrow<f64> for FltF64SanNovTf {
        #[inline]
        fn borrow(&self) -> &f64 {
            &self.0
        }
    }
    impl ::core::convert::From<FltF64SanNovTf> for f64 {
        #[inline]
        fn from(value: FltF64SanNovTf) -> Self {
            value.into_inner()
        }
    }
    #[cfg(test)]
    mod tests {
        use super::*;
    }
}
pub use __nutype_FltF64SanNovTf__::FltF64SanNovTf;
