#![allow(dead_code, unused_imports, unused_variables, unused_mut, non_snake_case, non_upper_case_globals, clippy::all)]
use nutype::nutype;
pub fn sym_lo_i32() -> i32 { 3 }
pub fn sym_hi_i32() -> i32 { 100 }
pub fn sym_lo_u8() -> u8 { 3 }
pub fn sym_hi_u8() -> u8 { 100 }
pub fn sym_lo_i64() -> i64 { 3 }
pub fn sym_hi_i64() -> i64 { 100 }
pub fn sym_lo_u128() -> u128 { 3 }
pub fn sym_hi_u128() -> u128 { 100 }
pub fn sym_lo_isize() -> isize { 3 }
pub fn sym_hi_isize() -> isize { 100 }
pub fn sym_len_lo() -> usize { 2 }
pub fn sym_len_hi() -> usize { 8 }

pub mod d_c16_i32_greater_sym {
    use super::*;
    #[nutype(validate(greater = sym_lo_i32()), derive(Debug))]
    pub struct C16I32GreaterSym(i32);
}
pub mod d_c16_i32_greater_lit_p {
    use super::*;
    #[nutype(validate(greater = 7), derive(Debug))]
    pub struct C16I32GreaterLitP(i32);
}
pub mod d_c16_i32_greater_lit_n {
    use super::*;
    #[nutype(validate(greater = -7), derive(Debug))]
    pub struct C16I32GreaterLitN(i32);
}
pub mod d_c16_i32_greater_lit_big {
    use super::*;
    #[nutype(validate(greater = 100), derive(Debug))]
    pub struct C16I32GreaterLitBig(i32);
}
pub mod d_c16_i32_greater_or_equal_sym {
    use super::*;
    #[nutype(validate(greater_or_equal = sym_lo_i32()), derive(Debug))]
    pub struct C16I32GreaterOrEqualSym(i32);
}
pub mod d_c16_i32_greater_or_equal_lit_p {
    use super::*;
    #[nutype(validate(greater_or_equal = 7), derive(Debug))]
    pub struct C16I32GreaterOrEqualLitP(i32);
}
pub mod d_c16_i32_greater_or_equal_lit_n {
    use super::*;
    #[nutype(validate(greater_or_equal = -7), derive(Debug))]
    pub struct C16I32GreaterOrEqualLitN(i32);
}
pub mod d_c16_i32_greater_or_equal_lit_big {
    use super::*;
    #[nutype(validate(greater_or_equal = 100), derive(Debug))]
    pub struct C16I32GreaterOrEqualLitBig(i32);
}
pub mod d_c16_i32_less_sym {
    use super::*;
    #[nutype(validate(less = sym_hi_i32()), derive(Debug))]
    pub struct C16I32LessSym(i32);
}
pub mod d_c16_i32_less_lit_p {
    use super::*;
    #[nutype(validate(less = 7), derive(Debug))]
    pub struct C16I32LessLitP(i32);
}
pub mod d_c16_i32_less_lit_n {
    use super::*;
    #[nutype(validate(less = -7), derive(Debug))]
    pub struct C16I32LessLitN(i32);
}
pub mod d_c16_i32_less_lit_big {
    use super::*;
    #[nutype(validate(less = 100), derive(Debug))]
    pub struct C16I32LessLitBig(i32);
}
pub mod d_c16_i32_less_or_equal_sym {
    use super::*;
    #[nutype(validate(less_or_equal = sym_hi_i32()), derive(Debug))]
    pub struct C16I32LessOrEqualSym(i32);
}
pub mod d_c16_i32_less_or_equal_lit_p {
    use super::*;
    #[nutype(validate(less_or_equal = 7), derive(Debug))]
    pub struct C16I32LessOrEqualLitP(i32);
}
pub mod d_c16_i32_less_or_equal_lit_n {
    use super::*;
    #[nutype(validate(less_or_equal = -7), derive(Debug))]
    pub struct C16I32LessOrEqualLitN(i32);
}
pub mod d_c16_i32_less_or_equal_lit_big {
    use super::*;
    #[nutype(validate(less_or_equal = 100), derive(Debug))]
    pub struct C16I32LessOrEqualLitBig(i32);
}
pub mod d_c16_i32_ge_lt_embed {
    use super::*;
    #[nutype(validate(greater_or_equal = sym_lo_i32(), less = sym_hi_i32()), derive(Debug))]
    pub struct C16I32GeLtEmbed(i32);
}
pub mod d_c16_i32_le_gt_embed {
    use super::*;
    #[nutype(validate(less_or_equal = sym_hi_i32(), greater = sym_lo_i32()), derive(Debug))]
    pub struct C16I32LeGtEmbed(i32);
}
pub mod d_c16_u8_greater_sym {
    use super::*;
    #[nutype(validate(greater = sym_lo_u8()), derive(Debug))]
    pub struct C16U8GreaterSym(u8);
}
pub mod d_c16_u8_greater_lit_p {
    use super::*;
    #[nutype(validate(greater = 7), derive(Debug))]
    pub struct C16U8GreaterLitP(u8);
}
pub mod d_c16_u8_greater_lit_big {
    use super::*;
    #[nutype(validate(greater = 100), derive(Debug))]
    pub struct C16U8GreaterLitBig(u8);
}
pub mod d_c16_u8_greater_or_equal_sym {
    use super::*;
    #[nutype(validate(greater_or_equal = sym_lo_u8()), derive(Debug))]
    pub struct C16U8GreaterOrEqualSym(u8);
}
pub mod d_c16_u8_greater_or_equal_lit_p {
    use super::*;
    #[nutype(validate(greater_or_equal = 7), derive(Debug))]
    pub struct C16U8GreaterOrEqualLitP(u8);
}
pub mod d_c16_u8_greater_or_equal_lit_big {
    use super::*;
    #[nutype(validate(greater_or_equal = 100), derive(Debug))]
    pub struct C16U8GreaterOrEqualLitBig(u8);
}
pub mod d_c16_u8_less_sym {
    use super::*;
    #[nutype(validate(less = sym_hi_u8()), derive(Debug))]
    pub struct C16U8LessSym(u8);
}
pub mod d_c16_u8_less_lit_p {
    use super::*;
    #[nutype(validate(less = 7), derive(Debug))]
    pub struct C16U8LessLitP(u8);
}
pub mod d_c16_u8_less_lit_big {
    use super::*;
    #[nutype(validate(less = 100), derive(Debug))]
    pub struct C16U8LessLitBig(u8);
}
pub mod d_c16_u8_less_or_equal_sym {
    use super::*;
    #[nutype(validate(less_or_equal = sym_hi_u8()), derive(Debug))]
    pub struct C16U8LessOrEqualSym(u8);
}
pub mod d_c16_u8_less_or_equal_lit_p {
    use super::*;
    #[nutype(validate(less_or_equal = 7), derive(Debug))]
    pub struct C16U8LessOrEqualLitP(u8);
}
pub mod d_c16_u8_less_or_equal_lit_big {
    use super::*;
    #[nutype(validate(less_or_equal = 100), derive(Debug))]
    pub struct C16U8LessOrEqualLitBig(u8);
}
pub mod d_c16_u8_ge_lt_embed {
    use super::*;
    #[nutype(validate(greater_or_equal = sym_lo_u8(), less = sym_hi_u8()), derive(Debug))]
    pub struct C16U8GeLtEmbed(u8);
}
pub mod d_c16_u8_le_gt_embed {
    use super::*;
    #[nutype(validate(less_or_equal = sym_hi_u8(), greater = sym_lo_u8()), derive(Debug))]
    pub struct C16U8LeGtEmbed(u8);
}
pub mod d_c16_i64_greater_sym {
    use super::*;
    #[nutype(validate(greater = sym_lo_i64()), derive(Debug))]
    pub struct C16I64GreaterSym(i64);
}
pub mod d_c16_i64_greater_lit_p {
    use super::*;
    #[nutype(validate(greater = 7), derive(Debug))]
    pub struct C16I64GreaterLitP(i64);
}
pub mod d_c16_i64_greater_lit_n {
    use super::*;
    #[nutype(validate(greater = -7), derive(Debug))]
    pub struct C16I64GreaterLitN(i64);
}
pub mod d_c16_i64_greater_lit_big {
    use super::*;
    #[nutype(validate(greater = 100), derive(Debug))]
    pub struct C16I64GreaterLitBig(i64);
}
pub mod d_c16_i64_greater_or_equal_sym {
    use super::*;
    #[nutype(validate(greater_or_equal = sym_lo_i64()), derive(Debug))]
    pub struct C16I64GreaterOrEqualSym(i64);
}
pub mod d_c16_i64_greater_or_equal_lit_p {
    use super::*;
    #[nutype(validate(greater_or_equal = 7), derive(Debug))]
    pub struct C16I64GreaterOrEqualLitP(i64);
}
pub mod d_c16_i64_greater_or_equal_lit_n {
    use super::*;
    #[nutype(validate(greater_or_equal = -7), derive(Debug))]
    pub struct C16I64GreaterOrEqualLitN(i64);
}
pub mod d_c16_i64_greater_or_equal_lit_big {
    use super::*;
    #[nutype(validate(greater_or_equal = 100), derive(Debug))]
    pub struct C16I64GreaterOrEqualLitBig(i64);
}
pub mod d_c16_i64_less_sym {
    use super::*;
    #[nutype(validate(less = sym_hi_i64()), derive(Debug))]
    pub struct C16I64LessSym(i64);
}
pub mod d_c16_i64_less_lit_p {
    use super::*;
    #[nutype(validate(less = 7), derive(Debug))]
    pub struct C16I64LessLitP(i64);
}
pub mod d_c16_i64_less_lit_n {
    use super::*;
    #[nutype(validate(less = -7), derive(Debug))]
    pub struct C16I64LessLitN(i64);
}
pub mod d_c16_i64_less_lit_big {
    use super::*;
    #[nutype(validate(less = 100), derive(Debug))]
    pub struct C16I64LessLitBig(i64);
}
pub mod d_c16_i64_less_or_equal_sym {
    use super::*;
    #[nutype(validate(less_or_equal = sym_hi_i64()), derive(Debug))]
    pub struct C16I64LessOrEqualSym(i64);
}
pub mod d_c16_i64_less_or_equal_lit_p {
    use super::*;
    #[nutype(validate(less_or_equal = 7), derive(Debug))]
    pub struct C16I64LessOrEqualLitP(i64);
}
pub mod d_c16_i64_less_or_equal_lit_n {
    use super::*;
    #[nutype(validate(less_or_equal = -7), derive(Debug))]
    pub struct C16I64LessOrEqualLitN(i64);
}
pub mod d_c16_i64_less_or_equal_lit_big {
    use super::*;
    #[nutype(validate(less_or_equal = 100), derive(Debug))]
    pub struct C16I64LessOrEqualLitBig(i64);
}
pub mod d_c16_i64_ge_lt_embed {
    use super::*;
    #[nutype(validate(greater_or_equal = sym_lo_i64(), less = sym_hi_i64()), derive(Debug))]
    pub struct C16I64GeLtEmbed(i64);
}
pub mod d_c16_i64_le_gt_embed {
    use super::*;
    #[nutype(validate(less_or_equal = sym_hi_i64(), greater = sym_lo_i64()), derive(Debug))]
    pub struct C16I64LeGtEmbed(i64);
}
pub mod d_c16_u128_greater_sym {
    use super::*;
    #[nutype(validate(greater = sym_lo_u128()), derive(Debug))]
    pub struct C16U128GreaterSym(u128);
}
pub mod d_c16_u128_greater_lit_p {
    use super::*;
    #[nutype(validate(greater = 7), derive(Debug))]
    pub struct C16U128GreaterLitP(u128);
}
pub mod d_c16_u128_greater_lit_big {
    use super::*;
    #[nutype(validate(greater = 100), derive(Debug))]
    pub struct C16U128GreaterLitBig(u128);
}
pub mod d_c16_u128_greater_or_equal_sym {
    use super::*;
    #[nutype(validate(greater_or_equal = sym_lo_u128()), derive(Debug))]
    pub struct C16U128GreaterOrEqualSym(u128);
}
pub mod d_c16_u128_greater_or_equal_lit_p {
    use super::*;
    #[nutype(validate(greater_or_equal = 7), derive(Debug))]
    pub struct C16U128GreaterOrEqualLitP(u128);
}
pub mod d_c16_u128_greater_or_equal_lit_big {
    use super::*;
    #[nutype(validate(greater_or_equal = 100), derive(Debug))]
    pub struct C16U128GreaterOrEqualLitBig(u128);
}
pub mod d_c16_u128_less_sym {
    use super::*;
    #[nutype(validate(less = sym_hi_u128()), derive(Debug))]
    pub struct C16U128LessSym(u128);
}
pub mod d_c16_u128_less_lit_p {
    use super::*;
    #[nutype(validate(less = 7), derive(Debug))]
    pub struct C16U128LessLitP(u128);
}
pub mod d_c16_u128_less_lit_big {
    use super::*;
    #[nutype(validate(less = 100), derive(Debug))]
    pub struct C16U128LessLitBig(u128);
}
pub mod d_c16_u128_less_or_equal_sym {
    use super::*;
    #[nutype(validate(less_or_equal = sym_hi_u128()), derive(Debug))]
    pub struct C16U128LessOrEqualSym(u128);
}
pub mod d_c16_u128_less_or_equal_lit_p {
    use super::*;
    #[nutype(validate(less_or_equal = 7), derive(Debug))]
    pub struct C16U128LessOrEqualLitP(u128);
}
pub mod d_c16_u128_less_or_equal_lit_big {
    use super::*;
    #[nutype(validate(less_or_equal = 100), derive(Debug))]
    pub struct C16U128LessOrEqualLitBig(u128);
}
pub mod d_c16_u128_ge_lt_embed {
    use super::*;
    #[nutype(validate(greater_or_equal = sym_lo_u128(), less = sym_hi_u128()), derive(Debug))]
    pub struct C16U128GeLtEmbed(u128);
}
pub mod d_c16_u128_le_gt_embed {
    use super::*;
    #[nutype(validate(less_or_equal = sym_hi_u128(), greater = sym_lo_u128()), derive(Debug))]
    pub struct C16U128LeGtEmbed(u128);
}
pub mod d_c16_isize_greater_sym {
    use super::*;
    #[nutype(validate(greater = sym_lo_isize()), derive(Debug))]
    pub struct C16IsizeGreaterSym(isize);
}
pub mod d_c16_isize_greater_lit_p {
    use super::*;
    #[nutype(validate(greater = 7), derive(Debug))]
    pub struct C16IsizeGreaterLitP(isize);
}
pub mod d_c16_isize_greater_lit_n {
    use super::*;
    #[nutype(validate(greater = -7), derive(Debug))]
    pub struct C16IsizeGreaterLitN(isize);
}
pub mod d_c16_isize_greater_lit_big {
    use super::*;
    #[nutype(validate(greater = 100), derive(Debug))]
    pub struct C16IsizeGreaterLitBig(isize);
}
pub mod d_c16_isize_greater_or_equal_sym {
    use super::*;
    #[nutype(validate(greater_or_equal = sym_lo_isize()), derive(Debug))]
    pub struct C16IsizeGreaterOrEqualSym(isize);
}
pub mod d_c16_isize_greater_or_equal_lit_p {
    use super::*;
    #[nutype(validate(greater_or_equal = 7), derive(Debug))]
    pub struct C16IsizeGreaterOrEqualLitP(isize);
}
pub mod d_c16_isize_greater_or_equal_lit_n {
    use super::*;
    #[nutype(validate(greater_or_equal = -7), derive(Debug))]
    pub struct C16IsizeGreaterOrEqualLitN(isize);
}
pub mod d_c16_isize_greater_or_equal_lit_big {
    use super::*;
    #[nutype(validate(greater_or_equal = 100), derive(Debug))]
    pub struct C16IsizeGreaterOrEqualLitBig(isize);
}
pub mod d_c16_isize_less_sym {
    use super::*;
    #[nutype(validate(less = sym_hi_isize()), derive(Debug))]
    pub struct C16IsizeLessSym(isize);
}
pub mod d_c16_isize_less_lit_p {
    use super::*;
    #[nutype(validate(less = 7), derive(Debug))]
    pub struct C16IsizeLessLitP(isize);
}
pub mod d_c16_isize_less_lit_n {
    use super::*;
    #[nutype(validate(less = -7), derive(Debug))]
    pub struct C16IsizeLessLitN(isize);
}
pub mod d_c16_isize_less_lit_big {
    use super::*;
    #[nutype(validate(less = 100), derive(Debug))]
    pub struct C16IsizeLessLitBig(isize);
}
pub mod d_c16_isize_less_or_equal_sym {
    use super::*;
    #[nutype(validate(less_or_equal = sym_hi_isize()), derive(Debug))]
    pub struct C16IsizeLessOrEqualSym(isize);
}
pub mod d_c16_isize_less_or_equal_lit_p {
    use super::*;
    #[nutype(validate(less_or_equal = 7), derive(Debug))]
    pub struct C16IsizeLessOrEqualLitP(isize);
}
pub mod d_c16_isize_less_or_equal_lit_n {
    use super::*;
    #[nutype(validate(less_or_equal = -7), derive(Debug))]
    pub struct C16IsizeLessOrEqualLitN(isize);
}
pub mod d_c16_isize_less_or_equal_lit_big {
    use super::*;
    #[nutype(validate(less_or_equal = 100), derive(Debug))]
    pub struct C16IsizeLessOrEqualLitBig(isize);
}
pub mod d_c16_isize_ge_lt_embed {
    use super::*;
    #[nutype(validate(greater_or_equal = sym_lo_isize(), less = sym_hi_isize()), derive(Debug))]
    pub struct C16IsizeGeLtEmbed(isize);
}
pub mod d_c16_isize_le_gt_embed {
    use super::*;
    #[nutype(validate(less_or_equal = sym_hi_isize(), greater = sym_lo_isize()), derive(Debug))]
    pub struct C16IsizeLeGtEmbed(isize);
}
pub mod d_c16_str_min_sym {
    use super::*;
    #[nutype(validate(len_char_min = sym_len_lo()), derive(Debug))]
    pub struct C16StrMinSym(String);
}
pub mod d_c16_str_max_sym {
    use super::*;
    #[nutype(validate(len_char_max = sym_len_hi()), derive(Debug))]
    pub struct C16StrMaxSym(String);
}
pub mod d_c16_str_min_max_lit {
    use super::*;
    #[nutype(sanitize(trim), validate(len_char_min = 3, not_empty, len_char_max = 20), derive(Debug))]
    pub struct C16StrMinMaxLit(String);
}
pub mod d_c16_str_max0 {
    use super::*;
    #[nutype(validate(len_char_max = 0), derive(Debug))]
    pub struct C16StrMax0(String);
}
