#![allow(dead_code, unused_imports, unused_variables, unused_mut, static_mut_refs, non_snake_case, non_upper_case_globals, unused_unsafe, overflowing_literals, clippy::all)]
use nutype::nutype;
pub static mut SYM_LO_F32: f32 = 3.0;
pub fn sym_lo_f32() -> f32 { unsafe { SYM_LO_F32 } }
pub static mut SYM_HI_F32: f32 = 100.0;
pub fn sym_hi_f32() -> f32 { unsafe { SYM_HI_F32 } }
pub static mut SYM_LO_F64: f64 = 3.0;
pub fn sym_lo_f64() -> f64 { unsafe { SYM_LO_F64 } }
pub static mut SYM_HI_F64: f64 = 100.0;
pub fn sym_hi_f64() -> f64 { unsafe { SYM_HI_F64 } }

pub mod d_c16_f32_greater_sym {
    use super::*;
    #[nutype(validate(greater = sym_lo_f32()), derive(Debug))]
    pub struct C16F32GreaterSym(f32);
}
pub use d_c16_f32_greater_sym::*;
pub mod ref_c16_f32_greater_sym {
    #![allow(unused_imports, unused_variables, clippy::all)]
    use super::*;
    use super::d_c16_f32_greater_sym::*;
    pub type Inner = f32;
    pub fn sanitize(x: Inner) -> Inner { x }
    pub type Error = C16F32GreaterSymError;
    pub fn validate(x: &Inner) -> Result<(), Error> { let v = *x; if !!(v <= (sym_lo_f32())) { return Err(C16F32GreaterSymError::GreaterViolated); } Ok(()) }
    pub fn try_new(raw: Inner) -> Result<Inner, Error> { let s = sanitize(raw); validate(&s)?; Ok(s) }
    pub fn valid(x: &Inner) -> bool { validate(x).is_ok() }
}
pub mod d_c16_f32_greater_lit_p {
    use super::*;
    #[nutype(validate(greater = 7.5), derive(Debug))]
    pub struct C16F32GreaterLitP(f32);
}
pub use d_c16_f32_greater_lit_p::*;
pub mod ref_c16_f32_greater_lit_p {
    #![allow(unused_imports, unused_variables, clippy::all)]
    use super::*;
    use super::d_c16_f32_greater_lit_p::*;
    pub type Inner = f32;
    pub fn sanitize(x: Inner) -> Inner { x }
    pub type Error = C16F32GreaterLitPError;
    pub fn validate(x: &Inner) -> Result<(), Error> { let v = *x; if !!(v <= ((7.5 as f32))) { return Err(C16F32GreaterLitPError::GreaterViolated); } Ok(()) }
    pub fn try_new(raw: Inner) -> Result<Inner, Error> { let s = sanitize(raw); validate(&s)?; Ok(s) }
    pub fn valid(x: &Inner) -> bool { validate(x).is_ok() }
}
pub mod d_c16_f32_greater_lit_n {
    use super::*;
    #[nutype(validate(greater = -7.5), derive(Debug))]
    pub struct C16F32GreaterLitN(f32);
}
pub use d_c16_f32_greater_lit_n::*;
pub mod ref_c16_f32_greater_lit_n {
    #![allow(unused_imports, unused_variables, clippy::all)]
    use super::*;
    use super::d_c16_f32_greater_lit_n::*;
    pub type Inner = f32;
    pub fn sanitize(x: Inner) -> Inner { x }
    pub type Error = C16F32GreaterLitNError;
    pub fn validate(x: &Inner) -> Result<(), Error> { let v = *x; if !!(v <= ((-7.5 as f32))) { return Err(C16F32GreaterLitNError::GreaterViolated); } Ok(()) }
    pub fn try_new(raw: Inner) -> Result<Inner, Error> { let s = sanitize(raw); validate(&s)?; Ok(s) }
    pub fn valid(x: &Inner) -> bool { validate(x).is_ok() }
}
pub mod d_c16_f32_greater_lit_big {
    use super::*;
    #[nutype(validate(greater = 1e30), derive(Debug))]
    pub struct C16F32GreaterLitBig(f32);
}
pub use d_c16_f32_greater_lit_big::*;
pub mod ref_c16_f32_greater_lit_big {
    #![allow(unused_imports, unused_variables, clippy::all)]
    use super::*;
    use super::d_c16_f32_greater_lit_big::*;
    pub type Inner = f32;
    pub fn sanitize(x: Inner) -> Inner { x }
    pub type Error = C16F32GreaterLitBigError;
    pub fn validate(x: &Inner) -> Result<(), Error> { let v = *x; if !!(v <= ((1e30 as f32))) { return Err(C16F32GreaterLitBigError::GreaterViolated); } Ok(()) }
    pub fn try_new(raw: Inner) -> Result<Inner, Error> { let s = sanitize(raw); validate(&s)?; Ok(s) }
    pub fn valid(x: &Inner) -> bool { validate(x).is_ok() }
}
pub mod d_c16_f32_greater_or_equal_sym {
    use super::*;
    #[nutype(validate(greater_or_equal = sym_lo_f32()), derive(Debug))]
    pub struct C16F32GreaterOrEqualSym(f32);
}
pub use d_c16_f32_greater_or_equal_sym::*;
pub mod ref_c16_f32_greater_or_equal_sym {
    #![allow(unused_imports, unused_variables, clippy::all)]
    use super::*;
    use super::d_c16_f32_greater_or_equal_sym::*;
    pub type Inner = f32;
    pub fn sanitize(x: Inner) -> Inner { x }
    pub type Error = C16F32GreaterOrEqualSymError;
    pub fn validate(x: &Inner) -> Result<(), Error> { let v = *x; if !!(v < (sym_lo_f32())) { return Err(C16F32GreaterOrEqualSymError::GreaterOrEqualViolated); } Ok(()) }
    pub fn try_new(raw: Inner) -> Result<Inner, Error> { let s = sanitize(raw); validate(&s)?; Ok(s) }
    pub fn valid(x: &Inner) -> bool { validate(x).is_ok() }
}
pub mod d_c16_f32_greater_or_equal_lit_p {
    use super::*;
    #[nutype(validate(greater_or_equal = 7.5), derive(Debug))]
    pub struct C16F32GreaterOrEqualLitP(f32);
}
pub use d_c16_f32_greater_or_equal_lit_p::*;
pub mod ref_c16_f32_greater_or_equal_lit_p {
    #![allow(unused_imports, unused_variables, clippy::all)]
    use super::*;
    use super::d_c16_f32_greater_or_equal_lit_p::*;
    pub type Inner = f32;
    pub fn sanitize(x: Inner) -> Inner { x }
    pub type Error = C16F32GreaterOrEqualLitPError;
    pub fn validate(x: &Inner) -> Result<(), Error> { let v = *x; if !!(v < ((7.5 as f32))) { return Err(C16F32GreaterOrEqualLitPError::GreaterOrEqualViolated); } Ok(()) }
    pub fn try_new(raw: Inner) -> Result<Inner, Error> { let s = sanitize(raw); validate(&s)?; Ok(s) }
    pub fn valid(x: &Inner) -> bool { validate(x).is_ok() }
}
pub mod d_c16_f32_greater_or_equal_lit_n {
    use super::*;
    #[nutype(validate(greater_or_equal = -7.5), derive(Debug))]
    pub struct C16F32GreaterOrEqualLitN(f32);
}
pub use d_c16_f32_greater_or_equal_lit_n::*;
pub mod ref_c16_f32_greater_or_equal_lit_n {
    #![allow(unused_imports, unused_variables, clippy::all)]
    use super::*;
    use super::d_c16_f32_greater_or_equal_lit_n::*;
    pub type Inner = f32;
    pub fn sanitize(x: Inner) -> Inner { x }
    pub type Error = C16F32GreaterOrEqualLitNError;
    pub fn validate(x: &Inner) -> Result<(), Error> { let v = *x; if !!(v < ((-7.5 as f32))) { return Err(C16F32GreaterOrEqualLitNError::GreaterOrEqualViolated); } Ok(()) }
    pub fn try_new(raw: Inner) -> Result<Inner, Error> { let s = sanitize(raw); validate(&s)?; Ok(s) }
    pub fn valid(x: &Inner) -> bool { validate(x).is_ok() }
}
pub mod d_c16_f32_greater_or_equal_lit_big {
    use super::*;
    #[nutype(validate(greater_or_equal = 1e30), derive(Debug))]
    pub struct C16F32GreaterOrEqualLitBig(f32);
}
pub use d_c16_f32_greater_or_equal_lit_big::*;
pub mod ref_c16_f32_greater_or_equal_lit_big {
    #![allow(unused_imports, unused_variables, clippy::all)]
    use super::*;
    use super::d_c16_f32_greater_or_equal_lit_big::*;
    pub type Inner = f32;
    pub fn sanitize(x: Inner) -> Inner { x }
    pub type Error = C16F32GreaterOrEqualLitBigError;
    pub fn validate(x: &Inner) -> Result<(), Error> { let v = *x; if !!(v < ((1e30 as f32))) { return Err(C16F32GreaterOrEqualLitBigError::GreaterOrEqualViolated); } Ok(()) }
    pub fn try_new(raw: Inner) -> Result<Inner, Error> { let s = sanitize(raw); validate(&s)?; Ok(s) }
    pub fn valid(x: &Inner) -> bool { validate(x).is_ok() }
}
pub mod d_c16_f32_less_sym {
    use super::*;
    #[nutype(validate(less = sym_hi_f32()), derive(Debug))]
    pub struct C16F32LessSym(f32);
}
pub use d_c16_f32_less_sym::*;
pub mod ref_c16_f32_less_sym {
    #![allow(unused_imports, unused_variables, clippy::all)]
    use super::*;
    use super::d_c16_f32_less_sym::*;
    pub type Inner = f32;
    pub fn sanitize(x: Inner) -> Inner { x }
    pub type Error = C16F32LessSymError;
    pub fn validate(x: &Inner) -> Result<(), Error> { let v = *x; if !!(v >= (sym_hi_f32())) { return Err(C16F32LessSymError::LessViolated); } Ok(()) }
    pub fn try_new(raw: Inner) -> Result<Inner, Error> { let s = sanitize(raw); validate(&s)?; Ok(s) }
    pub fn valid(x: &Inner) -> bool { validate(x).is_ok() }
}
pub mod d_c16_f32_less_lit_p {
    use super::*;
    #[nutype(validate(less = 7.5), derive(Debug))]
    pub struct C16F32LessLitP(f32);
}
pub use d_c16_f32_less_lit_p::*;
pub mod ref_c16_f32_less_lit_p {
    #![allow(unused_imports, unused_variables, clippy::all)]
    use super::*;
    use super::d_c16_f32_less_lit_p::*;
    pub type Inner = f32;
    pub fn sanitize(x: Inner) -> Inner { x }
    pub type Error = C16F32LessLitPError;
    pub fn validate(x: &Inner) -> Result<(), Error> { let v = *x; if !!(v >= ((7.5 as f32))) { return Err(C16F32LessLitPError::LessViolated); } Ok(()) }
    pub fn try_new(raw: Inner) -> Result<Inner, Error> { let s = sanitize(raw); validate(&s)?; Ok(s) }
    pub fn valid(x: &Inner) -> bool { validate(x).is_ok() }
}
pub mod d_c16_f32_less_lit_n {
    use super::*;
    #[nutype(validate(less = -7.5), derive(Debug))]
    pub struct C16F32LessLitN(f32);
}
pub use d_c16_f32_less_lit_n::*;
pub mod ref_c16_f32_less_lit_n {
    #![allow(unused_imports, unused_variables, clippy::all)]
    use super::*;
    use super::d_c16_f32_less_lit_n::*;
    pub type Inner = f32;
    pub fn sanitize(x: Inner) -> Inner { x }
    pub type Error = C16F32LessLitNError;
    pub fn validate(x: &Inner) -> Result<(), Error> { let v = *x; if !!(v >= ((-7.5 as f32))) { return Err(C16F32LessLitNError::LessViolated); } Ok(()) }
    pub fn try_new(raw: Inner) -> Result<Inner, Error> { let s = sanitize(raw); validate(&s)?; Ok(s) }
    pub fn valid(x: &Inner) -> bool { validate(x).is_ok() }
}
pub mod d_c16_f32_less_lit_big {
    use super::*;
    #[nutype(validate(less = 1e30), derive(Debug))]
    pub struct C16F32LessLitBig(f32);
}
pub use d_c16_f32_less_lit_big::*;
pub mod ref_c16_f32_less_lit_big {
    #![allow(unused_imports, unused_variables, clippy::all)]
    use super::*;
    use super::d_c16_f32_less_lit_big::*;
    pub type Inner = f32;
    pub fn sanitize(x: Inner) -> Inner { x }
    pub type Error = C16F32LessLitBigError;
    pub fn validate(x: &Inner) -> Result<(), Error> { let v = *x; if !!(v >= ((1e30 as f32))) { return Err(C16F32LessLitBigError::LessViolated); } Ok(()) }
    pub fn try_new(raw: Inner) -> Result<Inner, Error> { let s = sanitize(raw); validate(&s)?; Ok(s) }
    pub fn valid(x: &Inner) -> bool { validate(x).is_ok() }
}
pub mod d_c16_f32_less_or_equal_sym {
    use super::*;
    #[nutype(validate(less_or_equal = sym_hi_f32()), derive(Debug))]
    pub struct C16F32LessOrEqualSym(f32);
}
pub use d_c16_f32_less_or_equal_sym::*;
pub mod ref_c16_f32_less_or_equal_sym {
    #![allow(unused_imports, unused_variables, clippy::all)]
    use super::*;
    use super::d_c16_f32_less_or_equal_sym::*;
    pub type Inner = f32;
    pub fn sanitize(x: Inner) -> Inner { x }
    pub type Error = C16F32LessOrEqualSymError;
    pub fn validate(x: &Inner) -> Result<(), Error> { let v = *x; if !!(v > (sym_hi_f32())) { return Err(C16F32LessOrEqualSymError::LessOrEqualViolated); } Ok(()) }
    pub fn try_new(raw: Inner) -> Result<Inner, Error> { let s = sanitize(raw); validate(&s)?; Ok(s) }
    pub fn valid(x: &Inner) -> bool { validate(x).is_ok() }
}
pub mod d_c16_f32_less_or_equal_lit_p {
    use super::*;
    #[nutype(validate(less_or_equal = 7.5), derive(Debug))]
    pub struct C16F32LessOrEqualLitP(f32);
}
pub use d_c16_f32_less_or_equal_lit_p::*;
pub mod ref_c16_f32_less_or_equal_lit_p {
    #![allow(unused_imports, unused_variables, clippy::all)]
    use super::*;
    use super::d_c16_f32_less_or_equal_lit_p::*;
    pub type Inner = f32;
    pub fn sanitize(x: Inner) -> Inner { x }
    pub type Error = C16F32LessOrEqualLitPError;
    pub fn validate(x: &Inner) -> Result<(), Error> { let v = *x; if !!(v > ((7.5 as f32))) { return Err(C16F32LessOrEqualLitPError::LessOrEqualViolated); } Ok(()) }
    pub fn try_new(raw: Inner) -> Result<Inner, Error> { let s = sanitize(raw); validate(&s)?; Ok(s) }
    pub fn valid(x: &Inner) -> bool { validate(x).is_ok() }
}
pub mod d_c16_f32_less_or_equal_lit_n {
    use super::*;
    #[nutype(validate(less_or_equal = -7.5), derive(Debug))]
    pub struct C16F32LessOrEqualLitN(f32);
}
pub use d_c16_f32_less_or_equal_lit_n::*;
pub mod ref_c16_f32_less_or_equal_lit_n {
    #![allow(unused_imports, unused_variables, clippy::all)]
    use super::*;
    use super::d_c16_f32_less_or_equal_lit_n::*;
    pub type Inner = f32;
    pub fn sanitize(x: Inner) -> Inner { x }
    pub type Error = C16F32LessOrEqualLitNError;
    pub fn validate(x: &Inner) -> Result<(), Error> { let v = *x; if !!(v > ((-7.5 as f32))) { return Err(C16F32LessOrEqualLitNError::LessOrEqualViolated); } Ok(()) }
    pub fn try_new(raw: Inner) -> Result<Inner, Error> { let s = sanitize(raw); validate(&s)?; Ok(s) }
    pub fn valid(x: &Inner) -> bool { validate(x).is_ok() }
}
pub mod d_c16_f32_less_or_equal_lit_big {
    use super::*;
    #[nutype(validate(less_or_equal = 1e30), derive(Debug))]
    pub struct C16F32LessOrEqualLitBig(f32);
}
pub use d_c16_f32_less_or_equal_lit_big::*;
pub mod ref_c16_f32_less_or_equal_lit_big {
    #![allow(unused_imports, unused_variables, clippy::all)]
    use super::*;
    use super::d_c16_f32_less_or_equal_lit_big::*;
    pub type Inner = f32;
    pub fn sanitize(x: Inner) -> Inner { x }
    pub type Error = C16F32LessOrEqualLitBigError;
    pub fn validate(x: &Inner) -> Result<(), Error> { let v = *x; if !!(v > ((1e30 as f32))) { return Err(C16F32LessOrEqualLitBigError::LessOrEqualViolated); } Ok(()) }
    pub fn try_new(raw: Inner) -> Result<Inner, Error> { let s = sanitize(raw); validate(&s)?; Ok(s) }
    pub fn valid(x: &Inner) -> bool { validate(x).is_ok() }
}
pub mod d_c16_f32_ge_lt_embed {
    use super::*;
    #[nutype(validate(greater_or_equal = sym_lo_f32(), less = sym_hi_f32()), derive(Debug, FromStr, Deserialize))]
    pub struct C16F32GeLtEmbed(f32);
}
pub use d_c16_f32_ge_lt_embed::*;
pub mod ref_c16_f32_ge_lt_embed {
    #![allow(unused_imports, unused_variables, clippy::all)]
    use super::*;
    use super::d_c16_f32_ge_lt_embed::*;
    pub type Inner = f32;
    pub fn sanitize(x: Inner) -> Inner { x }
    pub type Error = C16F32GeLtEmbedError;
    pub fn validate(x: &Inner) -> Result<(), Error> { let v = *x; if !!(v < (sym_lo_f32())) { return Err(C16F32GeLtEmbedError::GreaterOrEqualViolated); } if !!(v >= (sym_hi_f32())) { return Err(C16F32GeLtEmbedError::LessViolated); } Ok(()) }
    pub fn try_new(raw: Inner) -> Result<Inner, Error> { let s = sanitize(raw); validate(&s)?; Ok(s) }
    pub fn valid(x: &Inner) -> bool { validate(x).is_ok() }
}
pub mod d_c16_f32_le_gt_embed {
    use super::*;
    #[nutype(validate(less_or_equal = sym_hi_f32(), greater = sym_lo_f32()), derive(Debug, FromStr, Deserialize))]
    pub struct C16F32LeGtEmbed(f32);
}
pub use d_c16_f32_le_gt_embed::*;
pub mod ref_c16_f32_le_gt_embed {
    #![allow(unused_imports, unused_variables, clippy::all)]
    use super::*;
    use super::d_c16_f32_le_gt_embed::*;
    pub type Inner = f32;
    pub fn sanitize(x: Inner) -> Inner { x }
    pub type Error = C16F32LeGtEmbedError;
    pub fn validate(x: &Inner) -> Result<(), Error> { let v = *x; if !!(v > (sym_hi_f32())) { return Err(C16F32LeGtEmbedError::LessOrEqualViolated); } if !!(v <= (sym_lo_f32())) { return Err(C16F32LeGtEmbedError::GreaterViolated); } Ok(()) }
    pub fn try_new(raw: Inner) -> Result<Inner, Error> { let s = sanitize(raw); validate(&s)?; Ok(s) }
    pub fn valid(x: &Inner) -> bool { validate(x).is_ok() }
}
pub mod d_c16_f64_greater_sym {
    use super::*;
    #[nutype(validate(greater = sym_lo_f64()), derive(Debug))]
    pub struct C16F64GreaterSym(f64);
}
pub use d_c16_f64_greater_sym::*;
pub mod ref_c16_f64_greater_sym {
    #![allow(unused_imports, unused_variables, clippy::all)]
    use super::*;
    use super::d_c16_f64_greater_sym::*;
    pub type Inner = f64;
    pub fn sanitize(x: Inner) -> Inner { x }
    pub type Error = C16F64GreaterSymError;
    pub fn validate(x: &Inner) -> Result<(), Error> { let v = *x; if !!(v <= (sym_lo_f64())) { return Err(C16F64GreaterSymError::GreaterViolated); } Ok(()) }
    pub fn try_new(raw: Inner) -> Result<Inner, Error> { let s = sanitize(raw); validate(&s)?; Ok(s) }
    pub fn valid(x: &Inner) -> bool { validate(x).is_ok() }
}
pub mod d_c16_f64_greater_lit_p {
    use super::*;
    #[nutype(validate(greater = 7.5), derive(Debug))]
    pub struct C16F64GreaterLitP(f64);
}
pub use d_c16_f64_greater_lit_p::*;
pub mod ref_c16_f64_greater_lit_p {
    #![allow(unused_imports, unused_variables, clippy::all)]
    use super::*;
    use super::d_c16_f64_greater_lit_p::*;
    pub type Inner = f64;
    pub fn sanitize(x: Inner) -> Inner { x }
    pub type Error = C16F64GreaterLitPError;
    pub fn validate(x: &Inner) -> Result<(), Error> { let v = *x; if !!(v <= ((7.5 as f64))) { return Err(C16F64GreaterLitPError::GreaterViolated); } Ok(()) }
    pub fn try_new(raw: Inner) -> Result<Inner, Error> { let s = sanitize(raw); validate(&s)?; Ok(s) }
    pub fn valid(x: &Inner) -> bool { validate(x).is_ok() }
}
pub mod d_c16_f64_greater_lit_n {
    use super::*;
    #[nutype(validate(greater = -7.5), derive(Debug))]
    pub struct C16F64GreaterLitN(f64);
}
pub use d_c16_f64_greater_lit_n::*;
pub mod ref_c16_f64_greater_lit_n {
    #![allow(unused_imports, unused_variables, clippy::all)]
    use super::*;
    use super::d_c16_f64_greater_lit_n::*;
    pub type Inner = f64;
    pub fn sanitize(x: Inner) -> Inner { x }
    pub type Error = C16F64GreaterLitNError;
    pub fn validate(x: &Inner) -> Result<(), Error> { let v = *x; if !!(v <= ((-7.5 as f64))) { return Err(C16F64GreaterLitNError::GreaterViolated); } Ok(()) }
    pub fn try_new(raw: Inner) -> Result<Inner, Error> { let s = sanitize(raw); validate(&s)?; Ok(s) }
    pub fn valid(x: &Inner) -> bool { validate(x).is_ok() }
}
pub mod d_c16_f64_greater_lit_big {
    use super::*;
    #[nutype(validate(greater = 1e30), derive(Debug))]
    pub struct C16F64GreaterLitBig(f64);
}
pub use d_c16_f64_greater_lit_big::*;
pub mod ref_c16_f64_greater_lit_big {
    #![allow(unused_imports, unused_variables, clippy::all)]
    use super::*;
    use super::d_c16_f64_greater_lit_big::*;
    pub type Inner = f64;
    pub fn sanitize(x: Inner) -> Inner { x }
    pub type Error = C16F64GreaterLitBigError;
    pub fn validate(x: &Inner) -> Result<(), Error> { let v = *x; if !!(v <= ((1e30 as f64))) { return Err(C16F64GreaterLitBigError::GreaterViolated); } Ok(()) }
    pub fn try_new(raw: Inner) -> Result<Inner, Error> { let s = sanitize(raw); validate(&s)?; Ok(s) }
    pub fn valid(x: &Inner) -> bool { validate(x).is_ok() }
}
pub mod d_c16_f64_greater_or_equal_sym {
    use super::*;
    #[nutype(validate(greater_or_equal = sym_lo_f64()), derive(Debug))]
    pub struct C16F64GreaterOrEqualSym(f64);
}
pub use d_c16_f64_greater_or_equal_sym::*;
pub mod ref_c16_f64_greater_or_equal_sym {
    #![allow(unused_imports, unused_variables, clippy::all)]
    use super::*;
    use super::d_c16_f64_greater_or_equal_sym::*;
    pub type Inner = f64;
    pub fn sanitize(x: Inner) -> Inner { x }
    pub type Error = C16F64GreaterOrEqualSymError;
    pub fn validate(x: &Inner) -> Result<(), Error> { let v = *x; if !!(v < (sym_lo_f64())) { return Err(C16F64GreaterOrEqualSymError::GreaterOrEqualViolated); } Ok(()) }
    pub fn try_new(raw: Inner) -> Result<Inner, Error> { let s = sanitize(raw); validate(&s)?; Ok(s) }
    pub fn valid(x: &Inner) -> bool { validate(x).is_ok() }
}
pub mod d_c16_f64_greater_or_equal_lit_p {
    use super::*;
    #[nutype(validate(greater_or_equal = 7.5), derive(Debug))]
    pub struct C16F64GreaterOrEqualLitP(f64);
}
pub use d_c16_f64_greater_or_equal_lit_p::*;
pub mod ref_c16_f64_greater_or_equal_lit_p {
    #![allow(unused_imports, unused_variables, clippy::all)]
    use super::*;
    use super::d_c16_f64_greater_or_equal_lit_p::*;
    pub type Inner = f64;
    pub fn sanitize(x: Inner) -> Inner { x }
    pub type Error = C16F64GreaterOrEqualLitPError;
    pub fn validate(x: &Inner) -> Result<(), Error> { let v = *x; if !!(v < ((7.5 as f64))) { return Err(C16F64GreaterOrEqualLitPError::GreaterOrEqualViolated); } Ok(()) }
    pub fn try_new(raw: Inner) -> Result<Inner, Error> { let s = sanitize(raw); validate(&s)?; Ok(s) }
    pub fn valid(x: &Inner) -> bool { validate(x).is_ok() }
}
pub mod d_c16_f64_greater_or_equal_lit_n {
    use super::*;
    #[nutype(validate(greater_or_equal = -7.5), derive(Debug))]
    pub struct C16F64GreaterOrEqualLitN(f64);
}
pub use d_c16_f64_greater_or_equal_lit_n::*;
pub mod ref_c16_f64_greater_or_equal_lit_n {
    #![allow(unused_imports, unused_variables, clippy::all)]
    use super::*;
    use super::d_c16_f64_greater_or_equal_lit_n::*;
    pub type Inner = f64;
    pub fn sanitize(x: Inner) -> Inner { x }
    pub type Error = C16F64GreaterOrEqualLitNError;
    pub fn validate(x: &Inner) -> Result<(), Error> { let v = *x; if !!(v < ((-7.5 as f64))) { return Err(C16F64GreaterOrEqualLitNError::GreaterOrEqualViolated); } Ok(()) }
    pub fn try_new(raw: Inner) -> Result<Inner, Error> { let s = sanitize(raw); validate(&s)?; Ok(s) }
    pub fn valid(x: &Inner) -> bool { validate(x).is_ok() }
}
pub mod d_c16_f64_greater_or_equal_lit_big {
    use super::*;
    #[nutype(validate(greater_or_equal = 1e30), derive(Debug))]
    pub struct C16F64GreaterOrEqualLitBig(f64);
}
pub use d_c16_f64_greater_or_equal_lit_big::*;
pub mod ref_c16_f64_greater_or_equal_lit_big {
    #![allow(unused_imports, unused_variables, clippy::all)]
    use super::*;
    use super::d_c16_f64_greater_or_equal_lit_big::*;
    pub type Inner = f64;
    pub fn sanitize(x: Inner) -> Inner { x }
    pub type Error = C16F64GreaterOrEqualLitBigError;
    pub fn validate(x: &Inner) -> Result<(), Error> { let v = *x; if !!(v < ((1e30 as f64))) { return Err(C16F64GreaterOrEqualLitBigError::GreaterOrEqualViolated); } Ok(()) }
    pub fn try_new(raw: Inner) -> Result<Inner, Error> { let s = sanitize(raw); validate(&s)?; Ok(s) }
    pub fn valid(x: &Inner) -> bool { validate(x).is_ok() }
}
pub mod d_c16_f64_less_sym {
    use super::*;
    #[nutype(validate(less = sym_hi_f64()), derive(Debug))]
    pub struct C16F64LessSym(f64);
}
pub use d_c16_f64_less_sym::*;
pub mod ref_c16_f64_less_sym {
    #![allow(unused_imports, unused_variables, clippy::all)]
    use super::*;
    use super::d_c16_f64_less_sym::*;
    pub type Inner = f64;
    pub fn sanitize(x: Inner) -> Inner { x }
    pub type Error = C16F64LessSymError;
    pub fn validate(x: &Inner) -> Result<(), Error> { let v = *x; if !!(v >= (sym_hi_f64())) { return Err(C16F64LessSymError::LessViolated); } Ok(()) }
    pub fn try_new(raw: Inner) -> Result<Inner, Error> { let s = sanitize(raw); validate(&s)?; Ok(s) }
    pub fn valid(x: &Inner) -> bool { validate(x).is_ok() }
}
pub mod d_c16_f64_less_lit_p {
    use super::*;
    #[nutype(validate(less = 7.5), derive(Debug))]
    pub struct C16F64LessLitP(f64);
}
pub use d_c16_f64_less_lit_p::*;
pub mod ref_c16_f64_less_lit_p {
    #![allow(unused_imports, unused_variables, clippy::all)]
    use super::*;
    use super::d_c16_f64_less_lit_p::*;
    pub type Inner = f64;
    pub fn sanitize(x: Inner) -> Inner { x }
    pub type Error = C16F64LessLitPError;
    pub fn validate(x: &Inner) -> Result<(), Error> { let v = *x; if !!(v >= ((7.5 as f64))) { return Err(C16F64LessLitPError::LessViolated); } Ok(()) }
    pub fn try_new(raw: Inner) -> Result<Inner, Error> { let s = sanitize(raw); validate(&s)?; Ok(s) }
    pub fn valid(x: &Inner) -> bool { validate(x).is_ok() }
}
pub mod d_c16_f64_less_lit_n {
    use super::*;
    #[nutype(validate(less = -7.5), derive(Debug))]
    pub struct C16F64LessLitN(f64);
}
pub use d_c16_f64_less_lit_n::*;
pub mod ref_c16_f64_less_lit_n {
    #![allow(unused_imports, unused_variables, clippy::all)]
    use super::*;
    use super::d_c16_f64_less_lit_n::*;
    pub type Inner = f64;
    pub fn sanitize(x: Inner) -> Inner { x }
    pub type Error = C16F64LessLitNError;
    pub fn validate(x: &Inner) -> Result<(), Error> { let v = *x; if !!(v >= ((-7.5 as f64))) { return Err(C16F64LessLitNError::LessViolated); } Ok(()) }
    pub fn try_new(raw: Inner) -> Result<Inner, Error> { let s = sanitize(raw); validate(&s)?; Ok(s) }
    pub fn valid(x: &Inner) -> bool { validate(x).is_ok() }
}
pub mod d_c16_f64_less_lit_big {
    use super::*;
    #[nutype(validate(less = 1e30), derive(Debug))]
    pub struct C16F64LessLitBig(f64);
}
pub use d_c16_f64_less_lit_big::*;
pub mod ref_c16_f64_less_lit_big {
    #![allow(unused_imports, unused_variables, clippy::all)]
    use super::*;
    use super::d_c16_f64_less_lit_big::*;
    pub type Inner = f64;
    pub fn sanitize(x: Inner) -> Inner { x }
    pub type Error = C16F64LessLitBigError;
    pub fn validate(x: &Inner) -> Result<(), Error> { let v = *x; if !!(v >= ((1e30 as f64))) { return Err(C16F64LessLitBigError::LessViolated); } Ok(()) }
    pub fn try_new(raw: Inner) -> Result<Inner, Error> { let s = sanitize(raw); validate(&s)?; Ok(s) }
    pub fn valid(x: &Inner) -> bool { validate(x).is_ok() }
}
pub mod d_c16_f64_less_or_equal_sym {
    use super::*;
    #[nutype(validate(less_or_equal = sym_hi_f64()), derive(Debug))]
    pub struct C16F64LessOrEqualSym(f64);
}
pub use d_c16_f64_less_or_equal_sym::*;
pub mod ref_c16_f64_less_or_equal_sym {
    #![allow(unused_imports, unused_variables, clippy::all)]
    use super::*;
    use super::d_c16_f64_less_or_equal_sym::*;
    pub type Inner = f64;
    pub fn sanitize(x: Inner) -> Inner { x }
    pub type Error = C16F64LessOrEqualSymError;
    pub fn validate(x: &Inner) -> Result<(), Error> { let v = *x; if !!(v > (sym_hi_f64())) { return Err(C16F64LessOrEqualSymError::LessOrEqualViolated); } Ok(()) }
    pub fn try_new(raw: Inner) -> Result<Inner, Error> { let s = sanitize(raw); validate(&s)?; Ok(s) }
    pub fn valid(x: &Inner) -> bool { validate(x).is_ok() }
}
pub mod d_c16_f64_less_or_equal_lit_p {
    use super::*;
    #[nutype(validate(less_or_equal = 7.5), derive(Debug))]
    pub struct C16F64LessOrEqualLitP(f64);
}
pub use d_c16_f64_less_or_equal_lit_p::*;
pub mod ref_c16_f64_less_or_equal_lit_p {
    #![allow(unused_imports, unused_variables, clippy::all)]
    use super::*;
    use super::d_c16_f64_less_or_equal_lit_p::*;
    pub type Inner = f64;
    pub fn sanitize(x: Inner) -> Inner { x }
    pub type Error = C16F64LessOrEqualLitPError;
    pub fn validate(x: &Inner) -> Result<(), Error> { let v = *x; if !!(v > ((7.5 as f64))) { return Err(C16F64LessOrEqualLitPError::LessOrEqualViolated); } Ok(()) }
    pub fn try_new(raw: Inner) -> Result<Inner, Error> { let s = sanitize(raw); validate(&s)?; Ok(s) }
    pub fn valid(x: &Inner) -> bool { validate(x).is_ok() }
}
pub mod d_c16_f64_less_or_equal_lit_n {
    use super::*;
    #[nutype(validate(less_or_equal = -7.5), derive(Debug))]
    pub struct C16F64LessOrEqualLitN(f64);
}
pub use d_c16_f64_less_or_equal_lit_n::*;
pub mod ref_c16_f64_less_or_equal_lit_n {
    #![allow(unused_imports, unused_variables, clippy::all)]
    use super::*;
    use super::d_c16_f64_less_or_equal_lit_n::*;
    pub type Inner = f64;
    pub fn sanitize(x: Inner) -> Inner { x }
    pub type Error = C16F64LessOrEqualLitNError;
    pub fn validate(x: &Inner) -> Result<(), Error> { let v = *x; if !!(v > ((-7.5 as f64))) { return Err(C16F64LessOrEqualLitNError::LessOrEqualViolated); } Ok(()) }
    pub fn try_new(raw: Inner) -> Result<Inner, Error> { let s = sanitize(raw); validate(&s)?; Ok(s) }
    pub fn valid(x: &Inner) -> bool { validate(x).is_ok() }
}
pub mod d_c16_f64_less_or_equal_lit_big {
    use super::*;
    #[nutype(validate(less_or_equal = 1e30), derive(Debug))]
    pub struct C16F64LessOrEqualLitBig(f64);
}
pub use d_c16_f64_less_or_equal_lit_big::*;
pub mod ref_c16_f64_less_or_equal_lit_big {
    #![allow(unused_imports, unused_variables, clippy::all)]
    use super::*;
    use super::d_c16_f64_less_or_equal_lit_big::*;
    pub type Inner = f64;
    pub fn sanitize(x: Inner) -> Inner { x }
    pub type Error = C16F64LessOrEqualLitBigError;
    pub fn validate(x: &Inner) -> Result<(), Error> { let v = *x; if !!(v > ((1e30 as f64))) { return Err(C16F64LessOrEqualLitBigError::LessOrEqualViolated); } Ok(()) }
    pub fn try_new(raw: Inner) -> Result<Inner, Error> { let s = sanitize(raw); validate(&s)?; Ok(s) }
    pub fn valid(x: &Inner) -> bool { validate(x).is_ok() }
}
pub mod d_c16_f64_ge_lt_embed {
    use super::*;
    #[nutype(validate(greater_or_equal = sym_lo_f64(), less = sym_hi_f64()), derive(Debug, FromStr, Deserialize))]
    pub struct C16F64GeLtEmbed(f64);
}
pub use d_c16_f64_ge_lt_embed::*;
pub mod ref_c16_f64_ge_lt_embed {
    #![allow(unused_imports, unused_variables, clippy::all)]
    use super::*;
    use super::d_c16_f64_ge_lt_embed::*;
    pub type Inner = f64;
    pub fn sanitize(x: Inner) -> Inner { x }
    pub type Error = C16F64GeLtEmbedError;
    pub fn validate(x: &Inner) -> Result<(), Error> { let v = *x; if !!(v < (sym_lo_f64())) { return Err(C16F64GeLtEmbedError::GreaterOrEqualViolated); } if !!(v >= (sym_hi_f64())) { return Err(C16F64GeLtEmbedError::LessViolated); } Ok(()) }
    pub fn try_new(raw: Inner) -> Result<Inner, Error> { let s = sanitize(raw); validate(&s)?; Ok(s) }
    pub fn valid(x: &Inner) -> bool { validate(x).is_ok() }
}
pub mod d_c16_f64_le_gt_embed {
    use super::*;
    #[nutype(validate(less_or_equal = sym_hi_f64(), greater = sym_lo_f64()), derive(Debug, FromStr, Deserialize))]
    pub struct C16F64LeGtEmbed(f64);
}
pub use d_c16_f64_le_gt_embed::*;
pub mod ref_c16_f64_le_gt_embed {
    #![allow(unused_imports, unused_variables, clippy::all)]
    use super::*;
    use super::d_c16_f64_le_gt_embed::*;
    pub type Inner = f64;
    pub fn sanitize(x: Inner) -> Inner { x }
    pub type Error = C16F64LeGtEmbedError;
    pub fn validate(x: &Inner) -> Result<(), Error> { let v = *x; if !!(v > (sym_hi_f64())) { return Err(C16F64LeGtEmbedError::LessOrEqualViolated); } if !!(v <= (sym_lo_f64())) { return Err(C16F64LeGtEmbedError::GreaterViolated); } Ok(()) }
    pub fn try_new(raw: Inner) -> Result<Inner, Error> { let s = sanitize(raw); validate(&s)?; Ok(s) }
    pub fn valid(x: &Inner) -> bool { validate(x).is_ok() }
}
#[cfg(kani)]
mod harness {
    use super::*;
    #[kani::proof]
    fn k_c16_f32_greater_sym__Display_GreaterViolated__relation() {
        unsafe { SYM_LO_F32 = kani::any(); }
        let x: f32 = kani::any();
        kani::assume(!x.is_nan());
        let b: f32 = sym_lo_f32();
        kani::assume(!b.is_nan());
        let stated = x > b;
        let accepted = !(x <= (sym_lo_f32()));
        assert!(stated == accepted, "the relation the message states holds exactly for the values the validator accepts");

        kani::cover!(true, "reached");
    }
    #[kani::proof]
    fn k_c16_f32_greater_lit_p__Display_GreaterViolated__relation() {
        let x: f32 = kani::any();
        kani::assume(!x.is_nan());
        let b: f32 = (7.5 as f32);
        kani::assume(!b.is_nan());
        let stated = x > b;
        let accepted = !(x <= ((7.5 as f32)));
        assert!(stated == accepted, "the relation the message states holds exactly for the values the validator accepts");

        kani::cover!(true, "reached");
    }
    #[kani::proof]
    fn k_c16_f32_greater_lit_n__Display_GreaterViolated__relation() {
        let x: f32 = kani::any();
        kani::assume(!x.is_nan());
        let b: f32 = (-7.5 as f32);
        kani::assume(!b.is_nan());
        let stated = x > b;
        let accepted = !(x <= ((-7.5 as f32)));
        assert!(stated == accepted, "the relation the message states holds exactly for the values the validator accepts");

        kani::cover!(true, "reached");
    }
    #[kani::proof]
    fn k_c16_f32_greater_lit_big__Display_GreaterViolated__relation() {
        let x: f32 = kani::any();
        kani::assume(!x.is_nan());
        let b: f32 = (1e30 as f32);
        kani::assume(!b.is_nan());
        let stated = x > b;
        let accepted = !(x <= ((1e30 as f32)));
        assert!(stated == accepted, "the relation the message states holds exactly for the values the validator accepts");

        kani::cover!(true, "reached");
    }
    #[kani::proof]
    fn k_c16_f32_greater_or_equal_sym__Display_GreaterOrEqualViolated__relation() {
        unsafe { SYM_LO_F32 = kani::any(); }
        let x: f32 = kani::any();
        kani::assume(!x.is_nan());
        let b: f32 = sym_lo_f32();
        kani::assume(!b.is_nan());
        let stated = x >= b;
        let accepted = !(x < (sym_lo_f32()));
        assert!(stated == accepted, "the relation the message states holds exactly for the values the validator accepts");

        kani::cover!(true, "reached");
    }
    #[kani::proof]
    fn k_c16_f32_greater_or_equal_lit_p__Display_GreaterOrEqualViolated__relation() {
        let x: f32 = kani::any();
        kani::assume(!x.is_nan());
        let b: f32 = (7.5 as f32);
        kani::assume(!b.is_nan());
        let stated = x >= b;
        let accepted = !(x < ((7.5 as f32)));
        assert!(stated == accepted, "the relation the message states holds exactly for the values the validator accepts");

        kani::cover!(true, "reached");
    }
    #[kani::proof]
    fn k_c16_f32_greater_or_equal_lit_n__Display_GreaterOrEqualViolated__relation() {
        let x: f32 = kani::any();
        kani::assume(!x.is_nan());
        let b: f32 = (-7.5 as f32);
        kani::assume(!b.is_nan());
        let stated = x >= b;
        let accepted = !(x < ((-7.5 as f32)));
        assert!(stated == accepted, "the relation the message states holds exactly for the values the validator accepts");

        kani::cover!(true, "reached");
    }
    #[kani::proof]
    fn k_c16_f32_greater_or_equal_lit_big__Display_GreaterOrEqualViolated__relation() {
        let x: f32 = kani::any();
        kani::assume(!x.is_nan());
        let b: f32 = (1e30 as f32);
        kani::assume(!b.is_nan());
        let stated = x >= b;
        let accepted = !(x < ((1e30 as f32)));
        assert!(stated == accepted, "the relation the message states holds exactly for the values the validator accepts");

        kani::cover!(true, "reached");
    }
    #[kani::proof]
    fn k_c16_f32_less_sym__Display_LessViolated__relation() {
        unsafe { SYM_HI_F32 = kani::any(); }
        let x: f32 = kani::any();
        kani::assume(!x.is_nan());
        let b: f32 = sym_hi_f32();
        kani::assume(!b.is_nan());
        let stated = x < b;
        let accepted = !(x >= (sym_hi_f32()));
        assert!(stated == accepted, "the relation the message states holds exactly for the values the validator accepts");

        kani::cover!(true, "reached");
    }
    #[kani::proof]
    fn k_c16_f32_less_lit_p__Display_LessViolated__relation() {
        let x: f32 = kani::any();
        kani::assume(!x.is_nan());
        let b: f32 = (7.5 as f32);
        kani::assume(!b.is_nan());
        let stated = x < b;
        let accepted = !(x >= ((7.5 as f32)));
        assert!(stated == accepted, "the relation the message states holds exactly for the values the validator accepts");

        kani::cover!(true, "reached");
    }
    #[kani::proof]
    fn k_c16_f32_less_lit_n__Display_LessViolated__relation() {
        let x: f32 = kani::any();
        kani::assume(!x.is_nan());
        let b: f32 = (-7.5 as f32);
        kani::assume(!b.is_nan());
        let stated = x < b;
        let accepted = !(x >= ((-7.5 as f32)));
        assert!(stated == accepted, "the relation the message states holds exactly for the values the validator accepts");

        kani::cover!(true, "reached");
    }
    #[kani::proof]
    fn k_c16_f32_less_lit_big__Display_LessViolated__relation() {
        let x: f32 = kani::any();
        kani::assume(!x.is_nan());
        let b: f32 = (1e30 as f32);
        kani::assume(!b.is_nan());
        let stated = x < b;
        let accepted = !(x >= ((1e30 as f32)));
        assert!(stated == accepted, "the relation the message states holds exactly for the values the validator accepts");

        kani::cover!(true, "reached");
    }
    #[kani::proof]
    fn k_c16_f32_less_or_equal_sym__Display_LessOrEqualViolated__relation() {
        unsafe { SYM_HI_F32 = kani::any(); }
        let x: f32 = kani::any();
        kani::assume(!x.is_nan());
        let b: f32 = sym_hi_f32();
        kani::assume(!b.is_nan());
        let stated = x < b;
        let accepted = !(x > (sym_hi_f32()));
        assert!(stated == accepted, "the relation the message states holds exactly for the values the validator accepts");

        kani::cover!(true, "reached");
    }
    #[kani::proof]
    fn k_c16_f32_less_or_equal_lit_p__Display_LessOrEqualViolated__relation() {
        let x: f32 = kani::any();
        kani::assume(!x.is_nan());
        let b: f32 = (7.5 as f32);
        kani::assume(!b.is_nan());
        let stated = x < b;
        let accepted = !(x > ((7.5 as f32)));
        assert!(stated == accepted, "the relation the message states holds exactly for the values the validator accepts");

        kani::cover!(true, "reached");
    }
    #[kani::proof]
    fn k_c16_f32_less_or_equal_lit_n__Display_LessOrEqualViolated__relation() {
        let x: f32 = kani::any();
        kani::assume(!x.is_nan());
        let b: f32 = (-7.5 as f32);
        kani::assume(!b.is_nan());
        let stated = x < b;
        let accepted = !(x > ((-7.5 as f32)));
        assert!(stated == accepted, "the relation the message states holds exactly for the values the validator accepts");

        kani::cover!(true, "reached");
    }
    #[kani::proof]
    fn k_c16_f32_less_or_equal_lit_big__Display_LessOrEqualViolated__relation() {
        let x: f32 = kani::any();
        kani::assume(!x.is_nan());
        let b: f32 = (1e30 as f32);
        kani::assume(!b.is_nan());
        let stated = x < b;
        let accepted = !(x > ((1e30 as f32)));
        assert!(stated == accepted, "the relation the message states holds exactly for the values the validator accepts");

        kani::cover!(true, "reached");
    }
    #[kani::proof]
    fn k_c16_f32_ge_lt_embed__Display_GreaterOrEqualViolated__relation() {
        unsafe { SYM_LO_F32 = kani::any(); }
        unsafe { SYM_HI_F32 = kani::any(); }
        let x: f32 = kani::any();
        kani::assume(!x.is_nan());
        let b: f32 = sym_lo_f32();
        kani::assume(!b.is_nan());
        let stated = x >= b;
        let accepted = !(x < (sym_lo_f32()));
        assert!(stated == accepted, "the relation the message states holds exactly for the values the validator accepts");

        kani::cover!(true, "reached");
    }
    #[kani::proof]
    fn k_c16_f32_ge_lt_embed__Display_LessViolated__relation() {
        unsafe { SYM_LO_F32 = kani::any(); }
        unsafe { SYM_HI_F32 = kani::any(); }
        let x: f32 = kani::any();
        kani::assume(!x.is_nan());
        let b: f32 = sym_hi_f32();
        kani::assume(!b.is_nan());
        let stated = x < b;
        let accepted = !(x >= (sym_hi_f32()));
        assert!(stated == accepted, "the relation the message states holds exactly for the values the validator accepts");

        kani::cover!(true, "reached");
    }
    #[kani::proof]
    fn k_c16_f32_le_gt_embed__Display_LessOrEqualViolated__relation() {
        unsafe { SYM_LO_F32 = kani::any(); }
        unsafe { SYM_HI_F32 = kani::any(); }
        let x: f32 = kani::any();
        kani::assume(!x.is_nan());
        let b: f32 = sym_hi_f32();
        kani::assume(!b.is_nan());
        let stated = x < b;
        let accepted = !(x > (sym_hi_f32()));
        assert!(stated == accepted, "the relation the message states holds exactly for the values the validator accepts");

        kani::cover!(true, "reached");
    }
    #[kani::proof]
    fn k_c16_f32_le_gt_embed__Display_GreaterViolated__relation() {
        unsafe { SYM_LO_F32 = kani::any(); }
        unsafe { SYM_HI_F32 = kani::any(); }
        let x: f32 = kani::any();
        kani::assume(!x.is_nan());
        let b: f32 = sym_lo_f32();
        kani::assume(!b.is_nan());
        let stated = x > b;
        let accepted = !(x <= (sym_lo_f32()));
        assert!(stated == accepted, "the relation the message states holds exactly for the values the validator accepts");

        kani::cover!(true, "reached");
    }
    #[kani::proof]
    fn k_c16_f64_greater_sym__Display_GreaterViolated__relation() {
        unsafe { SYM_LO_F64 = kani::any(); }
        let x: f64 = kani::any();
        kani::assume(!x.is_nan());
        let b: f64 = sym_lo_f64();
        kani::assume(!b.is_nan());
        let stated = x > b;
        let accepted = !(x <= (sym_lo_f64()));
        assert!(stated == accepted, "the relation the message states holds exactly for the values the validator accepts");

        kani::cover!(true, "reached");
    }
    #[kani::proof]
    fn k_c16_f64_greater_lit_p__Display_GreaterViolated__relation() {
        let x: f64 = kani::any();
        kani::assume(!x.is_nan());
        let b: f64 = (7.5 as f64);
        kani::assume(!b.is_nan());
        let stated = x > b;
        let accepted = !(x <= ((7.5 as f64)));
        assert!(stated == accepted, "the relation the message states holds exactly for the values the validator accepts");

        kani::cover!(true, "reached");
    }
    #[kani::proof]
    fn k_c16_f64_greater_lit_n__Display_GreaterViolated__relation() {
        let x: f64 = kani::any();
        kani::assume(!x.is_nan());
        let b: f64 = (-7.5 as f64);
        kani::assume(!b.is_nan());
        let stated = x > b;
        let accepted = !(x <= ((-7.5 as f64)));
        assert!(stated == accepted, "the relation the message states holds exactly for the values the validator accepts");

        kani::cover!(true, "reached");
    }
    #[kani::proof]
    fn k_c16_f64_greater_lit_big__Display_GreaterViolated__relation() {
        let x: f64 = kani::any();
        kani::assume(!x.is_nan());
        let b: f64 = (1e30 as f64);
        kani::assume(!b.is_nan());
        let stated = x > b;
        let accepted = !(x <= ((1e30 as f64)));
        assert!(stated == accepted, "the relation the message states holds exactly for the values the validator accepts");

        kani::cover!(true, "reached");
    }
    #[kani::proof]
    fn k_c16_f64_greater_or_equal_sym__Display_GreaterOrEqualViolated__relation() {
        unsafe { SYM_LO_F64 = kani::any(); }
        let x: f64 = kani::any();
        kani::assume(!x.is_nan());
        let b: f64 = sym_lo_f64();
        kani::assume(!b.is_nan());
        let stated = x >= b;
        let accepted = !(x < (sym_lo_f64()));
        assert!(stated == accepted, "the relation the message states holds exactly for the values the validator accepts");

        kani::cover!(true, "reached");
    }
    #[kani::proof]
    fn k_c16_f64_greater_or_equal_lit_p__Display_GreaterOrEqualViolated__relation() {
        let x: f64 = kani::any();
        kani::assume(!x.is_nan());
        let b: f64 = (7.5 as f64);
        kani::assume(!b.is_nan());
        let stated = x >= b;
        let accepted = !(x < ((7.5 as f64)));
        assert!(stated == accepted, "the relation the message states holds exactly for the values the validator accepts");

        kani::cover!(true, "reached");
    }
    #[kani::proof]
    fn k_c16_f64_greater_or_equal_lit_n__Display_GreaterOrEqualViolated__relation() {
        let x: f64 = kani::any();
        kani::assume(!x.is_nan());
        let b: f64 = (-7.5 as f64);
        kani::assume(!b.is_nan());
        let stated = x >= b;
        let accepted = !(x < ((-7.5 as f64)));
        assert!(stated == accepted, "the relation the message states holds exactly for the values the validator accepts");

        kani::cover!(true, "reached");
    }
    #[kani::proof]
    fn k_c16_f64_greater_or_equal_lit_big__Display_GreaterOrEqualViolated__relation() {
        let x: f64 = kani::any();
        kani::assume(!x.is_nan());
        let b: f64 = (1e30 as f64);
        kani::assume(!b.is_nan());
        let stated = x >= b;
        let accepted = !(x < ((1e30 as f64)));
        assert!(stated == accepted, "the relation the message states holds exactly for the values the validator accepts");

        kani::cover!(true, "reached");
    }
    #[kani::proof]
    fn k_c16_f64_less_sym__Display_LessViolated__relation() {
        unsafe { SYM_HI_F64 = kani::any(); }
        let x: f64 = kani::any();
        kani::assume(!x.is_nan());
        let b: f64 = sym_hi_f64();
        kani::assume(!b.is_nan());
        let stated = x < b;
        let accepted = !(x >= (sym_hi_f64()));
        assert!(stated == accepted, "the relation the message states holds exactly for the values the validator accepts");

        kani::cover!(true, "reached");
    }
    #[kani::proof]
    fn k_c16_f64_less_lit_p__Display_LessViolated__relation() {
        let x: f64 = kani::any();
        kani::assume(!x.is_nan());
        let b: f64 = (7.5 as f64);
        kani::assume(!b.is_nan());
        let stated = x < b;
        let accepted = !(x >= ((7.5 as f64)));
        assert!(stated == accepted, "the relation the message states holds exactly for the values the validator accepts");

        kani::cover!(true, "reached");
    }
    #[kani::proof]
    fn k_c16_f64_less_lit_n__Display_LessViolated__relation() {
        let x: f64 = kani::any();
        kani::assume(!x.is_nan());
        let b: f64 = (-7.5 as f64);
        kani::assume(!b.is_nan());
        let stated = x < b;
        let accepted = !(x >= ((-7.5 as f64)));
        assert!(stated == accepted, "the relation the message states holds exactly for the values the validator accepts");

        kani::cover!(true, "reached");
    }
    #[kani::proof]
    fn k_c16_f64_less_lit_big__Display_LessViolated__relation() {
        let x: f64 = kani::any();
        kani::assume(!x.is_nan());
        let b: f64 = (1e30 as f64);
        kani::assume(!b.is_nan());
        let stated = x < b;
        let accepted = !(x >= ((1e30 as f64)));
        assert!(stated == accepted, "the relation the message states holds exactly for the values the validator accepts");

        kani::cover!(true, "reached");
    }
    #[kani::proof]
    fn k_c16_f64_less_or_equal_sym__Display_LessOrEqualViolated__relation() {
        unsafe { SYM_HI_F64 = kani::any(); }
        let x: f64 = kani::any();
        kani::assume(!x.is_nan());
        let b: f64 = sym_hi_f64();
        kani::assume(!b.is_nan());
        let stated = x < b;
        let accepted = !(x > (sym_hi_f64()));
        assert!(stated == accepted, "the relation the message states holds exactly for the values the validator accepts");

        kani::cover!(true, "reached");
    }
    #[kani::proof]
    fn k_c16_f64_less_or_equal_lit_p__Display_LessOrEqualViolated__relation() {
        let x: f64 = kani::any();
        kani::assume(!x.is_nan());
        let b: f64 = (7.5 as f64);
        kani::assume(!b.is_nan());
        let stated = x < b;
        let accepted = !(x > ((7.5 as f64)));
        assert!(stated == accepted, "the relation the message states holds exactly for the values the validator accepts");

        kani::cover!(true, "reached");
    }
    #[kani::proof]
    fn k_c16_f64_less_or_equal_lit_n__Display_LessOrEqualViolated__relation() {
        let x: f64 = kani::any();
        kani::assume(!x.is_nan());
        let b: f64 = (-7.5 as f64);
        kani::assume(!b.is_nan());
        let stated = x < b;
        let accepted = !(x > ((-7.5 as f64)));
        assert!(stated == accepted, "the relation the message states holds exactly for the values the validator accepts");

        kani::cover!(true, "reached");
    }
    #[kani::proof]
    fn k_c16_f64_less_or_equal_lit_big__Display_LessOrEqualViolated__relation() {
        let x: f64 = kani::any();
        kani::assume(!x.is_nan());
        let b: f64 = (1e30 as f64);
        kani::assume(!b.is_nan());
        let stated = x < b;
        let accepted = !(x > ((1e30 as f64)));
        assert!(stated == accepted, "the relation the message states holds exactly for the values the validator accepts");

        kani::cover!(true, "reached");
    }
    #[kani::proof]
    fn k_c16_f64_ge_lt_embed__Display_GreaterOrEqualViolated__relation() {
        unsafe { SYM_LO_F64 = kani::any(); }
        unsafe { SYM_HI_F64 = kani::any(); }
        let x: f64 = kani::any();
        kani::assume(!x.is_nan());
        let b: f64 = sym_lo_f64();
        kani::assume(!b.is_nan());
        let stated = x >= b;
        let accepted = !(x < (sym_lo_f64()));
        assert!(stated == accepted, "the relation the message states holds exactly for the values the validator accepts");

        kani::cover!(true, "reached");
    }
    #[kani::proof]
    fn k_c16_f64_ge_lt_embed__Display_LessViolated__relation() {
        unsafe { SYM_LO_F64 = kani::any(); }
        unsafe { SYM_HI_F64 = kani::any(); }
        let x: f64 = kani::any();
        kani::assume(!x.is_nan());
        let b: f64 = sym_hi_f64();
        kani::assume(!b.is_nan());
        let stated = x < b;
        let accepted = !(x >= (sym_hi_f64()));
        assert!(stated == accepted, "the relation the message states holds exactly for the values the validator accepts");

        kani::cover!(true, "reached");
    }
    #[kani::proof]
    fn k_c16_f64_le_gt_embed__Display_LessOrEqualViolated__relation() {
        unsafe { SYM_LO_F64 = kani::any(); }
        unsafe { SYM_HI_F64 = kani::any(); }
        let x: f64 = kani::any();
        kani::assume(!x.is_nan());
        let b: f64 = sym_hi_f64();
        kani::assume(!b.is_nan());
        let stated = x < b;
        let accepted = !(x > (sym_hi_f64()));
        assert!(stated == accepted, "the relation the message states holds exactly for the values the validator accepts");

        kani::cover!(true, "reached");
    }
    #[kani::proof]
    fn k_c16_f64_le_gt_embed__Display_GreaterViolated__relation() {
        unsafe { SYM_LO_F64 = kani::any(); }
        unsafe { SYM_HI_F64 = kani::any(); }
        let x: f64 = kani::any();
        kani::assume(!x.is_nan());
        let b: f64 = sym_lo_f64();
        kani::assume(!b.is_nan());
        let stated = x > b;
        let accepted = !(x <= (sym_lo_f64()));
        assert!(stated == accepted, "the relation the message states holds exactly for the values the validator accepts");

        kani::cover!(true, "reached");
    }
}
