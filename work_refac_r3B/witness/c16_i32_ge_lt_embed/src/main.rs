#![allow(dead_code, unused_imports, unused_variables, unused_mut, static_mut_refs, non_snake_case, overflowing_literals, clippy::all)]
use nutype::nutype;
use std::convert::TryFrom;
use std::str::FromStr;
use std::borrow::Borrow;
pub static mut SYM_LO_I32: i32 = 3;
pub fn sym_lo_i32() -> i32 { unsafe { SYM_LO_I32 } }
pub static mut SYM_HI_I32: i32 = 100;
pub fn sym_hi_i32() -> i32 { unsafe { SYM_HI_I32 } }

pub mod d_c16_i32_ge_lt_embed {
    use super::*;
    #[nutype(validate(greater_or_equal = sym_lo_i32(), less = sym_hi_i32()), derive(Debug))]
    pub struct C16I32GeLtEmbed(i32);
}
use d_c16_i32_ge_lt_embed::*;
pub mod ref_c16_i32_ge_lt_embed {
    #![allow(unused_imports, unused_variables, clippy::all)]
    use super::*;
    use super::d_c16_i32_ge_lt_embed::*;
    pub type Inner = i32;
    pub type Error = String;
    pub fn sanitize(x: Inner) -> Inner { x }
    pub fn validate(x: &Inner) -> Result<(), Error> { let v = *x; if !(v >= (sym_lo_i32())) { return Err("GreaterOrEqualViolated".to_string()); } if !(v < (sym_hi_i32())) { return Err("LessViolated".to_string()); } Ok(()) }
    pub fn try_new(raw: Inner) -> Result<Inner, Error> { let s = sanitize(raw); validate(&s)?; Ok(s) }
    pub fn valid(x: &Inner) -> bool { validate(x).is_ok() }
    pub fn show(r: &Result<Inner, Error>) -> String { match r { Ok(v) => format!("Ok({:?})", v), Err(e) => format!("Err({})", e) } }
}
fn esc(s: &str) -> String { let mut o = String::new(); for c in s.chars() { match c { '"' => o.push_str("\\\""), '\\' => o.push_str("\\\\"), c if (c as u32) < 0x20 => o.push_str(&format!("\\u{:04x}", c as u32)), c => o.push(c) } } o }
static mut PER_ENTRY: Option<std::collections::HashMap<String, usize>> = None;
fn report(entry: &str, input: &str, setting: &str, real: String, expected: String, n: &mut usize) {
    if real != expected { *n += 1; let c = unsafe { let m = PER_ENTRY.get_or_insert_with(Default::default); let e = m.entry(entry.to_string()).or_insert(0); *e += 1; *e }; if c <= 3 { println!("{{\"entry\":\"{}\",\"input\":\"{}\",\"bounds\":\"{}\",\"real\":\"{}\",\"expected\":\"{}\"}}", esc(entry), esc(input), esc(setting), esc(&real), esc(&expected)); } }
}
fn check_one(x: i32, label: &str, setting: &str, n: &mut usize) {
    let expected = ref_c16_i32_ge_lt_embed::show(&ref_c16_i32_ge_lt_embed::try_new(x.clone()));
    report("try_new", label, setting, format!("{:?}", C16I32GeLtEmbed::try_new(x.clone()).map(|v| v.into_inner())), expected.clone(), n);
    match C16I32GeLtEmbed::try_new(x.clone()) { Ok(_) => println!("{{\"probe\":\"{}\",\"setting\":\"{}\",\"verdict\":\"Ok\",\"message\":\"\"}}", esc(label), esc(setting)), Err(e) => println!("{{\"probe\":\"{}\",\"setting\":\"{}\",\"verdict\":\"{:?}\",\"message\":\"{}\"}}", esc(label), esc(setting), e, esc(&e.to_string())) }
    if let Some(v) = C16I32GeLtEmbed::try_new(x.clone()).ok() {
        let inner = format!("{:?}", ref_c16_i32_ge_lt_embed::sanitize(x.clone()));
        { let i2 = C16I32GeLtEmbed::try_new(x.clone()).ok().unwrap().into_inner(); report("canonical", label, setting, format!("{:?}", C16I32GeLtEmbed::try_new(i2.clone()).map(|w| w.into_inner())), format!("Ok({:?})", i2), n); }
        report("into_inner", label, setting, format!("{:?}", v.into_inner()), inner.clone(), n);
    }
}
fn main() {
    let mut n = 0usize;
    let settings: Vec<(i32, i32)> = vec![((3) as i32, (100) as i32), ((0) as i32, (0) as i32), (i32::MIN, i32::MAX), ((100) as i32, (3) as i32), ((1) as i32, (1) as i32), (i32::MAX, i32::MIN), ((10) as i32, (11) as i32)];
    for (lo, hi) in settings {
        unsafe { SYM_LO_I32 = lo; SYM_HI_I32 = hi; }
        let setting = format!("lo={:?} hi={:?}", lo, hi);
        let cands: Vec<(i32, &str)> = vec![(i32::MIN, "i32::MIN"), (i32::MIN.wrapping_add(1), "i32::MIN.wrapping_add(1)"), ((0) as i32, "(0) as i32"), ((1) as i32, "(1) as i32"), ((2) as i32, "(2) as i32"), ((3) as i32, "(3) as i32"), ((4) as i32, "(4) as i32"), ((6) as i32, "(6) as i32"), ((7) as i32, "(7) as i32"), ((8) as i32, "(8) as i32"), ((9) as i32, "(9) as i32"), ((10) as i32, "(10) as i32"), ((11) as i32, "(11) as i32"), ((15) as i32, "(15) as i32"), ((16) as i32, "(16) as i32"), ((17) as i32, "(17) as i32"), ((49) as i32, "(49) as i32"), ((50) as i32, "(50) as i32"), ((51) as i32, "(51) as i32"), ((99) as i32, "(99) as i32"), ((100) as i32, "(100) as i32"), ((101) as i32, "(101) as i32"), (i32::MAX, "i32::MAX"), (i32::MAX - 1, "i32::MAX - 1"), (sym_lo_i32(), "sym_lo_i32()"), (sym_lo_i32().wrapping_add(1), "sym_lo_i32().wrapping_add(1)"), (sym_lo_i32().wrapping_sub(1), "sym_lo_i32().wrapping_sub(1)"), (sym_hi_i32(), "sym_hi_i32()"), (sym_hi_i32().wrapping_add(1), "sym_hi_i32().wrapping_add(1)"), (sym_hi_i32().wrapping_sub(1), "sym_hi_i32().wrapping_sub(1)"), ((-1) as i32, "(-1) as i32"), ((-2) as i32, "(-2) as i32"), ((-5) as i32, "(-5) as i32"), ((-10) as i32, "(-10) as i32"), ((-11) as i32, "(-11) as i32"), ((-9) as i32, "(-9) as i32"), ((-100) as i32, "(-100) as i32"), ((-101) as i32, "(-101) as i32")];
        for (x, label) in cands { check_one(x, &format!("{} = {:?}", label, x), &setting, &mut n); }
    }
    println!("{{\"mismatches\":{}}}", n);
}
