#![allow(dead_code, unused_imports, unused_variables, unused_mut, static_mut_refs, non_snake_case, overflowing_literals, clippy::all)]
use nutype::nutype;
use std::convert::TryFrom;
use std::str::FromStr;
use std::borrow::Borrow;
pub static mut SYM_LO_I64: i64 = 3;
pub fn sym_lo_i64() -> i64 { unsafe { SYM_LO_I64 } }
pub static mut SYM_HI_I64: i64 = 100;
pub fn sym_hi_i64() -> i64 { unsafe { SYM_HI_I64 } }

pub mod d_c16_i64_ge_lt_embed {
    use super::*;
    #[nutype(validate(greater_or_equal = sym_lo_i64(), less = sym_hi_i64()), derive(Debug))]
    pub struct C16I64GeLtEmbed(i64);
}
use d_c16_i64_ge_lt_embed::*;
pub mod ref_c16_i64_ge_lt_embed {
    #![allow(unused_imports, unused_variables, clippy::all)]
    use super::*;
    use super::d_c16_i64_ge_lt_embed::*;
    pub type Inner = i64;
    pub type Error = String;
    pub fn sanitize(x: Inner) -> Inner { x }
    pub fn validate(x: &Inner) -> Result<(), Error> { let v = *x; if !(v >= (sym_lo_i64())) { return Err("GreaterOrEqualViolated".to_string()); } if !(v < (sym_hi_i64())) { return Err("LessViolated".to_string()); } Ok(()) }
    pub fn try_new(raw: Inner) -> Result<Inner, Error> { let s = sanitize(raw); validate(&s)?; Ok(s) }
    pub fn valid(x: &Inner) -> bool { validate(x).is_ok() }
    pub fn show(r: &Result<Inner, Error>) -> String { match r { Ok(v) => format!("Ok({:?})", v), Err(e) => format!("Err({})", e) } }
}
fn esc(s: &str) -> String { let mut o = String::new(); for c in s.chars() { match c { '"' => o.push_str("\\\""), '\\' => o.push_str("\\\\"), c if (c as u32) < 0x20 => o.push_str(&format!("\\u{:04x}", c as u32)), c => o.push(c) } } o }
static mut PER_ENTRY: Option<std::collections::HashMap<String, usize>> = None;
fn report(entry: &str, input: &str, setting: &str, real: String, expected: String, n: &mut usize) {
    if real != expected { *n += 1; let c = unsafe { let m = PER_ENTRY.get_or_insert_with(Default::default); let e = m.entry(entry.to_string()).or_insert(0); *e += 1; *e }; if c <= 3 { println!("{{\"entry\":\"{}\",\"input\":\"{}\",\"bounds\":\"{}\",\"real\":\"{}\",\"expected\":\"{}\"}}", esc(entry), esc(input), esc(setting), esc(&real), esc(&expected)); } }
}
fn check_one(x: i64, label: &str, setting: &str, n: &mut usize) {
    let expected = ref_c16_i64_ge_lt_embed::show(&ref_c16_i64_ge_lt_embed::try_new(x.clone()));
    report("try_new", label, setting, format!("{:?}", C16I64GeLtEmbed::try_new(x.clone()).map(|v| v.into_inner())), expected.clone(), n);
    match C16I64GeLtEmbed::try_new(x.clone()) { Ok(_) => println!("{{\"probe\":\"{}\",\"setting\":\"{}\",\"verdict\":\"Ok\",\"message\":\"\"}}", esc(label), esc(setting)), Err(e) => println!("{{\"probe\":\"{}\",\"setting\":\"{}\",\"verdict\":\"{:?}\",\"message\":\"{}\"}}", esc(label), esc(setting), e, esc(&e.to_string())) }
    if let Some(v) = C16I64GeLtEmbed::try_new(x.clone()).ok() {
        let inner = format!("{:?}", ref_c16_i64_ge_lt_embed::sanitize(x.clone()));
        { let i2 = C16I64GeLtEmbed::try_new(x.clone()).ok().unwrap().into_inner(); report("canonical", label, setting, format!("{:?}", C16I64GeLtEmbed::try_new(i2.clone()).map(|w| w.into_inner())), format!("Ok({:?})", i2), n); }
        report("into_inner", label, setting, format!("{:?}", v.into_inner()), inner.clone(), n);
    }
}
fn main() {
    let mut n = 0usize;
    let settings: Vec<(i64, i64)> = vec![((3) as i64, (100) as i64), ((0) as i64, (0) as i64), (i64::MIN, i64::MAX), ((100) as i64, (3) as i64), ((1) as i64, (1) as i64), (i64::MAX, i64::MIN), ((10) as i64, (11) as i64)];
    for (lo, hi) in settings {
        unsafe { SYM_LO_I64 = lo; SYM_HI_I64 = hi; }
        let setting = format!("lo={:?} hi={:?}", lo, hi);
        let cands: Vec<(i64, &str)> = vec![(i64::MIN, "i64::MIN"), (i64::MIN.wrapping_add(1), "i64::MIN.wrapping_add(1)"), ((0) as i64, "(0) as i64"), ((1) as i64, "(1) as i64"), ((2) as i64, "(2) as i64"), ((3) as i64, "(3) as i64"), ((4) as i64, "(4) as i64"), ((6) as i64, "(6) as i64"), ((7) as i64, "(7) as i64"), ((8) as i64, "(8) as i64"), ((9) as i64, "(9) as i64"), ((10) as i64, "(10) as i64"), ((11) as i64, "(11) as i64"), ((15) as i64, "(15) as i64"), ((16) as i64, "(16) as i64"), ((17) as i64, "(17) as i64"), ((49) as i64, "(49) as i64"), ((50) as i64, "(50) as i64"), ((51) as i64, "(51) as i64"), ((99) as i64, "(99) as i64"), ((100) as i64, "(100) as i64"), ((101) as i64, "(101) as i64"), (i64::MAX, "i64::MAX"), (i64::MAX - 1, "i64::MAX - 1"), (sym_lo_i64(), "sym_lo_i64()"), (sym_lo_i64().wrapping_add(1), "sym_lo_i64().wrapping_add(1)"), (sym_lo_i64().wrapping_sub(1), "sym_lo_i64().wrapping_sub(1)"), (sym_hi_i64(), "sym_hi_i64()"), (sym_hi_i64().wrapping_add(1), "sym_hi_i64().wrapping_add(1)"), (sym_hi_i64().wrapping_sub(1), "sym_hi_i64().wrapping_sub(1)"), ((-1) as i64, "(-1) as i64"), ((-2) as i64, "(-2) as i64"), ((-5) as i64, "(-5) as i64"), ((-10) as i64, "(-10) as i64"), ((-11) as i64, "(-11) as i64"), ((-9) as i64, "(-9) as i64"), ((-100) as i64, "(-100) as i64"), ((-101) as i64, "(-101) as i64")];
        for (x, label) in cands { check_one(x, &format!("{} = {:?}", label, x), &setting, &mut n); }
    }
    println!("{{\"mismatches\":{}}}", n);
}
