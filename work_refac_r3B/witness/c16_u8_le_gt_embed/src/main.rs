#![allow(dead_code, unused_imports, unused_variables, unused_mut, static_mut_refs, non_snake_case, overflowing_literals, clippy::all)]
use nutype::nutype;
use std::convert::TryFrom;
use std::str::FromStr;
use std::borrow::Borrow;
pub static mut SYM_LO_U8: u8 = 3;
pub fn sym_lo_u8() -> u8 { unsafe { SYM_LO_U8 } }
pub static mut SYM_HI_U8: u8 = 100;
pub fn sym_hi_u8() -> u8 { unsafe { SYM_HI_U8 } }

pub mod d_c16_u8_le_gt_embed {
    use super::*;
    #[nutype(validate(less_or_equal = sym_hi_u8(), greater = sym_lo_u8()), derive(Debug))]
    pub struct C16U8LeGtEmbed(u8);
}
use d_c16_u8_le_gt_embed::*;
pub mod ref_c16_u8_le_gt_embed {
    #![allow(unused_imports, unused_variables, clippy::all)]
    use super::*;
    use super::d_c16_u8_le_gt_embed::*;
    pub type Inner = u8;
    pub type Error = String;
    pub fn sanitize(x: Inner) -> Inner { x }
    pub fn validate(x: &Inner) -> Result<(), Error> { let v = *x; if !(v <= (sym_hi_u8())) { return Err("LessOrEqualViolated".to_string()); } if !(v > (sym_lo_u8())) { return Err("GreaterViolated".to_string()); } Ok(()) }
    pub fn try_new(raw: Inner) -> Result<Inner, Error> { let s = sanitize(raw); validate(&s)?; Ok(s) }
    pub fn valid(x: &Inner) -> bool { validate(x).is_ok() }
    pub fn show(r: &Result<Inner, Error>) -> String { match r { Ok(v) => format!("Ok({:?})", v), Err(e) => format!("Err({})", e) } }
}
fn esc(s: &str) -> String { let mut o = String::new(); for c in s.chars() { match c { '"' => o.push_str("\\\""), '\\' => o.push_str("\\\\"), c if (c as u32) < 0x20 => o.push_str(&format!("\\u{:04x}", c as u32)), c => o.push(c) } } o }
static mut PER_ENTRY: Option<std::collections::HashMap<String, usize>> = None;
fn report(entry: &str, input: &str, setting: &str, real: String, expected: String, n: &mut usize) {
    if real != expected { *n += 1; let c = unsafe { let m = PER_ENTRY.get_or_insert_with(Default::default); let e = m.entry(entry.to_string()).or_insert(0); *e += 1; *e }; if c <= 3 { println!("{{\"entry\":\"{}\",\"input\":\"{}\",\"bounds\":\"{}\",\"real\":\"{}\",\"expected\":\"{}\"}}", esc(entry), esc(input), esc(setting), esc(&real), esc(&expected)); } }
}
fn check_one(x: u8, label: &str, setting: &str, n: &mut usize) {
    let expected = ref_c16_u8_le_gt_embed::show(&ref_c16_u8_le_gt_embed::try_new(x.clone()));
    report("try_new", label, setting, format!("{:?}", C16U8LeGtEmbed::try_new(x.clone()).map(|v| v.into_inner())), expected.clone(), n);
    match C16U8LeGtEmbed::try_new(x.clone()) { Ok(_) => println!("{{\"probe\":\"{}\",\"setting\":\"{}\",\"verdict\":\"Ok\",\"message\":\"\"}}", esc(label), esc(setting)), Err(e) => println!("{{\"probe\":\"{}\",\"setting\":\"{}\",\"verdict\":\"{:?}\",\"message\":\"{}\"}}", esc(label), esc(setting), e, esc(&e.to_string())) }
    if let Some(v) = C16U8LeGtEmbed::try_new(x.clone()).ok() {
        let inner = format!("{:?}", ref_c16_u8_le_gt_embed::sanitize(x.clone()));
        { let i2 = C16U8LeGtEmbed::try_new(x.clone()).ok().unwrap().into_inner(); report("canonical", label, setting, format!("{:?}", C16U8LeGtEmbed::try_new(i2.clone()).map(|w| w.into_inner())), format!("Ok({:?})", i2), n); }
        report("into_inner", label, setting, format!("{:?}", v.into_inner()), inner.clone(), n);
    }
}
fn main() {
    let mut n = 0usize;
    let settings: Vec<(u8, u8)> = vec![((3) as u8, (100) as u8), ((0) as u8, (0) as u8), (u8::MIN, u8::MAX), ((100) as u8, (3) as u8), ((1) as u8, (1) as u8), (u8::MAX, u8::MIN), ((10) as u8, (11) as u8)];
    for (lo, hi) in settings {
        unsafe { SYM_LO_U8 = lo; SYM_HI_U8 = hi; }
        let setting = format!("lo={:?} hi={:?}", lo, hi);
        let cands: Vec<(u8, &str)> = vec![(u8::MIN, "u8::MIN"), (u8::MIN.wrapping_add(1), "u8::MIN.wrapping_add(1)"), ((0) as u8, "(0) as u8"), ((1) as u8, "(1) as u8"), ((2) as u8, "(2) as u8"), ((3) as u8, "(3) as u8"), ((4) as u8, "(4) as u8"), ((6) as u8, "(6) as u8"), ((7) as u8, "(7) as u8"), ((8) as u8, "(8) as u8"), ((9) as u8, "(9) as u8"), ((10) as u8, "(10) as u8"), ((11) as u8, "(11) as u8"), ((15) as u8, "(15) as u8"), ((16) as u8, "(16) as u8"), ((17) as u8, "(17) as u8"), ((49) as u8, "(49) as u8"), ((50) as u8, "(50) as u8"), ((51) as u8, "(51) as u8"), ((99) as u8, "(99) as u8"), ((100) as u8, "(100) as u8"), ((101) as u8, "(101) as u8"), (u8::MAX, "u8::MAX"), (u8::MAX - 1, "u8::MAX - 1"), (sym_lo_u8(), "sym_lo_u8()"), (sym_lo_u8().wrapping_add(1), "sym_lo_u8().wrapping_add(1)"), (sym_lo_u8().wrapping_sub(1), "sym_lo_u8().wrapping_sub(1)"), (sym_hi_u8(), "sym_hi_u8()"), (sym_hi_u8().wrapping_add(1), "sym_hi_u8().wrapping_add(1)"), (sym_hi_u8().wrapping_sub(1), "sym_hi_u8().wrapping_sub(1)")];
        for (x, label) in cands { check_one(x, &format!("{} = {:?}", label, x), &setting, &mut n); }
    }
    println!("{{\"mismatches\":{}}}", n);
}
