// NUTYPE_VERIF_INPUT #[nutype(validate(finite, greater_or_equal = sym_lo_f32(), less = sym_hi_f32()), derive(Debug, FromStr))] pub struct FsF32Val(f32);
#[doc(hidden)]
#[allow(
    non_snake_case,
    reason = "we keep original structure name which is probably CamelCase"
)]
mod __nutype_FsF32Val__ {
    use super::*;
    #[derive(Debug)]
    pub struct FsF32Val(f32);
    #[derive(Debug, Clone, PartialEq, Eq)]
    #[allow(clippy::enum_variant_names)]
    pub enum FsF32ValError {
        FiniteViolated,
        GreaterOrEqualViolated,
        LessViolated,
    }
    impl ::core::fmt::Display for FsF32ValError {
        fn fmt(&self, f: &mut ::core::fmt::Formatter<'_>) -> ::core::fmt::Result {
            match self {
                FsF32ValError::FiniteViolated => {
                    write!(f, "{} is not finite.", stringify!(FsF32Val))
                }
                FsF32ValError::GreaterOrEqualViolated => write!(
                    f,
                    "{} is too small. The value must be greater or equal to {:#?}.",
                    stringify!(FsF32Val),
                    sym_lo_f32()
                ),
                FsF32ValError::LessViolated => write!(
                    f,
                    "{} is too big. The value must be less than {:#?}.",
                    stringify!(FsF32Val),
                    sym_hi_f32()
                ),
            }
        }
    }
    impl ::core::error::Error for FsF32ValError {
        fn source(&self) -> Option<&(dyn ::core::error::Error + 'static)> {
            None
        }
    }
    impl FsF32Val {
        pub fn try_new(raw_value: f32) -> ::core::result::Result<Self, FsF32ValError> {
            let sanitized_value: f32 = Self::__sanitize__(raw_value);
            #[allow(clippy::question_mark)]
            if let Err(e) = Self::__validate__(&sanitized_value) {
                return Err(e);
            }
            Ok(FsF32Val(sanitized_value))
        }
        fn __sanitize__(mut value: f32) -> f32 {
            value
        }
        fn __validate__(val: &f32) -> core::result::Result<(), FsF32ValError> {
            let val = *val;
            if !val.is_finite() {
                return Err(FsF32ValError::FiniteViolated);
            }
            if val < sym_lo_f32() {
                return Err(FsF32ValError::GreaterOrEqualViolated);
            }
            if val >= sym_hi_f32() {
                return Err(FsF32ValError::LessViolated);
            }
            Ok(())
        }
    }
    impl FsF32Val {
        #[inline]
        pub fn into_inner(self) -> f32 {
            self.0
        }
    }
    #[derive(Debug)]
    pub enum FsF32ValParseError {
        Parse(<f32 as ::core::str::FromStr>::Err),
        Validate(FsF32ValError),
    }
    impl ::core::fmt::Display for FsF32ValParseError {
        fn fmt(&self, formatter: &mut ::core::fmt::Formatter<'_>) -> ::core::fmt::Result {
            match *self {
                Self::Validate(ref validation_error) => formatter.write_fmt(::core::format_args!(
                    "Failed to parse {}: {}",
                    "FsF32Val",
                    validation_error
                )),
                Self::Parse(ref parse_error) => formatter.write_fmt(::core::format_args!(
                    "Failed to parse {}: {:?}",
                    "FsF32Val",
                    parse_error
                )),
            }
        }
    }
    impl ::core::error::Error for FsF32ValParseError {
        fn source(&self) -> Option<&(dyn ::core::error::Error + 'static)> {
            None
        }
    }
    impl ::core::str::FromStr for FsF32Val {
        type Err = FsF32ValParseError;
        fn from_str(input: &str) -> ::core::result::Result<Self, FsF32ValParseError> {
            match <f32 as ::core::str::FromStr>::from_str(input) {
                ::core::result::Result::Err(parse_error) => {
                    ::core::result::Result::Err(FsF32ValParseError::Parse(parse_error))
                }
                ::core::result::Result::Ok(parsed_value) => match <Self>::try_new(parsed_value) {
                    ::core::result::Result::Ok(valid) => ::core::result::Result::Ok(valid),
                    ::core::result::Result::Err(validation_error) => {
                        ::core::result::Result::Err(FsF32ValParseError::Validate(validation_error))
                    }
                },
            }
        }
    }
    #[cfg(test)]
    mod tests {
        use super::*;
        #[test]
        fn should_have_consistent_lower_and_upper_boundaries() {
            assert!
            (sym_hi_f32() >= sym_lo_f32(),
            "\nInconsistent lower and upper boundaries for type `FsF32Val`\nThe upper boundary `sym_hi_f32()` must be greater than or equal to the lower boundary `sym_lo_f32()`\nNote: the test is generated automatically by #[nutype] macro.\n");
        }
    }
}
pub use __nutype_FsF32Val__::FsF32Val;
pub use __nutype_FsF32Val__::FsF32ValError;
pub use __nutype_FsF32Val__::FsF32ValParseError;
