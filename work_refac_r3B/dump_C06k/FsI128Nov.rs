// NUTYPE_VERIF_INPUT #[nutype(derive(Debug, FromStr))] pub struct FsI128Nov(i128);
#[doc(hidden)]
#[allow(
    non_snake_case,
    reason = "we keep original structure name which is probably CamelCase"
)]
mod __nutype_FsI128Nov__ {
    use super::*;
    #[derive(Debug)]
    pub struct FsI128Nov(i128);
    impl FsI128Nov {
        pub fn new(raw_value: i128) -> Self {
            Self(Self::__sanitize__(raw_value))
        }
        fn __sanitize__(mut value: i128) -> i128 {
            value
        }
    }
    impl FsI128Nov {
        #[inline]
        pub fn into_inner(self) -> i128 {
            self.0
        }
    }
    #[derive(Debug)]
    pub enum FsI128NovParseError {
        Parse(<i128 as ::core::str::FromStr>::Err),
    }
    impl ::core::fmt::Display for FsI128NovParseError {
        fn fmt(&self, formatter: &mut ::core::fmt::Formatter<'_>) -> ::core::fmt::Result {
            let Self::Parse(parse_error) = self;
            formatter.write_fmt(::core::format_args!(
                "Failed to parse {}: {:?}",
                "FsI128Nov",
                parse_error
            ))
        }
    }
    impl ::core::error::Error for FsI128NovParseError {
        fn source(&self) -> Option<&(dyn ::core::error::Error + 'static)> {
            None
        }
    }
    impl ::core::str::FromStr for FsI128Nov {
        type Err = FsI128NovParseError;
        fn from_str(input: &str) -> ::core::result::Result<Self, FsI128NovParseError> {
            match <i128 as ::core::str::FromStr>::from_str(input) {
                ::core::result::Result::Ok(parsed_value) => {
                    ::core::result::Result::Ok(<Self>::new(parsed_value))
                }
                ::core::result::Result::Err(parse_error) => {
                    ::core::result::Result::Err(FsI128NovParseError::Parse(parse_error))
                }
            }
        }
    }
    #[cfg(test)]
    mod tests {
        use super::*;
    }
}
pub use __nutype_FsI128Nov__::FsI128Nov;
pub use __nutype_FsI128Nov__::FsI128NovParseError;
