// NUTYPE_VERIF_INPUT #[nutype(sanitize(with = san_point), derive(Debug, FromStr))] pub struct FsPointSanNov(Point);
#[doc(hidden)]
#[allow(
    non_snake_case,
    reason = "we keep original structure name which is probably CamelCase"
)]
mod __nutype_FsPointSanNov__ {
    use super::*;
    #[derive(Debug)]
    pub struct FsPointSanNov(Point);
    impl FsPointSanNov {
        pub fn new(raw_value: Point) -> Self {
            Self(Self::__sanitize__(raw_value))
        }
        fn __sanitize__(mut value: Point) -> Point {
            value = (san_point)(value);
            value
        }
    }
    impl FsPointSanNov {
        #[inline]
        pub fn into_inner(self) -> Point {
            self.0
        }
    }
    #[derive(Debug)]
    pub enum FsPointSanNovParseError {
        Parse(<Point as ::core::str::FromStr>::Err),
    }
    impl ::core::fmt::Display for FsPointSanNovParseError {
        fn fmt(&self, formatter: &mut ::core::fmt::Formatter<'_>) -> ::core::fmt::Result {
            let Self::Parse(parse_error) = self;
            formatter.write_fmt(::core::format_args!(
                "Failed to parse {}: {:?}",
                "FsPointSanNov",
                parse_error
            ))
        }
    }
    impl ::core::error::Error for FsPointSanNovParseError {
        fn source(&self) -> Option<&(dyn ::core::error::Error + 'static)> {
            None
        }
    }
    impl ::core::str::FromStr for FsPointSanNov {
        type Err = FsPointSanNovParseError;
        fn from_str(input: &str) -> ::core::result::Result<Self, FsPointSanNovParseError> {
            match <Point as ::core::str::FromStr>::from_str(input) {
                ::core::result::Result::Ok(parsed_value) => {
                    ::core::result::Result::Ok(<Self>::new(parsed_value))
                }
                ::core::result::Result::Err(parse_error) => {
                    ::core::result::Result::Err(FsPointSanNovParseError::Parse(parse_error))
                }
            }
        }
    }
    #[cfg(test)]
    mod tests {
        use super::*;
    }
}
pub use __nutype_FsPointSanNov__::FsPointSanNov;
pub use __nutype_FsPointSanNov__::FsPointSanNovParseError;
