// NUTYPE_VERIF_INPUT #[nutype(sanitize(with = san3_i128), derive(Debug, FromStr))] pub struct FsI128San3Nov(i128);
#[doc(hidden)]
#[allow(
    non_snake_case,
    reason = "we keep original structure name which is probably CamelCase"
)]
mod __nutype_FsI128San3Nov__ {
    use super::*;
    #[derive(Debug)]
    pub struct FsI128San3Nov(i128);
    impl FsI128San3Nov {
        pub fn new(raw_value: i128) -> Self {
            Self(Self::__sanitize__(raw_value))
        }
        fn __sanitize__(mut value: i128) -> i128 {
            value = (san3_i128)(value);
            value
        }
    }
    impl FsI128San3Nov {
        #[inline]
        pub fn into_inner(self) -> i128 {
            self.0
        }
    }
    #[derive(Debug)]
    pub enum FsI128San3NovParseError {
        Parse(<i128 as ::core::str::FromStr>::Err),
    }
    impl ::core::fmt::Display for FsI128San3NovParseError {
        fn fmt(&self, formatter: &mut ::core::fmt::Formatter<'_>) -> ::core::fmt::Result {
            let Self::Parse(parse_error) = self;
            formatter.write_fmt(::core::format_args!(
                "Failed to parse {}: {:?}",
                "FsI128San3Nov",
                parse_error
            ))
        }
    }
    impl ::core::error::Error for FsI128San3NovParseError {
        fn source(&self) -> Option<&(dyn ::core::error::Error + 'static)> {
            None
        }
    }
    impl ::core::str::FromStr for FsI128San3Nov {
        type Err = FsI128San3NovParseError;
        fn from_str(input: &str) -> ::core::result::Result<Self, FsI128San3NovParseError> {
            match <i128 as ::core::str::FromStr>::from_str(input) {
                ::core::result::Result::Ok(parsed_value) => {
                    ::core::result::Result::Ok(<Self>::new(parsed_value))
                }
                ::core::result::Result::Err(parse_error) => {
                    ::core::result::Result::Err(FsI128San3NovParseError::Parse(parse_error))
                }
            }
        }
    }
    #[cfg(test)]
    mod tests {
        use super::*;
    }
}
pub use __nutype_FsI128San3Nov__::FsI128San3Nov;
pub use __nutype_FsI128San3Nov__::FsI128San3NovParseError;
