// NUTYPE_VERIF_INPUT #[nutype(sanitize(with = san3_usize), derive(Debug, FromStr))] pub struct FsUsizeSan3Nov(usize);
#[doc(hidden)]
#[allow(
    non_snake_case,
    reason = "we keep original structure name which is probably CamelCase"
)]
mod __nutype_FsUsizeSan3Nov__ {
    use super::*;
    #[derive(Debug)]
    pub struct FsUsizeSan3Nov(usize);
    impl FsUsizeSan3Nov {
        pub fn new(raw_value: usize) -> Self {
            Self(Self::__sanitize__(raw_value))
        }
        fn __sanitize__(mut value: usize) -> usize {
            value = (san3_usize)(value);
            value
        }
    }
    impl FsUsizeSan3Nov {
        #[inline]
        pub fn into_inner(self) -> usize {
            self.0
        }
    }
    #[derive(Debug)]
    pub enum FsUsizeSan3NovParseError {
        Parse(<usize as ::core::str::FromStr>::Err),
    }
    impl ::core::fmt::Display for FsUsizeSan3NovParseError {
        fn fmt(&self, formatter: &mut ::core::fmt::Formatter<'_>) -> ::core::fmt::Result {
            let Self::Parse(parse_error) = self;
            formatter.write_fmt(::core::format_args!(
                "Failed to parse {}: {:?}",
                "FsUsizeSan3Nov",
                parse_error
            ))
        }
    }
    impl ::core::error::Error for FsUsizeSan3NovParseError {
        fn source(&self) -> Option<&(dyn ::core::error::Error + 'static)> {
            None
        }
    }
    impl ::core::str::FromStr for FsUsizeSan3Nov {
        type Err = FsUsizeSan3NovParseError;
        fn from_str(input: &str) -> ::core::result::Result<Self, FsUsizeSan3NovParseError> {
            match <usize as ::core::str::FromStr>::from_str(input) {
                ::core::result::Result::Ok(parsed_value) => {
                    ::core::result::Result::Ok(<Self>::new(parsed_value))
                }
                ::core::result::Result::Err(parse_error) => {
                    ::core::result::Result::Err(FsUsizeSan3NovParseError::Parse(parse_error))
                }
            }
        }
    }
    #[cfg(test)]
    mod tests {
        use super::*;
    }
}
pub use __nutype_FsUsizeSan3Nov__::FsUsizeSan3Nov;
pub use __nutype_FsUsizeSan3Nov__::FsUsizeSan3NovParseError;
