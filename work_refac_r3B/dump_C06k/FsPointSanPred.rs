// NUTYPE_VERIF_INPUT #[nutype(sanitize(with = san_point), validate(predicate = pred_point), derive(Debug, FromStr))] pub struct FsPointSanPred(Point);
#[doc(hidden)]
#[allow(
    non_snake_case,
    reason = "we keep original structure name which is probably CamelCase"
)]
mod __nutype_FsPointSanPred__ {
    use super::*;
    #[derive(Debug)]
    pub struct FsPointSanPred(Point);
    #[derive(Debug, Clone, PartialEq, Eq)]
    #[allow(clippy::enum_variant_names)]
    pub enum FsPointSanPredError {
        PredicateViolated,
    }
    impl ::core::fmt::Display for FsPointSanPredError {
        fn fmt(&self, f: &mut ::core::fmt::Formatter<'_>) -> ::core::fmt::Result {
            match self {
                FsPointSanPredError::PredicateViolated => write!(
                    f,
                    "{} failed the predicate test.",
                    stringify!(FsPointSanPred)
                ),
            }
        }
    }
    impl ::core::error::Error for FsPointSanPredError {
        fn source(&self) -> Option<&(dyn ::core::error::Error + 'static)> {
            None
        }
    }
    impl FsPointSanPred {
        pub fn try_new(raw_value: Point) -> ::core::result::Result<Self, FsPointSanPredError> {
            let sanitized_value: Point = Self::__sanitize__(raw_value);
            #[allow(clippy::question_mark)]
            if let Err(e) = Self::__validate__(&sanitized_value) {
                return Err(e);
            }
            Ok(FsPointSanPred(sanitized_value))
        }
        fn __sanitize__(mut value: Point) -> Point {
            value = (san_point)(value);
            value
        }
        #[allow(clippy::ptr_arg)]
        fn __validate__<'nutype_a>(
            val: &'nutype_a Point,
        ) -> ::core::result::Result<(), FsPointSanPredError> {
            if !(pred_point)(val) {
                return Err(FsPointSanPredError::PredicateViolated);
            }
            Ok(())
        }
    }
    impl FsPointSanPred {
        #[inline]
        pub fn into_inner(self) -> Point {
            self.0
        }
    }
    #[derive(Debug)]
    pub enum FsPointSanPredParseError {
        Parse(<Point as ::core::str::FromStr>::Err),
        Validate(FsPointSanPredError),
    }
    impl ::core::fmt::Display for FsPointSanPredParseError {
        fn fmt(&self, formatter: &mut ::core::fmt::Formatter<'_>) -> ::core::fmt::Result {
            match *self {
                Self::Validate(ref validation_error) => formatter.write_fmt(::core::format_args!(
                    "Failed to parse {}: {}",
                    "FsPointSanPred",
                    validation_error
                )),
                Self::Parse(ref parse_error) => formatter.write_fmt(::core::format_args!(
                    "Failed to parse {}: {:?}",
                    "FsPointSanPred",
                    parse_error
                )),
            }
        }
    }
    impl ::core::error::Error for FsPointSanPredParseError {
        fn source(&self) -> Option<&(dyn ::core::error::Error + 'static)> {
            None
        }
    }
    impl ::core::str::FromStr for FsPointSanPred {
        type Err = FsPointSanPredParseError;
        fn from_str(input: &str) -> ::core::result::Result<Self, FsPointSanPredParseError> {
            match <Point as ::core::str::FromStr>::from_str(input) {
                ::core::result::Result::Err(parse_error) => {
                    ::core::result::Result::Err(FsPointSanPredParseError::Parse(parse_error))
                }
                ::core::result::Result::Ok(parsed_value) => match <Self>::try_new(parsed_value) {
                    ::core::result::Result::Ok(valid) => ::core::result::Result::Ok(valid),
                    ::core::result::Result::Err(validation_error) => ::core::result::Result::Err(
                        FsPointSanPredParseError::Validate(validation_error),
                    ),
                },
            }
        }
    }
    #[cfg(test)]
    mod tests {
        use super::*;
    }
}
pub use __nutype_FsPointSanPred__::FsPointSanPred;
pub use __nutype_FsPointSanPred__::FsPointSanPredError;
pub use __nutype_FsPointSanPred__::FsPointSanPredParseError;
