// NUTYPE_VERIF_INPUT #[nutype(sanitize(with = san_f32), validate(finite, greater_or_equal = sym_lo_f32(), less = sym_hi_f32()), derive(Debug, FromStr))] pub struct FsF32SanVal(f32);
#[doc(hidden)]
#[allow(
    non_snake_case,
    reason = "we keep original structure name which is probably CamelCase"
)]
mod __nutype_FsF32SanVal__ {
    use super::*;
    #[derive(Debug)]
    pub struct FsF32SanVal(f32);
    #[derive(Debug, Clone, PartialEq, Eq)]
    #[allow(clippy::enum_variant_names)]
    pub enum FsF32SanValError {
        FiniteViolated,
        GreaterOrEqualViolated,
        LessViolated,
    }
    impl ::core::fmt::Display for FsF32SanValError {
        fn fmt(&self, f: &mut ::core::fmt::Formatter<'_>) -> ::core::fmt::Result {
            match self {
                FsF32SanValError::FiniteViolated => {
                    write!(f, "{} is not finite.", stringify!(FsF32SanVal))
                }
                FsF32SanValError::GreaterOrEqualViolated => write!(
                    f,
                    "{} is too small. The value must be greater or equal to {:#?}.",
                    stringify!(FsF32SanVal),
                    sym_lo_f32()
                ),
                FsF32SanValError::LessViolated => write!(
                    f,
                    "{} is too big. The value must be less than {:#?}.",
                    stringify!(FsF32SanVal),
                    sym_hi_f32()
                ),
            }
        }
    }
    impl ::core::error::Error for FsF32SanValError {
        fn source(&self) -> Option<&(dyn ::core::error::Error + 'static)> {
            None
        }
    }
    impl FsF32SanVal {
        pub fn try_new(raw_value: f32) -> ::core::result::Result<Self, FsF32SanValError> {
            let sanitized_value: f32 = Self::__sanitize__(raw_value);
            #[allow(clippy::question_mark)]
            if let Err(e) = Self::__validate__(&sanitized_value) {
                return Err(e);
            }
            Ok(FsF32SanVal(sanitized_value))
        }
        fn __sanitize__(mut value: f32) -> f32 {
            value = (san_f32)(value);
            value
        }
        fn __validate__(val: &f32) -> core::result::Result<(), FsF32SanValError> {
            let val = *val;
            if !val.is_finite() {
                return Err(FsF32SanValError::FiniteViolated);
            }
            if val < sym_lo_f32() {
                return Err(FsF32SanValError::GreaterOrEqualViolated);
            }
            if val >= sym_hi_f32() {
                return Err(FsF32SanValError::LessViolated);
            }
            Ok(())
        }
    }
    impl FsF32SanVal {
        #[inline]
        pub fn into_inner(self) -> f32 {
            self.0
        }
    }
    #[derive(Debug)]
    pub enum FsF32SanValParseError {
        Parse(<f32 as ::core::str::FromStr>::Err),
        Validate(FsF32SanValError),
    }
    impl ::core::fmt::Display for FsF32SanValParseError {
        fn fmt(&self, formatter: &mut ::core::fmt::Formatter<'_>) -> ::core::fmt::Result {
            match *self {
                Self::Validate(ref validation_error) => formatter.write_fmt(::core::format_args!(
                    "Failed to parse {}: {}",
                    "FsF32SanVal",
                    validation_error
                )),
                Self::Parse(ref parse_error) => formatter.write_fmt(::core::format_args!(
                    "Failed to parse {}: {:?}",
                    "FsF32SanVal",
                    parse_error
                )),
            }
        }
    }
    impl ::core::error::Error for FsF32SanValParseError {
        fn source(&self) -> Option<&(dyn ::core::error::Error + 'static)> {
            None
        }
    }
    impl ::core::str::FromStr for FsF32SanVal {
        type Err = FsF32SanValParseError;
        fn from_str(input: &str) -> ::core::result::Result<Self, FsF32SanValParseError> {
            match <f32 as ::core::str::FromStr>::from_str(input) {
                ::core::result::Result::Err(parse_error) => {
                    ::core::result::Result::Err(FsF32SanValParseError::Parse(parse_error))
                }
                ::core::result::Result::Ok(parsed_value) => match <Self>::try_new(parsed_value) {
                    ::core::result::Result::Ok(valid) => ::core::result::Result::Ok(valid),
                    ::core::result::Result::Err(validation_error) => ::core::result::Result::Err(
                        FsF32SanValParseError::Validate(validation_error),
                    ),
                },
            }
        }
    }
    #[cfg(test)]
    mod tests {
        use super::*;
        #[test]
        fn should_have_consistent_lower_and_upper_boundaries() {
            assert!
            (sym_hi_f32() >= sym_lo_f32(),
            "\nInconsistent lower and upper boundaries for type `FsF32SanVal`\nThe upper boundary `sym_hi_f32()` must be greater than or equal to the lower boundary `sym_lo_f32()`\nNote: the test is generated automatically by #[nutype] macro.\n");
        }
    }
}
pub use __nutype_FsF32SanVal__::FsF32SanVal;
pub use __nutype_FsF32SanVal__::FsF32SanValError;
pub use __nutype_FsF32SanVal__::FsF32SanValParseError;
