// NUTYPE_VERIF_INPUT #[nutype(validate(with = vfn_usize, error = MyErr), derive(Debug, FromStr))] pub struct FsUsizeCustom(usize);
#[doc(hidden)]
#[allow(
    non_snake_case,
    reason = "we keep original structure name which is probably CamelCase"
)]
mod __nutype_FsUsizeCustom__ {
    use super::*;
    #[derive(Debug)]
    pub struct FsUsizeCustom(usize);
    impl FsUsizeCustom {
        pub fn try_new(raw_value: usize) -> ::core::result::Result<Self, MyErr> {
            let sanitized_value: usize = Self::__sanitize__(raw_value);
            #[allow(clippy::question_mark)]
            if let Err(e) = Self::__validate__(&sanitized_value) {
                return Err(e);
            }
            Ok(FsUsizeCustom(sanitized_value))
        }
        fn __sanitize__(mut value: usize) -> usize {
            value
        }
        #[allow(clippy::ptr_arg)]
        fn __validate__(value: &usize) -> ::core::result::Result<(), MyErr> {
            vfn_usize(value)
        }
    }
    impl FsUsizeCustom {
        #[inline]
        pub fn into_inner(self) -> usize {
            self.0
        }
    }
    #[derive(Debug)]
    pub enum FsUsizeCustomParseError {
        Parse(<usize as ::core::str::FromStr>::Err),
        Validate(MyErr),
    }
    impl ::core::fmt::Display for FsUsizeCustomParseError {
        fn fmt(&self, formatter: &mut ::core::fmt::Formatter<'_>) -> ::core::fmt::Result {
            match *self {
                Self::Validate(ref validation_error) => formatter.write_fmt(::core::format_args!(
                    "Failed to parse {}: {}",
                    "FsUsizeCustom",
                    validation_error
                )),
                Self::Parse(ref parse_error) => formatter.write_fmt(::core::format_args!(
                    "Failed to parse {}: {:?}",
                    "FsUsizeCustom",
                    parse_error
                )),
            }
        }
    }
    impl ::core::error::Error for FsUsizeCustomParseError {
        fn source(&self) -> Option<&(dyn ::core::error::Error + 'static)> {
            None
        }
    }
    impl ::core::str::FromStr for FsUsizeCustom {
        type Err = FsUsizeCustomParseError;
        fn from_str(input: &str) -> ::core::result::Result<Self, FsUsizeCustomParseError> {
            match <usize as ::core::str::FromStr>::from_str(input) {
                ::core::result::Result::Err(parse_error) => {
                    ::core::result::Result::Err(FsUsizeCustomParseError::Parse(parse_error))
                }
                ::core::result::Result::Ok(parsed_value) => match <Self>::try_new(parsed_value) {
                    ::core::result::Result::Ok(valid) => ::core::result::Result::Ok(valid),
                    ::core::result::Result::Err(validation_error) => ::core::result::Result::Err(
                        FsUsizeCustomParseError::Validate(validation_error),
                    ),
                },
            }
        }
    }
    #[cfg(test)]
    mod tests {
        use super::*;
    }
}
pub use __nutype_FsUsizeCustom__::FsUsizeCustom;
pub use __nutype_FsUsizeCustom__::FsUsizeCustomParseError;
