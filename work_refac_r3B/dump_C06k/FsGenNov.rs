// NUTYPE_VERIF_INPUT #[nutype(derive(Debug, FromStr))] pub struct FsGenNov<T: Sat>(T);
#[doc(hidden)]
#[allow(
    non_snake_case,
    reason = "we keep original structure name which is probably CamelCase"
)]
mod __nutype_FsGenNov__ {
    use super::*;
    #[derive(Debug)]
    pub struct FsGenNov<T: Sat>(T);
    impl<T: Sat> FsGenNov<T> {
        pub fn new(raw_value: T) -> Self {
            Self(Self::__sanitize__(raw_value))
        }
        fn __sanitize__(mut value: T) -> T {
            value
        }
    }
    impl<T: Sat> FsGenNov<T> {
        #[inline]
        pub fn into_inner(self) -> T {
            self.0
        }
    }
    #[derive(Debug)]
    pub enum FsGenNovParseError<T: ::core::str::FromStr<Err: ::core::fmt::Debug>> {
        Parse(<T as ::core::str::FromStr>::Err),
    }
    impl<T: ::core::str::FromStr<Err: ::core::fmt::Debug>> ::core::fmt::Display
        for FsGenNovParseError<T>
    {
        fn fmt(&self, formatter: &mut ::core::fmt::Formatter<'_>) -> ::core::fmt::Result {
            let Self::Parse(parse_error) = self;
            formatter.write_fmt(::core::format_args!(
                "Failed to parse {}: {:?}",
                "FsGenNov",
                parse_error
            ))
        }
    }
    impl<T: ::core::str::FromStr<Err: ::core::fmt::Debug> + ::core::fmt::Debug> ::core::error::Error
        for FsGenNovParseError<T>
    {
        fn source(&self) -> Option<&(dyn ::core::error::Error + 'static)> {
            None
        }
    }
    impl<T: Sat + ::core::str::FromStr<Err: ::core::fmt::Debug>> ::core::str::FromStr for FsGenNov<T> {
        type Err = FsGenNovParseError<T>;
        fn from_str(input: &str) -> ::core::result::Result<Self, FsGenNovParseError<T>> {
            match <T as ::core::str::FromStr>::from_str(input) {
                ::core::result::Result::Ok(parsed_value) => {
                    ::core::result::Result::Ok(<Self>::new(parsed_value))
                }
                ::core::result::Result::Err(parse_error) => {
                    ::core::result::Result::Err(FsGenNovParseError::Parse(parse_error))
                }
            }
        }
    }
    #[cfg(test)]
    mod tests {
        use super::*;
    }
}
pub use __nutype_FsGenNov__::FsGenNov;
pub use __nutype_FsGenNov__::FsGenNovParseError;
