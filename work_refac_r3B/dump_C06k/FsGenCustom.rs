// NUTYPE_VERIF_INPUT #[nutype(validate(with = vfn_gen, error = MyErr), derive(Debug, FromStr))] pub struct FsGenCustom<T: Sat>(T);
#[doc(hidden)]
#[allow(
    non_snake_case,
    reason = "we keep original structure name which is probably CamelCase"
)]
mod __nutype_FsGenCustom__ {
    use super::*;
    #[derive(Debug)]
    pub struct FsGenCustom<T: Sat>(T);
    impl<T: Sat> FsGenCustom<T> {
        pub fn try_new(raw_value: T) -> ::core::result::Result<Self, MyErr> {
            let sanitized_value: T = Self::__sanitize__(raw_value);
            #[allow(clippy::question_mark)]
            if let Err(e) = Self::__validate__(&sanitized_value) {
                return Err(e);
            }
            Ok(FsGenCustom(sanitized_value))
        }
        fn __sanitize__(mut value: T) -> T {
            value
        }
        #[allow(clippy::ptr_arg)]
        fn __validate__(value: &T) -> ::core::result::Result<(), MyErr> {
            vfn_gen(value)
        }
    }
    impl<T: Sat> FsGenCustom<T> {
        #[inline]
        pub fn into_inner(self) -> T {
            self.0
        }
    }
    #[derive(Debug)]
    pub enum FsGenCustomParseError<T: ::core::str::FromStr<Err: ::core::fmt::Debug>> {
        Parse(<T as ::core::str::FromStr>::Err),
        Validate(MyErr),
    }
    impl<T: ::core::str::FromStr<Err: ::core::fmt::Debug>> ::core::fmt::Display
        for FsGenCustomParseError<T>
    {
        fn fmt(&self, formatter: &mut ::core::fmt::Formatter<'_>) -> ::core::fmt::Result {
            match *self {
                Self::Validate(ref validation_error) => formatter.write_fmt(::core::format_args!(
                    "Failed to parse {}: {}",
                    "FsGenCustom",
                    validation_error
                )),
                Self::Parse(ref parse_error) => formatter.write_fmt(::core::format_args!(
                    "Failed to parse {}: {:?}",
                    "FsGenCustom",
                    parse_error
                )),
            }
        }
    }
    impl<T: ::core::str::FromStr<Err: ::core::fmt::Debug> + ::core::fmt::Debug> ::core::error::Error
        for FsGenCustomParseError<T>
    {
        fn source(&self) -> Option<&(dyn ::core::error::Error + 'static)> {
            None
        }
    }
    impl<T: Sat + ::core::str::FromStr<Err: ::core::fmt::Debug>> ::core::str::FromStr
        for FsGenCustom<T>
    {
        type Err = FsGenCustomParseError<T>;
        fn from_str(input: &str) -> ::core::result::Result<Self, FsGenCustomParseError<T>> {
            match <T as ::core::str::FromStr>::from_str(input) {
                ::core::result::Result::Err(parse_error) => {
                    ::core::result::Result::Err(FsGenCustomParseError::Parse(parse_error))
                }
                ::core::result::Result::Ok(parsed_value) => match <Self>::try_new(parsed_value) {
                    ::core::result::Result::Ok(valid) => ::core::result::Result::Ok(valid),
                    ::core::result::Result::Err(validation_error) => ::core::result::Result::Err(
                        FsGenCustomParseError::Validate(validation_error),
                    ),
                },
            }
        }
    }
    #[cfg(test)]
    mod tests {
        use super::*;
    }
}
pub use __nutype_FsGenCustom__::FsGenCustom;
pub use __nutype_FsGenCustom__::FsGenCustomParseError;
