// NUTYPE_VERIF_INPUT #[nutype(validate(with = vfn_f64, error = MyErr), derive(Debug, FromStr))] pub struct FsF64Custom(f64);
#[doc(hidden)]
#[allow(
    non_snake_case,
    reason = "we keep original structure name which is probably CamelCase"
)]
mod __nutype_FsF64Custom__ {
    use super::*;
    #[derive(Debug)]
    pub struct FsF64Custom(f64);
    impl FsF64Custom {
        pub fn try_new(raw_value: f64) -> ::core::result::Result<Self, MyErr> {
            let sanitized_value: f64 = Self::__sanitize__(raw_value);
            #[allow(clippy::question_mark)]
            if let Err(e) = Self::__validate__(&sanitized_value) {
                return Err(e);
            }
            Ok(FsF64Custom(sanitized_value))
        }
        fn __sanitize__(mut value: f64) -> f64 {
            value
        }
        #[allow(clippy::ptr_arg)]
        fn __validate__(value: &f64) -> ::core::result::Result<(), MyErr> {
            vfn_f64(value)
        }
    }
    impl FsF64Custom {
        #[inline]
        pub fn into_inner(self) -> f64 {
            self.0
        }
    }
    #[derive(Debug)]
    pub enum FsF64CustomParseError {
        Parse(<f64 as ::core::str::FromStr>::Err),
        Validate(MyErr),
    }
    impl ::core::fmt::Display for FsF64CustomParseError {
        fn fmt(&self, formatter: &mut ::core::fmt::Formatter<'_>) -> ::core::fmt::Result {
            match *self {
                Self::Validate(ref validation_error) => formatter.write_fmt(::core::format_args!(
                    "Failed to parse {}: {}",
                    "FsF64Custom",
                    validation_error
                )),
                Self::Parse(ref parse_error) => formatter.write_fmt(::core::format_args!(
                    "Failed to parse {}: {:?}",
                    "FsF64Custom",
                    parse_error
                )),
            }
        }
    }
    impl ::core::error::Error for FsF64CustomParseError {
        fn source(&self) -> Option<&(dyn ::core::error::Error + 'static)> {
            None
        }
    }
    impl ::core::str::FromStr for FsF64Custom {
        type Err = FsF64CustomParseError;
        fn from_str(input: &str) -> ::core::result::Result<Self, FsF64CustomParseError> {
            match <f64 as ::core::str::FromStr>::from_str(input) {
                ::core::result::Result::Err(parse_error) => {
                    ::core::result::Result::Err(FsF64CustomParseError::Parse(parse_error))
                }
                ::core::result::Result::Ok(parsed_value) => match <Self>::try_new(parsed_value) {
                    ::core::result::Result::Ok(valid) => ::core::result::Result::Ok(valid),
                    ::core::result::Result::Err(validation_error) => ::core::result::Result::Err(
                        FsF64CustomParseError::Validate(validation_error),
                    ),
                },
            }
        }
    }
    #[cfg(test)]
    mod tests {
        use super::*;
    }
}
pub use __nutype_FsF64Custom__::FsF64Custom;
pub use __nutype_FsF64Custom__::FsF64CustomParseError;
