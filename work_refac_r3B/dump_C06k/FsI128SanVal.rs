// NUTYPE_VERIF_INPUT #[nutype(sanitize(with = san_i128), validate(greater_or_equal = sym_lo_i128(), less = sym_hi_i128()), derive(Debug, FromStr))] pub struct FsI128SanVal(i128);
#[doc(hidden)]
#[allow(
    non_snake_case,
    reason = "we keep original structure name which is probably CamelCase"
)]
mod __nutype_FsI128SanVal__ {
    use super::*;
    #[derive(Debug)]
    pub struct FsI128SanVal(i128);
    #[derive(Debug, Clone, PartialEq, Eq)]
    #[allow(clippy::enum_variant_names)]
    pub enum FsI128SanValError {
        GreaterOrEqualViolated,
        LessViolated,
    }
    impl ::core::fmt::Display for FsI128SanValError {
        fn fmt(&self, f: &mut ::core::fmt::Formatter<'_>) -> ::core::fmt::Result {
            match self {
                FsI128SanValError::GreaterOrEqualViolated => write!(
                    f,
                    "{} is too small. The value must be greater or equal to {:#?}.",
                    stringify!(FsI128SanVal),
                    sym_lo_i128()
                ),
                FsI128SanValError::LessViolated => write!(
                    f,
                    "{} is too big. The value must be less than {:#?}.",
                    stringify!(FsI128SanVal),
                    sym_hi_i128()
                ),
            }
        }
    }
    impl ::core::error::Error for FsI128SanValError {
        fn source(&self) -> Option<&(dyn ::core::error::Error + 'static)> {
            None
        }
    }
    impl FsI128SanVal {
        pub fn try_new(raw_value: i128) -> ::core::result::Result<Self, FsI128SanValError> {
            let sanitized_value: i128 = Self::__sanitize__(raw_value);
            #[allow(clippy::question_mark)]
            if let Err(e) = Self::__validate__(&sanitized_value) {
                return Err(e);
            }
            Ok(FsI128SanVal(sanitized_value))
        }
        fn __sanitize__(mut value: i128) -> i128 {
            value = (san_i128)(value);
            value
        }
        fn __validate__(val: &i128) -> ::core::result::Result<(), FsI128SanValError> {
            let val = *val;
            if val < sym_lo_i128() {
                return Err(FsI128SanValError::GreaterOrEqualViolated);
            }
            if val >= sym_hi_i128() {
                return Err(FsI128SanValError::LessViolated);
            }
            Ok(())
        }
    }
    impl FsI128SanVal {
        #[inline]
        pub fn into_inner(self) -> i128 {
            self.0
        }
    }
    #[derive(Debug)]
    pub enum FsI128SanValParseError {
        Parse(<i128 as ::core::str::FromStr>::Err),
        Validate(FsI128SanValError),
    }
    impl ::core::fmt::Display for FsI128SanValParseError {
        fn fmt(&self, formatter: &mut ::core::fmt::Formatter<'_>) -> ::core::fmt::Result {
            match *self {
                Self::Validate(ref validation_error) => formatter.write_fmt(::core::format_args!(
                    "Failed to parse {}: {}",
                    "FsI128SanVal",
                    validation_error
                )),
                Self::Parse(ref parse_error) => formatter.write_fmt(::core::format_args!(
                    "Failed to parse {}: {:?}",
                    "FsI128SanVal",
                    parse_error
                )),
            }
        }
    }
    impl ::core::error::Error for FsI128SanValParseError {
        fn source(&self) -> Option<&(dyn ::core::error::Error + 'static)> {
            None
        }
    }
    impl ::core::str::FromStr for FsI128SanVal {
        type Err = FsI128SanValParseError;
        fn from_str(input: &str) -> ::core::result::Result<Self, FsI128SanValParseError> {
            match <i128 as ::core::str::FromStr>::from_str(input) {
                ::core::result::Result::Err(parse_error) => {
                    ::core::result::Result::Err(FsI128SanValParseError::Parse(parse_error))
                }
                ::core::result::Result::Ok(parsed_value) => match <Self>::try_new(parsed_value) {
                    ::core::result::Result::Ok(valid) => ::core::result::Result::Ok(valid),
                    ::core::result::Result::Err(validation_error) => ::core::result::Result::Err(
                        FsI128SanValParseError::Validate(validation_error),
                    ),
                },
            }
        }
    }
    #[cfg(test)]
    mod tests {
        use super::*;
        #[test]
        fn should_have_consistent_lower_and_upper_boundaries() {
            assert!
            (sym_hi_i128() >= sym_lo_i128(),
            "\nInconsistent lower and upper boundaries for type `FsI128SanVal`\nThe upper boundary `sym_hi_i128()` must be greater than or equal to the lower boundary `sym_lo_i128()`\nNote: the test is generated automatically by #[nutype] macro.\n");
        }
    }
}
pub use __nutype_FsI128SanVal__::FsI128SanVal;
pub use __nutype_FsI128SanVal__::FsI128SanValError;
pub use __nutype_FsI128SanVal__::FsI128SanValParseError;
