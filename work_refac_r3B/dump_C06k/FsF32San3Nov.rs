// NUTYPE_VERIF_INPUT #[nutype(sanitize(with = san3_f32), derive(Debug, FromStr))] pub struct FsF32San3Nov(f32);
#[doc(hidden)]
#[allow(
    non_snake_case,
    reason = "we keep original structure name which is probably CamelCase"
)]
mod __nutype_FsF32San3Nov__ {
    use super::*;
    #[derive(Debug)]
    pub struct FsF32San3Nov(f32);
    impl FsF32San3Nov {
        pub fn new(raw_value: f32) -> Self {
            Self(Self::__sanitize__(raw_value))
        }
        fn __sanitize__(mut value: f32) -> f32 {
            value = (san3_f32)(value);
            value
        }
    }
    impl FsF32San3Nov {
        #[inline]
        pub fn into_inner(self) -> f32 {
            self.0
        }
    }
    #[derive(Debug)]
    pub enum FsF32San3NovParseError {
        Parse(<f32 as ::core::str::FromStr>::Err),
    }
    impl ::core::fmt::Display for FsF32San3NovParseError {
        fn fmt(&self, formatter: &mut ::core::fmt::Formatter<'_>) -> ::core::fmt::Result {
            let Self::Parse(parse_error) = self;
            formatter.write_fmt(::core::format_args!(
                "Failed to parse {}: {:?}",
                "FsF32San3Nov",
                parse_error
            ))
        }
    }
    impl ::core::error::Error for FsF32San3NovParseError {
        fn source(&self) -> Option<&(dyn ::core::error::Error + 'static)> {
            None
        }
    }
    impl ::core::str::FromStr for FsF32San3Nov {
        type Err = FsF32San3NovParseError;
        fn from_str(input: &str) -> ::core::result::Result<Self, FsF32San3NovParseError> {
            match <f32 as ::core::str::FromStr>::from_str(input) {
                ::core::result::Result::Ok(parsed_value) => {
                    ::core::result::Result::Ok(<Self>::new(parsed_value))
                }
                ::core::result::Result::Err(parse_error) => {
                    ::core::result::Result::Err(FsF32San3NovParseError::Parse(parse_error))
                }
            }
        }
    }
    #[cfg(test)]
    mod tests {
        use super::*;
    }
}
pub use __nutype_FsF32San3Nov__::FsF32San3Nov;
pub use __nutype_FsF32San3Nov__::FsF32San3NovParseError;
