// NUTYPE_VERIF_INPUT #[nutype(derive(Debug, FromStr))] pub struct FsU8Nov(u8);
#[doc(hidden)]
#[allow(
    non_snake_case,
    reason = "we keep original structure name which is probably CamelCase"
)]
mod __nutype_FsU8Nov__ {
    use super::*;
    #[derive(Debug)]
    pub struct FsU8Nov(u8);
    impl FsU8Nov {
        pub fn new(raw_value: u8) -> Self {
            Self(Self::__sanitize__(raw_value))
        }
        fn __sanitize__(mut value: u8) -> u8 {
            value
        }
    }
    impl FsU8Nov {
        #[inline]
        pub fn into_inner(self) -> u8 {
            self.0
        }
    }
    #[derive(Debug)]
    pub enum FsU8NovParseError {
        Parse(<u8 as ::core::str::FromStr>::Err),
    }
    impl ::core::fmt::Display for FsU8NovParseError {
        fn fmt(&self, formatter: &mut ::core::fmt::Formatter<'_>) -> ::core::fmt::Result {
            let Self::Parse(parse_error) = self;
            formatter.write_fmt(::core::format_args!(
                "Failed to parse {}: {:?}",
                "FsU8Nov",
                parse_error
            ))
        }
    }
    impl ::core::error::Error for FsU8NovParseError {
        fn source(&self) -> Option<&(dyn ::core::error::Error + 'static)> {
            None
        }
    }
    impl ::core::str::FromStr for FsU8Nov {
        type Err = FsU8NovParseError;
        fn from_str(input: &str) -> ::core::result::Result<Self, FsU8NovParseError> {
            match <u8 as ::core::str::FromStr>::from_str(input) {
                ::core::result::Result::Ok(parsed_value) => {
                    ::core::result::Result::Ok(<Self>::new(parsed_value))
                }
                ::core::result::Result::Err(parse_error) => {
                    ::core::result::Result::Err(FsU8NovParseError::Parse(parse_error))
                }
            }
        }
    }
    #[cfg(test)]
    mod tests {
        use super::*;
    }
}
pub use __nutype_FsU8Nov__::FsU8Nov;
pub use __nutype_FsU8Nov__::FsU8NovParseError;
