// NUTYPE_VERIF_INPUT #[nutype(derive(Debug, FromStr))] pub struct FsI32Nov(i32);
#[doc(hidden)]
#[allow(
    non_snake_case,
    reason = "we keep original structure name which is probably CamelCase"
)]
mod __nutype_FsI32Nov__ {
    use super::*;
    #[derive(Debug)]
    pub struct FsI32Nov(i32);
    impl FsI32Nov {
        pub fn new(raw_value: i32) -> Self {
            Self(Self::__sanitize__(raw_value))
        }
        fn __sanitize__(mut value: i32) -> i32 {
            value
        }
    }
    impl FsI32Nov {
        #[inline]
        pub fn into_inner(self) -> i32 {
            self.0
        }
    }
    #[derive(Debug)]
    pub enum FsI32NovParseError {
        Parse(<i32 as ::core::str::FromStr>::Err),
    }
    impl ::core::fmt::Display for FsI32NovParseError {
        fn fmt(&self, formatter: &mut ::core::fmt::Formatter<'_>) -> ::core::fmt::Result {
            let Self::Parse(parse_error) = self;
            formatter.write_fmt(::core::format_args!(
                "Failed to parse {}: {:?}",
                "FsI32Nov",
                parse_error
            ))
        }
    }
    impl ::core::error::Error for FsI32NovParseError {
        fn source(&self) -> Option<&(dyn ::core::error::Error + 'static)> {
            None
        }
    }
    impl ::core::str::FromStr for FsI32Nov {
        type Err = FsI32NovParseError;
        fn from_str(input: &str) -> ::core::result::Result<Self, FsI32NovParseError> {
            match <i32 as ::core::str::FromStr>::from_str(input) {
                ::core::result::Result::Ok(parsed_value) => {
                    ::core::result::Result::Ok(<Self>::new(parsed_value))
                }
                ::core::result::Result::Err(parse_error) => {
                    ::core::result::Result::Err(FsI32NovParseError::Parse(parse_error))
                }
            }
        }
    }
    #[cfg(test)]
    mod tests {
        use super::*;
    }
}
pub use __nutype_FsI32Nov__::FsI32Nov;
pub use __nutype_FsI32Nov__::FsI32NovParseError;
