// NUTYPE_VERIF_INPUT #[nutype(sanitize(with = san_usize), validate(greater_or_equal = sym_lo_usize(), less = sym_hi_usize()), derive(Debug, FromStr))] pub struct FsUsizeSanVal(usize);
#[doc(hidden)]
#[allow(
    non_snake_case,
    reason = "we keep original structure name which is probably CamelCase"
)]
mod __nutype_FsUsizeSanVal__ {
    use super::*;
    #[derive(Debug)]
    pub struct FsUsizeSanVal(usize);
    #[derive(Debug, Clone, PartialEq, Eq)]
    #[allow(clippy::enum_variant_names)]
    pub enum FsUsizeSanValError {
        GreaterOrEqualViolated,
        LessViolated,
    }
    impl ::core::fmt::Display for FsUsizeSanValError {
        fn fmt(&self, f: &mut ::core::fmt::Formatter<'_>) -> ::core::fmt::Result {
            match self {
                FsUsizeSanValError::GreaterOrEqualViolated => write!(
                    f,
                    "{} is too small. The value must be greater or equal to {:#?}.",
                    stringify!(FsUsizeSanVal),
                    sym_lo_usize()
                ),
                FsUsizeSanValError::LessViolated => write!(
                    f,
                    "{} is too big. The value must be less than {:#?}.",
                    stringify!(FsUsizeSanVal),
                    sym_hi_usize()
                ),
            }
        }
    }
    impl ::core::error::Error for FsUsizeSanValError {
        fn source(&self) -> Option<&(dyn ::core::error::Error + 'static)> {
            None
        }
    }
    impl FsUsizeSanVal {
        pub fn try_new(raw_value: usize) -> ::core::result::Result<Self, FsUsizeSanValError> {
            let sanitized_value: usize = Self::__sanitize__(raw_value);
            #[allow(clippy::question_mark)]
            if let Err(e) = Self::__validate__(&sanitized_value) {
                return Err(e);
            }
            Ok(FsUsizeSanVal(sanitized_value))
        }
        fn __sanitize__(mut value: usize) -> usize {
            value = (san_usize)(value);
            value
        }
        fn __validate__(val: &usize) -> ::core::result::Result<(), FsUsizeSanValError> {
            let val = *val;
            if val < sym_lo_usize() {
                return Err(FsUsizeSanValError::GreaterOrEqualViolated);
            }
            if val >= sym_hi_usize() {
                return Err(FsUsizeSanValError::LessViolated);
            }
            Ok(())
        }
    }
    impl FsUsizeSanVal {
        #[inline]
        pub fn into_inner(self) -> usize {
            self.0
        }
    }
    #[derive(Debug)]
    pub enum FsUsizeSanValParseError {
        Parse(<usize as ::core::str::FromStr>::Err),
        Validate(FsUsizeSanValError),
    }
    impl ::core::fmt::Display for FsUsizeSanValParseError {
        fn fmt(&self, formatter: &mut ::core::fmt::Formatter<'_>) -> ::core::fmt::Result {
            match *self {
                Self::Validate(ref validation_error) => formatter.write_fmt(::core::format_args!(
                    "Failed to parse {}: {}",
                    "FsUsizeSanVal",
                    validation_error
                )),
                Self::Parse(ref parse_error) => formatter.write_fmt(::core::format_args!(
                    "Failed to parse {}: {:?}",
                    "FsUsizeSanVal",
                    parse_error
                )),
            }
        }
    }
    impl ::core::error::Error for FsUsizeSanValParseError {
        fn source(&self) -> Option<&(dyn ::core::error::Error + 'static)> {
            None
        }
    }
    impl ::core::str::FromStr for FsUsizeSanVal {
        type Err = FsUsizeSanValParseError;
        fn from_str(input: &str) -> ::core::result::Result<Self, FsUsizeSanValParseError> {
            match <usize as ::core::str::FromStr>::from_str(input) {
                ::core::result::Result::Err(parse_error) => {
                    ::core::result::Result::Err(FsUsizeSanValParseError::Parse(parse_error))
                }
                ::core::result::Result::Ok(parsed_value) => match <Self>::try_new(parsed_value) {
                    ::core::result::Result::Ok(valid) => ::core::result::Result::Ok(valid),
                    ::core::result::Result::Err(validation_error) => ::core::result::Result::Err(
                        FsUsizeSanValParseError::Validate(validation_error),
                    ),
                },
            }
        }
    }
    #[cfg(test)]
    mod tests {
        use super::*;
        #[test]
        fn should_have_consistent_lower_and_upper_boundaries() {
            assert!
            (sym_hi_usize() >= sym_lo_usize(),
            "\nInconsistent lower and upper boundaries for type `FsUsizeSanVal`\nThe upper boundary `sym_hi_usize()` must be greater than or equal to the lower boundary `sym_lo_usize()`\nNote: the test is generated automatically by #[nutype] macro.\n");
        }
    }
}
pub use __nutype_FsUsizeSanVal__::FsUsizeSanVal;
pub use __nutype_FsUsizeSanVal__::FsUsizeSanValError;
pub use __nutype_FsUsizeSanVal__::FsUsizeSanValParseError;
