// NUTYPE_VERIF_INPUT #[nutype(validate(with = vfn_i128, error = MyErr), derive(Debug, FromStr))] pub struct FsI128Custom(i128);
#[doc(hidden)]
#[allow(
    non_snake_case,
    reason = "we keep original structure name which is probably CamelCase"
)]
mod __nutype_FsI128Custom__ {
    use super::*;
    #[derive(Debug)]
    pub struct FsI128Custom(i128);
    impl FsI128Custom {
        pub fn try_new(raw_value: i128) -> ::core::result::Result<Self, MyErr> {
            let sanitized_value: i128 = Self::__sanitize__(raw_value);
            #[allow(clippy::question_mark)]
            if let Err(e) = Self::__validate__(&sanitized_value) {
                return Err(e);
            }
            Ok(FsI128Custom(sanitized_value))
        }
        fn __sanitize__(mut value: i128) -> i128 {
            value
        }
        #[allow(clippy::ptr_arg)]
        fn __validate__(value: &i128) -> ::core::result::Result<(), MyErr> {
            vfn_i128(value)
        }
    }
    impl FsI128Custom {
        #[inline]
        pub fn into_inner(self) -> i128 {
            self.0
        }
    }
    #[derive(Debug)]
    pub enum FsI128CustomParseError {
        Parse(<i128 as ::core::str::FromStr>::Err),
        Validate(MyErr),
    }
    impl ::core::fmt::Display for FsI128CustomParseError {
        fn fmt(&self, formatter: &mut ::core::fmt::Formatter<'_>) -> ::core::fmt::Result {
            match *self {
                Self::Validate(ref validation_error) => formatter.write_fmt(::core::format_args!(
                    "Failed to parse {}: {}",
                    "FsI128Custom",
                    validation_error
                )),
                Self::Parse(ref parse_error) => formatter.write_fmt(::core::format_args!(
                    "Failed to parse {}: {:?}",
                    "FsI128Custom",
                    parse_error
                )),
            }
        }
    }
    impl ::core::error::Error for FsI128CustomParseError {
        fn source(&self) -> Option<&(dyn ::core::error::Error + 'static)> {
            None
        }
    }
    impl ::core::str::FromStr for FsI128Custom {
        type Err = FsI128CustomParseError;
        fn from_str(input: &str) -> ::core::result::Result<Self, FsI128CustomParseError> {
            match <i128 as ::core::str::FromStr>::from_str(input) {
                ::core::result::Result::Err(parse_error) => {
                    ::core::result::Result::Err(FsI128CustomParseError::Parse(parse_error))
                }
                ::core::result::Result::Ok(parsed_value) => match <Self>::try_new(parsed_value) {
                    ::core::result::Result::Ok(valid) => ::core::result::Result::Ok(valid),
                    ::core::result::Result::Err(validation_error) => ::core::result::Result::Err(
                        FsI128CustomParseError::Validate(validation_error),
                    ),
                },
            }
        }
    }
    #[cfg(test)]
    mod tests {
        use super::*;
    }
}
pub use __nutype_FsI128Custom__::FsI128Custom;
pub use __nutype_FsI128Custom__::FsI128CustomParseError;
