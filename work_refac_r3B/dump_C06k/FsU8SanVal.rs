// NUTYPE_VERIF_INPUT #[nutype(sanitize(with = san_u8), validate(greater_or_equal = sym_lo_u8(), less = sym_hi_u8()), derive(Debug, FromStr))] pub struct FsU8SanVal(u8);
#[doc(hidden)]
#[allow(
    non_snake_case,
    reason = "we keep original structure name which is probably CamelCase"
)]
mod __nutype_FsU8SanVal__ {
    use super::*;
    #[derive(Debug)]
    pub struct FsU8SanVal(u8);
    #[derive(Debug, Clone, PartialEq, Eq)]
    #[allow(clippy::enum_variant_names)]
    pub enum FsU8SanValError {
        GreaterOrEqualViolated,
        LessViolated,
    }
    impl ::core::fmt::Display for FsU8SanValError {
        fn fmt(&self, f: &mut ::core::fmt::Formatter<'_>) -> ::core::fmt::Result {
            match self {
                FsU8SanValError::GreaterOrEqualViolated => write!(
                    f,
                    "{} is too small. The value must be greater or equal to {:#?}.",
                    stringify!(FsU8SanVal),
                    sym_lo_u8()
                ),
                FsU8SanValError::LessViolated => write!(
                    f,
                    "{} is too big. The value must be less than {:#?}.",
                    stringify!(FsU8SanVal),
                    sym_hi_u8()
                ),
            }
        }
    }
    impl ::core::error::Error for FsU8SanValError {
        fn source(&self) -> Option<&(dyn ::core::error::Error + 'static)> {
            None
        }
    }
    impl FsU8SanVal {
        pub fn try_new(raw_value: u8) -> ::core::result::Result<Self, FsU8SanValError> {
            let sanitized_value: u8 = Self::__sanitize__(raw_value);
            #[allow(clippy::question_mark)]
            if let Err(e) = Self::__validate__(&sanitized_value) {
                return Err(e);
            }
            Ok(FsU8SanVal(sanitized_value))
        }
        fn __sanitize__(mut value: u8) -> u8 {
            value = (san_u8)(value);
            value
        }
        fn __validate__(val: &u8) -> ::core::result::Result<(), FsU8SanValError> {
            let val = *val;
            if val < sym_lo_u8() {
                return Err(FsU8SanValError::GreaterOrEqualViolated);
            }
            if val >= sym_hi_u8() {
                return Err(FsU8SanValError::LessViolated);
            }
            Ok(())
        }
    }
    impl FsU8SanVal {
        #[inline]
        pub fn into_inner(self) -> u8 {
            self.0
        }
    }
    #[derive(Debug)]
    pub enum FsU8SanValParseError {
        Parse(<u8 as ::core::str::FromStr>::Err),
        Validate(FsU8SanValError),
    }
    impl ::core::fmt::Display for FsU8SanValParseError {
        fn fmt(&self, formatter: &mut ::core::fmt::Formatter<'_>) -> ::core::fmt::Result {
            match *self {
                Self::Validate(ref validation_error) => formatter.write_fmt(::core::format_args!(
                    "Failed to parse {}: {}",
                    "FsU8SanVal",
                    validation_error
                )),
                Self::Parse(ref parse_error) => formatter.write_fmt(::core::format_args!(
                    "Failed to parse {}: {:?}",
                    "FsU8SanVal",
                    parse_error
                )),
            }
        }
    }
    impl ::core::error::Error for FsU8SanValParseError {
        fn source(&self) -> Option<&(dyn ::core::error::Error + 'static)> {
            None
        }
    }
    impl ::core::str::FromStr for FsU8SanVal {
        type Err = FsU8SanValParseError;
        fn from_str(input: &str) -> ::core::result::Result<Self, FsU8SanValParseError> {
            match <u8 as ::core::str::FromStr>::from_str(input) {
                ::core::result::Result::Err(parse_error) => {
                    ::core::result::Result::Err(FsU8SanValParseError::Parse(parse_error))
                }
                ::core::result::Result::Ok(parsed_value) => match <Self>::try_new(parsed_value) {
                    ::core::result::Result::Ok(valid) => ::core::result::Result::Ok(valid),
                    ::core::result::Result::Err(validation_error) => ::core::result::Result::Err(
                        FsU8SanValParseError::Validate(validation_error),
                    ),
                },
            }
        }
    }
    #[cfg(test)]
    mod tests {
        use super::*;
        #[test]
        fn should_have_consistent_lower_and_upper_boundaries() {
            assert!
            (sym_hi_u8() >= sym_lo_u8(),
            "\nInconsistent lower and upper boundaries for type `FsU8SanVal`\nThe upper boundary `sym_hi_u8()` must be greater than or equal to the lower boundary `sym_lo_u8()`\nNote: the test is generated automatically by #[nutype] macro.\n");
        }
    }
}
pub use __nutype_FsU8SanVal__::FsU8SanVal;
pub use __nutype_FsU8SanVal__::FsU8SanValError;
pub use __nutype_FsU8SanVal__::FsU8SanValParseError;
