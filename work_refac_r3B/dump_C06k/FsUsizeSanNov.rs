// NUTYPE_VERIF_INPUT #[nutype(sanitize(with = san_usize), derive(Debug, FromStr))] pub struct FsUsizeSanNov(usize);
#[doc(hidden)]
#[allow(
    non_snake_case,
    reason = "we keep original structure name which is probably CamelCase"
)]
mod __nutype_FsUsizeSanNov__ {
    use super::*;
    #[derive(Debug)]
    pub struct FsUsizeSanNov(usize);
    impl FsUsizeSanNov {
        pub fn new(raw_value: usize) -> Self {
            Self(Self::__sanitize__(raw_value))
        }
        fn __sanitize__(mut value: usize) -> usize {
            value = (san_usize)(value);
            value
        }
    }
    impl FsUsizeSanNov {
        #[inline]
        pub fn into_inner(self) -> usize {
            self.0
        }
    }
    #[derive(Debug)]
    pub enum FsUsizeSanNovParseError {
        Parse(<usize as ::core::str::FromStr>::Err),
    }
    impl ::core::fmt::Display for FsUsizeSanNovParseError {
        fn fmt(&self, formatter: &mut ::core::fmt::Formatter<'_>) -> ::core::fmt::Result {
            let Self::Parse(parse_error) = self;
            formatter.write_fmt(::core::format_args!(
                "Failed to parse {}: {:?}",
                "FsUsizeSanNov",
                parse_error
            ))
        }
    }
    impl ::core::error::Error for FsUsizeSanNovParseError {
        fn source(&self) -> Option<&(dyn ::core::error::Error + 'static)> {
            None
        }
    }
    impl ::core::str::FromStr for FsUsizeSanNov {
        type Err = FsUsizeSanNovParseError;
        fn from_str(input: &str) -> ::core::result::Result<Self, FsUsizeSanNovParseError> {
            match <usize as ::core::str::FromStr>::from_str(input) {
                ::core::result::Result::Ok(parsed_value) => {
                    ::core::result::Result::Ok(<Self>::new(parsed_value))
                }
                ::core::result::Result::Err(parse_error) => {
                    ::core::result::Result::Err(FsUsizeSanNovParseError::Parse(parse_error))
                }
            }
        }
    }
    #[cfg(test)]
    mod tests {
        use super::*;
    }
}
pub use __nutype_FsUsizeSanNov__::FsUsizeSanNov;
pub use __nutype_FsUsizeSanNov__::FsUsizeSanNovParseError;
