// NUTYPE_VERIF_INPUT #[nutype(sanitize(with = san_gen), validate(predicate = pred_gen), derive(Debug, FromStr))] pub struct FsGenSanPred<T: Sat>(T);
#[doc(hidden)]
#[allow(
    non_snake_case,
    reason = "we keep original structure name which is probably CamelCase"
)]
mod __nutype_FsGenSanPred__ {
    use super::*;
    #[derive(Debug)]
    pub struct FsGenSanPred<T: Sat>(T);
    #[derive(Debug, Clone, PartialEq, Eq)]
    #[allow(clippy::enum_variant_names)]
    pub enum FsGenSanPredError {
        PredicateViolated,
    }
    impl ::core::fmt::Display for FsGenSanPredError {
        fn fmt(&self, f: &mut ::core::fmt::Formatter<'_>) -> ::core::fmt::Result {
            match self {
                FsGenSanPredError::PredicateViolated => {
                    write!(f, "{} failed the predicate test.", stringify!(FsGenSanPred))
                }
            }
        }
    }
    impl ::core::error::Error for FsGenSanPredError {
        fn source(&self) -> Option<&(dyn ::core::error::Error + 'static)> {
            None
        }
    }
    impl<T: Sat> FsGenSanPred<T> {
        pub fn try_new(raw_value: T) -> ::core::result::Result<Self, FsGenSanPredError> {
            let sanitized_value: T = Self::__sanitize__(raw_value);
            #[allow(clippy::question_mark)]
            if let Err(e) = Self::__validate__(&sanitized_value) {
                return Err(e);
            }
            Ok(FsGenSanPred(sanitized_value))
        }
        fn __sanitize__(mut value: T) -> T {
            value = (san_gen)(value);
            value
        }
        #[allow(clippy::ptr_arg)]
        fn __validate__<'nutype_a>(
            val: &'nutype_a T,
        ) -> ::core::result::Result<(), FsGenSanPredError> {
            if !(pred_gen)(val) {
                return Err(FsGenSanPredError::PredicateViolated);
            }
            Ok(())
        }
    }
    impl<T: Sat> FsGenSanPred<T> {
        #[inline]
        pub fn into_inner(self) -> T {
            self.0
        }
    }
    #[derive(Debug)]
    pub enum FsGenSanPredParseError<T: ::core::str::FromStr<Err: ::core::fmt::Debug>> {
        Parse(<T as ::core::str::FromStr>::Err),
        Validate(FsGenSanPredError),
    }
    impl<T: ::core::str::FromStr<Err: ::core::fmt::Debug>> ::core::fmt::Display
        for FsGenSanPredParseError<T>
    {
        fn fmt(&self, formatter: &mut ::core::fmt::Formatter<'_>) -> ::core::fmt::Result {
            match *self {
                Self::Validate(ref validation_error) => formatter.write_fmt(::core::format_args!(
                    "Failed to parse {}: {}",
                    "FsGenSanPred",
                    validation_error
                )),
                Self::Parse(ref parse_error) => formatter.write_fmt(::core::format_args!(
                    "Failed to parse {}: {:?}",
                    "FsGenSanPred",
                    parse_error
                )),
            }
        }
    }
    impl<T: ::core::str::FromStr<Err: ::core::fmt::Debug> + ::core::fmt::Debug> ::core::error::Error
        for FsGenSanPredParseError<T>
    {
        fn source(&self) -> Option<&(dyn ::core::error::Error + 'static)> {
            None
        }
    }
    impl<T: Sat + ::core::str::FromStr<Err: ::core::fmt::Debug>> ::core::str::FromStr
        for FsGenSanPred<T>
    {
        type Err = FsGenSanPredParseError<T>;
        fn from_str(input: &str) -> ::core::result::Result<Self, FsGenSanPredParseError<T>> {
            match <T as ::core::str::FromStr>::from_str(input) {
                ::core::result::Result::Err(parse_error) => {
                    ::core::result::Result::Err(FsGenSanPredParseError::Parse(parse_error))
                }
                ::core::result::Result::Ok(parsed_value) => match <Self>::try_new(parsed_value) {
                    ::core::result::Result::Ok(valid) => ::core::result::Result::Ok(valid),
                    ::core::result::Result::Err(validation_error) => ::core::result::Result::Err(
                        FsGenSanPredParseError::Validate(validation_error),
                    ),
                },
            }
        }
    }
    #[cfg(test)]
    mod tests {
        use super::*;
    }
}
pub use __nutype_FsGenSanPred__::FsGenSanPred;
pub use __nutype_FsGenSanPred__::FsGenSanPredError;
pub use __nutype_FsGenSanPred__::FsGenSanPredParseError;
