// NUTYPE_VERIF_INPUT #[nutype(derive(Debug, FromStr))] pub struct FsUsizeNov(usize);
#[doc(hidden)]
#[allow(
    non_snake_case,
    reason = "we keep original structure name which is probably CamelCase"
)]
mod __nutype_FsUsizeNov__ {
    use super::*;
    #[derive(Debug)]
    pub struct FsUsizeNov(usize);
    impl FsUsizeNov {
        pub fn new(raw_value: usize) -> Self {
            Self(Self::__sanitize__(raw_value))
        }
        fn __sanitize__(mut value: usize) -> usize {
            value
        }
    }
    impl FsUsizeNov {
        #[inline]
        pub fn into_inner(self) -> usize {
            self.0
        }
    }
    #[derive(Debug)]
    pub enum FsUsizeNovParseError {
        Parse(<usize as ::core::str::FromStr>::Err),
    }
    impl ::core::fmt::Display for FsUsizeNovParseError {
        fn fmt(&self, formatter: &mut ::core::fmt::Formatter<'_>) -> ::core::fmt::Result {
            let Self::Parse(parse_error) = self;
            formatter.write_fmt(::core::format_args!(
                "Failed to parse {}: {:?}",
                "FsUsizeNov",
                parse_error
            ))
        }
    }
    impl ::core::error::Error for FsUsizeNovParseError {
        fn source(&self) -> Option<&(dyn ::core::error::Error + 'static)> {
            None
        }
    }
    impl ::core::str::FromStr for FsUsizeNov {
        type Err = FsUsizeNovParseError;
        fn from_str(input: &str) -> ::core::result::Result<Self, FsUsizeNovParseError> {
            match <usize as ::core::str::FromStr>::from_str(input) {
                ::core::result::Result::Ok(parsed_value) => {
                    ::core::result::Result::Ok(<Self>::new(parsed_value))
                }
                ::core::result::Result::Err(parse_error) => {
                    ::core::result::Result::Err(FsUsizeNovParseError::Parse(parse_error))
                }
            }
        }
    }
    #[cfg(test)]
    mod tests {
        use super::*;
    }
}
pub use __nutype_FsUsizeNov__::FsUsizeNov;
pub use __nutype_FsUsizeNov__::FsUsizeNovParseError;
