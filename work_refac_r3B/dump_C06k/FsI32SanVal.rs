// NUTYPE_VERIF_INPUT #[nutype(sanitize(with = san_i32), validate(greater_or_equal = sym_lo_i32(), less = sym_hi_i32()), derive(Debug, FromStr))] pub struct FsI32SanVal(i32);
#[doc(hidden)]
#[allow(
    non_snake_case,
    reason = "we keep original structure name which is probably CamelCase"
)]
mod __nutype_FsI32SanVal__ {
    use super::*;
    #[derive(Debug)]
    pub struct FsI32SanVal(i32);
    #[derive(Debug, Clone, PartialEq, Eq)]
    #[allow(clippy::enum_variant_names)]
    pub enum FsI32SanValError {
        GreaterOrEqualViolated,
        LessViolated,
    }
    impl ::core::fmt::Display for FsI32SanValError {
        fn fmt(&self, f: &mut ::core::fmt::Formatter<'_>) -> ::core::fmt::Result {
            match self {
                FsI32SanValError::GreaterOrEqualViolated => write!(
                    f,
                    "{} is too small. The value must be greater or equal to {:#?}.",
                    stringify!(FsI32SanVal),
                    sym_lo_i32()
                ),
                FsI32SanValError::LessViolated => write!(
                    f,
                    "{} is too big. The value must be less than {:#?}.",
                    stringify!(FsI32SanVal),
                    sym_hi_i32()
                ),
            }
        }
    }
    impl ::core::error::Error for FsI32SanValError {
        fn source(&self) -> Option<&(dyn ::core::error::Error + 'static)> {
            None
        }
    }
    impl FsI32SanVal {
        pub fn try_new(raw_value: i32) -> ::core::result::Result<Self, FsI32SanValError> {
            let sanitized_value: i32 = Self::__sanitize__(raw_value);
            #[allow(clippy::question_mark)]
            if let Err(e) = Self::__validate__(&sanitized_value) {
                return Err(e);
            }
            Ok(FsI32SanVal(sanitized_value))
        }
        fn __sanitize__(mut value: i32) -> i32 {
            value = (san_i32)(value);
            value
        }
        fn __validate__(val: &i32) -> ::core::result::Result<(), FsI32SanValError> {
            let val = *val;
            if val < sym_lo_i32() {
                return Err(FsI32SanValError::GreaterOrEqualViolated);
            }
            if val >= sym_hi_i32() {
                return Err(FsI32SanValError::LessViolated);
            }
            Ok(())
        }
    }
    impl FsI32SanVal {
        #[inline]
        pub fn into_inner(self) -> i32 {
            self.0
        }
    }
    #[derive(Debug)]
    pub enum FsI32SanValParseError {
        Parse(<i32 as ::core::str::FromStr>::Err),
        Validate(FsI32SanValError),
    }
    impl ::core::fmt::Display for FsI32SanValParseError {
        fn fmt(&self, formatter: &mut ::core::fmt::Formatter<'_>) -> ::core::fmt::Result {
            match *self {
                Self::Validate(ref validation_error) => formatter.write_fmt(::core::format_args!(
                    "Failed to parse {}: {}",
                    "FsI32SanVal",
                    validation_error
                )),
                Self::Parse(ref parse_error) => formatter.write_fmt(::core::format_args!(
                    "Failed to parse {}: {:?}",
                    "FsI32SanVal",
                    parse_error
                )),
            }
        }
    }
    impl ::core::error::Error for FsI32SanValParseError {
        fn source(&self) -> Option<&(dyn ::core::error::Error + 'static)> {
            None
        }
    }
    impl ::core::str::FromStr for FsI32SanVal {
        type Err = FsI32SanValParseError;
        fn from_str(input: &str) -> ::core::result::Result<Self, FsI32SanValParseError> {
            match <i32 as ::core::str::FromStr>::from_str(input) {
                ::core::result::Result::Err(parse_error) => {
                    ::core::result::Result::Err(FsI32SanValParseError::Parse(parse_error))
                }
                ::core::result::Result::Ok(parsed_value) => match <Self>::try_new(parsed_value) {
                    ::core::result::Result::Ok(valid) => ::core::result::Result::Ok(valid),
                    ::core::result::Result::Err(validation_error) => ::core::result::Result::Err(
                        FsI32SanValParseError::Validate(validation_error),
                    ),
                },
            }
        }
    }
    #[cfg(test)]
    mod tests {
        use super::*;
        #[test]
        fn should_have_consistent_lower_and_upper_boundaries() {
            assert!
            (sym_hi_i32() >= sym_lo_i32(),
            "\nInconsistent lower and upper boundaries for type `FsI32SanVal`\nThe upper boundary `sym_hi_i32()` must be greater than or equal to the lower boundary `sym_lo_i32()`\nNote: the test is generated automatically by #[nutype] macro.\n");
        }
    }
}
pub use __nutype_FsI32SanVal__::FsI32SanVal;
pub use __nutype_FsI32SanVal__::FsI32SanValError;
pub use __nutype_FsI32SanVal__::FsI32SanValParseError;
