// NUTYPE_VERIF_INPUT #[nutype(validate(with = vfn_i32, error = MyErr), derive(Debug, FromStr))] pub struct FsI32Custom(i32);
#[doc(hidden)]
#[allow(
    non_snake_case,
    reason = "we keep original structure name which is probably CamelCase"
)]
mod __nutype_FsI32Custom__ {
    use super::*;
    #[derive(Debug)]
    pub struct FsI32Custom(i32);
    impl FsI32Custom {
        pub fn try_new(raw_value: i32) -> ::core::result::Result<Self, MyErr> {
            let sanitized_value: i32 = Self::__sanitize__(raw_value);
            #[allow(clippy::question_mark)]
            if let Err(e) = Self::__validate__(&sanitized_value) {
                return Err(e);
            }
            Ok(FsI32Custom(sanitized_value))
        }
        fn __sanitize__(mut value: i32) -> i32 {
            value
        }
        #[allow(clippy::ptr_arg)]
        fn __validate__(value: &i32) -> ::core::result::Result<(), MyErr> {
            vfn_i32(value)
        }
    }
    impl FsI32Custom {
        #[inline]
        pub fn into_inner(self) -> i32 {
            self.0
        }
    }
    #[derive(Debug)]
    pub enum FsI32CustomParseError {
        Parse(<i32 as ::core::str::FromStr>::Err),
        Validate(MyErr),
    }
    impl ::core::fmt::Display for FsI32CustomParseError {
        fn fmt(&self, formatter: &mut ::core::fmt::Formatter<'_>) -> ::core::fmt::Result {
            match *self {
                Self::Validate(ref validation_error) => formatter.write_fmt(::core::format_args!(
                    "Failed to parse {}: {}",
                    "FsI32Custom",
                    validation_error
                )),
                Self::Parse(ref parse_error) => formatter.write_fmt(::core::format_args!(
                    "Failed to parse {}: {:?}",
                    "FsI32Custom",
                    parse_error
                )),
            }
        }
    }
    impl ::core::error::Error for FsI32CustomParseError {
        fn source(&self) -> Option<&(dyn ::core::error::Error + 'static)> {
            None
        }
    }
    impl ::core::str::FromStr for FsI32Custom {
        type Err = FsI32CustomParseError;
        fn from_str(input: &str) -> ::core::result::Result<Self, FsI32CustomParseError> {
            match <i32 as ::core::str::FromStr>::from_str(input) {
                ::core::result::Result::Err(parse_error) => {
                    ::core::result::Result::Err(FsI32CustomParseError::Parse(parse_error))
                }
                ::core::result::Result::Ok(parsed_value) => match <Self>::try_new(parsed_value) {
                    ::core::result::Result::Ok(valid) => ::core::result::Result::Ok(valid),
                    ::core::result::Result::Err(validation_error) => ::core::result::Result::Err(
                        FsI32CustomParseError::Validate(validation_error),
                    ),
                },
            }
        }
    }
    #[cfg(test)]
    mod tests {
        use super::*;
    }
}
pub use __nutype_FsI32Custom__::FsI32Custom;
pub use __nutype_FsI32Custom__::FsI32CustomParseError;
