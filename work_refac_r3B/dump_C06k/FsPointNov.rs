// NUTYPE_VERIF_INPUT #[nutype(derive(Debug, FromStr))] pub struct FsPointNov(Point);
#[doc(hidden)]
#[allow(
    non_snake_case,
    reason = "we keep original structure name which is probably CamelCase"
)]
mod __nutype_FsPointNov__ {
    use super::*;
    #[derive(Debug)]
    pub struct FsPointNov(Point);
    impl FsPointNov {
        pub fn new(raw_value: Point) -> Self {
            Self(Self::__sanitize__(raw_value))
        }
        fn __sanitize__(mut value: Point) -> Point {
            value
        }
    }
    impl FsPointNov {
        #[inline]
        pub fn into_inner(self) -> Point {
            self.0
        }
    }
    #[derive(Debug)]
    pub enum FsPointNovParseError {
        Parse(<Point as ::core::str::FromStr>::Err),
    }
    impl ::core::fmt::Display for FsPointNovParseError {
        fn fmt(&self, formatter: &mut ::core::fmt::Formatter<'_>) -> ::core::fmt::Result {
            let Self::Parse(parse_error) = self;
            formatter.write_fmt(::core::format_args!(
                "Failed to parse {}: {:?}",
                "FsPointNov",
                parse_error
            ))
        }
    }
    impl ::core::error::Error for FsPointNovParseError {
        fn source(&self) -> Option<&(dyn ::core::error::Error + 'static)> {
            None
        }
    }
    impl ::core::str::FromStr for FsPointNov {
        type Err = FsPointNovParseError;
        fn from_str(input: &str) -> ::core::result::Result<Self, FsPointNovParseError> {
            match <Point as ::core::str::FromStr>::from_str(input) {
                ::core::result::Result::Ok(parsed_value) => {
                    ::core::result::Result::Ok(<Self>::new(parsed_value))
                }
                ::core::result::Result::Err(parse_error) => {
                    ::core::result::Result::Err(FsPointNovParseError::Parse(parse_error))
                }
            }
        }
    }
    #[cfg(test)]
    mod tests {
        use super::*;
    }
}
pub use __nutype_FsPointNov__::FsPointNov;
pub use __nutype_FsPointNov__::FsPointNovParseError;
