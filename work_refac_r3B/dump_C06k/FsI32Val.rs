// NUTYPE_VERIF_INPUT #[nutype(validate(greater_or_equal = sym_lo_i32(), less = sym_hi_i32()), derive(Debug, FromStr))] pub struct FsI32Val(i32);
#[doc(hidden)]
#[allow(
    non_snake_case,
    reason = "we keep original structure name which is probably CamelCase"
)]
mod __nutype_FsI32Val__ {
    use super::*;
    #[derive(Debug)]
    pub struct FsI32Val(i32);
    #[derive(Debug, Clone, PartialEq, Eq)]
    #[allow(clippy::enum_variant_names)]
    pub enum FsI32ValError {
        GreaterOrEqualViolated,
        LessViolated,
    }
    impl ::core::fmt::Display for FsI32ValError {
        fn fmt(&self, f: &mut ::core::fmt::Formatter<'_>) -> ::core::fmt::Result {
            match self {
                FsI32ValError::GreaterOrEqualViolated => write!(
                    f,
                    "{} is too small. The value must be greater or equal to {:#?}.",
                    stringify!(FsI32Val),
                    sym_lo_i32()
                ),
                FsI32ValError::LessViolated => write!(
                    f,
                    "{} is too big. The value must be less than {:#?}.",
                    stringify!(FsI32Val),
                    sym_hi_i32()
                ),
            }
        }
    }
    impl ::core::error::Error for FsI32ValError {
        fn source(&self) -> Option<&(dyn ::core::error::Error + 'static)> {
            None
        }
    }
    impl FsI32Val {
        pub fn try_new(raw_value: i32) -> ::core::result::Result<Self, FsI32ValError> {
            let sanitized_value: i32 = Self::__sanitize__(raw_value);
            #[allow(clippy::question_mark)]
            if let Err(e) = Self::__validate__(&sanitized_value) {
                return Err(e);
            }
            Ok(FsI32Val(sanitized_value))
        }
        fn __sanitize__(mut value: i32) -> i32 {
            value
        }
        fn __validate__(val: &i32) -> ::core::result::Result<(), FsI32ValError> {
            let val = *val;
            if val < sym_lo_i32() {
                return Err(FsI32ValError::GreaterOrEqualViolated);
            }
            if val >= sym_hi_i32() {
                return Err(FsI32ValError::LessViolated);
            }
            Ok(())
        }
    }
    impl FsI32Val {
        #[inline]
        pub fn into_inner(self) -> i32 {
            self.0
        }
    }
    #[derive(Debug)]
    pub enum FsI32ValParseError {
        Parse(<i32 as ::core::str::FromStr>::Err),
        Validate(FsI32ValError),
    }
    impl ::core::fmt::Display for FsI32ValParseError {
        fn fmt(&self, formatter: &mut ::core::fmt::Formatter<'_>) -> ::core::fmt::Result {
            match *self {
                Self::Validate(ref validation_error) => formatter.write_fmt(::core::format_args!(
                    "Failed to parse {}: {}",
                    "FsI32Val",
                    validation_error
                )),
                Self::Parse(ref parse_error) => formatter.write_fmt(::core::format_args!(
                    "Failed to parse {}: {:?}",
                    "FsI32Val",
                    parse_error
                )),
            }
        }
    }
    impl ::core::error::Error for FsI32ValParseError {
        fn source(&self) -> Option<&(dyn ::core::error::Error + 'static)> {
            None
        }
    }
    impl ::core::str::FromStr for FsI32Val {
        type Err = FsI32ValParseError;
        fn from_str(input: &str) -> ::core::result::Result<Self, FsI32ValParseError> {
            match <i32 as ::core::str::FromStr>::from_str(input) {
                ::core::result::Result::Err(parse_error) => {
                    ::core::result::Result::Err(FsI32ValParseError::Parse(parse_error))
                }
                ::core::result::Result::Ok(parsed_value) => match <Self>::try_new(parsed_value) {
                    ::core::result::Result::Ok(valid) => ::core::result::Result::Ok(valid),
                    ::core::result::Result::Err(validation_error) => {
                        ::core::result::Result::Err(FsI32ValParseError::Validate(validation_error))
                    }
                },
            }
        }
    }
    #[cfg(test)]
    mod tests {
        use super::*;
        #[test]
        fn should_have_consistent_lower_and_upper_boundaries() {
            assert!
            (sym_hi_i32() >= sym_lo_i32(),
            "\nInconsistent lower and upper boundaries for type `FsI32Val`\nThe upper boundary `sym_hi_i32()` must be greater than or equal to the lower boundary `sym_lo_i32()`\nNote: the test is generated automatically by #[nutype] macro.\n");
        }
    }
}
pub use __nutype_FsI32Val__::FsI32Val;
pub use __nutype_FsI32Val__::FsI32ValError;
pub use __nutype_FsI32Val__::FsI32ValParseError;
