// NUTYPE_VERIF_INPUT #[nutype(sanitize(with = san3_usize), validate(greater_or_equal = sym_lo_usize(), less = sym_hi_usize()), derive(Debug, FromStr))] pub struct FsUsizeSan3Val(usize);
#[doc(hidden)]
#[allow(
    non_snake_case,
    reason = "we keep original structure name which is probably CamelCase"
)]
mod __nutype_FsUsizeSan3Val__ {
    use super::*;
    #[derive(Debug)]
    pub struct FsUsizeSan3Val(usize);
    #[derive(Debug, Clone, PartialEq, Eq)]
    #[allow(clippy::enum_variant_names)]
    pub enum FsUsizeSan3ValError {
        GreaterOrEqualViolated,
        LessViolated,
    }
    impl ::core::fmt::Display for FsUsizeSan3ValError {
        fn fmt(&self, f: &mut ::core::fmt::Formatter<'_>) -> ::core::fmt::Result {
            match self {
                FsUsizeSan3ValError::GreaterOrEqualViolated => write!(
                    f,
                    "{} is too small. The value must be greater or equal to {:#?}.",
                    stringify!(FsUsizeSan3Val),
                    sym_lo_usize()
                ),
                FsUsizeSan3ValError::LessViolated => write!(
                    f,
                    "{} is too big. The value must be less than {:#?}.",
                    stringify!(FsUsizeSan3Val),
                    sym_hi_usize()
                ),
            }
        }
    }
    impl ::core::error::Error for FsUsizeSan3ValError {
        fn source(&self) -> Option<&(dyn ::core::error::Error + 'static)> {
            None
        }
    }
    impl FsUsizeSan3Val {
        pub fn try_new(raw_value: usize) -> ::core::result::Result<Self, FsUsizeSan3ValError> {
            let sanitized_value: usize = Self::__sanitize__(raw_value);
            #[allow(clippy::question_mark)]
            if let Err(e) = Self::__validate__(&sanitized_value) {
                return Err(e);
            }
            Ok(FsUsizeSan3Val(sanitized_value))
        }
        fn __sanitize__(mut value: usize) -> usize {
            value = (san3_usize)(value);
            value
        }
        fn __validate__(val: &usize) -> ::core::result::Result<(), FsUsizeSan3ValError> {
            let val = *val;
            if val < sym_lo_usize() {
                return Err(FsUsizeSan3ValError::GreaterOrEqualViolated);
            }
            if val >= sym_hi_usize() {
                return Err(FsUsizeSan3ValError::LessViolated);
            }
            Ok(())
        }
    }
    impl FsUsizeSan3Val {
        #[inline]
        pub fn into_inner(self) -> usize {
            self.0
        }
    }
    #[derive(Debug)]
    pub enum FsUsizeSan3ValParseError {
        Parse(<usize as ::core::str::FromStr>::Err),
        Validate(FsUsizeSan3ValError),
    }
    impl ::core::fmt::Display for FsUsizeSan3ValParseError {
        fn fmt(&self, formatter: &mut ::core::fmt::Formatter<'_>) -> ::core::fmt::Result {
            match *self {
                Self::Validate(ref validation_error) => formatter.write_fmt(::core::format_args!(
                    "Failed to parse {}: {}",
                    "FsUsizeSan3Val",
                    validation_error
                )),
                Self::Parse(ref parse_error) => formatter.write_fmt(::core::format_args!(
                    "Failed to parse {}: {:?}",
                    "FsUsizeSan3Val",
                    parse_error
                )),
            }
        }
    }
    impl ::core::error::Error for FsUsizeSan3ValParseError {
        fn source(&self) -> Option<&(dyn ::core::error::Error + 'static)> {
            None
        }
    }
    impl ::core::str::FromStr for FsUsizeSan3Val {
        type Err = FsUsizeSan3ValParseError;
        fn from_str(input: &str) -> ::core::result::Result<Self, FsUsizeSan3ValParseError> {
            match <usize as ::core::str::FromStr>::from_str(input) {
                ::core::result::Result::Err(parse_error) => {
                    ::core::result::Result::Err(FsUsizeSan3ValParseError::Parse(parse_error))
                }
                ::core::result::Result::Ok(parsed_value) => match <Self>::try_new(parsed_value) {
                    ::core::result::Result::Ok(valid) => ::core::result::Result::Ok(valid),
                    ::core::result::Result::Err(validation_error) => ::core::result::Result::Err(
                        FsUsizeSan3ValParseError::Validate(validation_error),
                    ),
                },
            }
        }
    }
    #[cfg(test)]
    mod tests {
        use super::*;
        #[test]
        fn should_have_consistent_lower_and_upper_boundaries() {
            assert!
            (sym_hi_usize() >= sym_lo_usize(),
            "\nInconsistent lower and upper boundaries for type `FsUsizeSan3Val`\nThe upper boundary `sym_hi_usize()` must be greater than or equal to the lower boundary `sym_lo_usize()`\nNote: the test is generated automatically by #[nutype] macro.\n");
        }
    }
}
pub use __nutype_FsUsizeSan3Val__::FsUsizeSan3Val;
pub use __nutype_FsUsizeSan3Val__::FsUsizeSan3ValError;
pub use __nutype_FsUsizeSan3Val__::FsUsizeSan3ValParseError;
