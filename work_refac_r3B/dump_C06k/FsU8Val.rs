// NUTYPE_VERIF_INPUT #[nutype(validate(greater_or_equal = sym_lo_u8(), less = sym_hi_u8()), derive(Debug, FromStr))] pub struct FsU8Val(u8);
#[doc(hidden)]
#[allow(
    non_snake_case,
    reason = "we keep original structure name which is probably CamelCase"
)]
mod __nutype_FsU8Val__ {
    use super::*;
    #[derive(Debug)]
    pub struct FsU8Val(u8);
    #[derive(Debug, Clone, PartialEq, Eq)]
    #[allow(clippy::enum_variant_names)]
    pub enum FsU8ValError {
        GreaterOrEqualViolated,
        LessViolated,
    }
    impl ::core::fmt::Display for FsU8ValError {
        fn fmt(&self, f: &mut ::core::fmt::Formatter<'_>) -> ::core::fmt::Result {
            match self {
                FsU8ValError::GreaterOrEqualViolated => write!(
                    f,
                    "{} is too small. The value must be greater or equal to {:#?}.",
                    stringify!(FsU8Val),
                    sym_lo_u8()
                ),
                FsU8ValError::LessViolated => write!(
                    f,
                    "{} is too big. The value must be less than {:#?}.",
                    stringify!(FsU8Val),
                    sym_hi_u8()
                ),
            }
        }
    }
    impl ::core::error::Error for FsU8ValError {
        fn source(&self) -> Option<&(dyn ::core::error::Error + 'static)> {
            None
        }
    }
    impl FsU8Val {
        pub fn try_new(raw_value: u8) -> ::core::result::Result<Self, FsU8ValError> {
            let sanitized_value: u8 = Self::__sanitize__(raw_value);
            #[allow(clippy::question_mark)]
            if let Err(e) = Self::__validate__(&sanitized_value) {
                return Err(e);
            }
            Ok(FsU8Val(sanitized_value))
        }
        fn __sanitize__(mut value: u8) -> u8 {
            value
        }
        fn __validate__(val: &u8) -> ::core::result::Result<(), FsU8ValError> {
            let val = *val;
            if val < sym_lo_u8() {
                return Err(FsU8ValError::GreaterOrEqualViolated);
            }
            if val >= sym_hi_u8() {
                return Err(FsU8ValError::LessViolated);
            }
            Ok(())
        }
    }
    impl FsU8Val {
        #[inline]
        pub fn into_inner(self) -> u8 {
            self.0
        }
    }
    #[derive(Debug)]
    pub enum FsU8ValParseError {
        Parse(<u8 as ::core::str::FromStr>::Err),
        Validate(FsU8ValError),
    }
    impl ::core::fmt::Display for FsU8ValParseError {
        fn fmt(&self, formatter: &mut ::core::fmt::Formatter<'_>) -> ::core::fmt::Result {
            match *self {
                Self::Validate(ref validation_error) => formatter.write_fmt(::core::format_args!(
                    "Failed to parse {}: {}",
                    "FsU8Val",
                    validation_error
                )),
                Self::Parse(ref parse_error) => formatter.write_fmt(::core::format_args!(
                    "Failed to parse {}: {:?}",
                    "FsU8Val",
                    parse_error
                )),
            }
        }
    }
    impl ::core::error::Error for FsU8ValParseError {
        fn source(&self) -> Option<&(dyn ::core::error::Error + 'static)> {
            None
        }
    }
    impl ::core::str::FromStr for FsU8Val {
        type Err = FsU8ValParseError;
        fn from_str(input: &str) -> ::core::result::Result<Self, FsU8ValParseError> {
            match <u8 as ::core::str::FromStr>::from_str(input) {
                ::core::result::Result::Err(parse_error) => {
                    ::core::result::Result::Err(FsU8ValParseError::Parse(parse_error))
                }
                ::core::result::Result::Ok(parsed_value) => match <Self>::try_new(parsed_value) {
                    ::core::result::Result::Ok(valid) => ::core::result::Result::Ok(valid),
                    ::core::result::Result::Err(validation_error) => {
                        ::core::result::Result::Err(FsU8ValParseError::Validate(validation_error))
                    }
                },
            }
        }
    }
    #[cfg(test)]
    mod tests {
        use super::*;
        #[test]
        fn should_have_consistent_lower_and_upper_boundaries() {
            assert!
            (sym_hi_u8() >= sym_lo_u8(),
            "\nInconsistent lower and upper boundaries for type `FsU8Val`\nThe upper boundary `sym_hi_u8()` must be greater than or equal to the lower boundary `sym_lo_u8()`\nNote: the test is generated automatically by #[nutype] macro.\n");
        }
    }
}
pub use __nutype_FsU8Val__::FsU8Val;
pub use __nutype_FsU8Val__::FsU8ValError;
pub use __nutype_FsU8Val__::FsU8ValParseError;
