// NUTYPE_VERIF_INPUT #[nutype(validate(with = vfn_u8, error = MyErr), derive(Debug, FromStr))] pub struct FsU8Custom(u8);
#[doc(hidden)]
#[allow(
    non_snake_case,
    reason = "we keep original structure name which is probably CamelCase"
)]
mod __nutype_FsU8Custom__ {
    use super::*;
    #[derive(Debug)]
    pub struct FsU8Custom(u8);
    impl FsU8Custom {
        pub fn try_new(raw_value: u8) -> ::core::result::Result<Self, MyErr> {
            let sanitized_value: u8 = Self::__sanitize__(raw_value);
            #[allow(clippy::question_mark)]
            if let Err(e) = Self::__validate__(&sanitized_value) {
                return Err(e);
            }
            Ok(FsU8Custom(sanitized_value))
        }
        fn __sanitize__(mut value: u8) -> u8 {
            value
        }
        #[allow(clippy::ptr_arg)]
        fn __validate__(value: &u8) -> ::core::result::Result<(), MyErr> {
            vfn_u8(value)
        }
    }
    impl FsU8Custom {
        #[inline]
        pub fn into_inner(self) -> u8 {
            self.0
        }
    }
    #[derive(Debug)]
    pub enum FsU8CustomParseError {
        Parse(<u8 as ::core::str::FromStr>::Err),
        Validate(MyErr),
    }
    impl ::core::fmt::Display for FsU8CustomParseError {
        fn fmt(&self, formatter: &mut ::core::fmt::Formatter<'_>) -> ::core::fmt::Result {
            match *self {
                Self::Validate(ref validation_error) => formatter.write_fmt(::core::format_args!(
                    "Failed to parse {}: {}",
                    "FsU8Custom",
                    validation_error
                )),
                Self::Parse(ref parse_error) => formatter.write_fmt(::core::format_args!(
                    "Failed to parse {}: {:?}",
                    "FsU8Custom",
                    parse_error
                )),
            }
        }
    }
    impl ::core::error::Error for FsU8CustomParseError {
        fn source(&self) -> Option<&(dyn ::core::error::Error + 'static)> {
            None
        }
    }
    impl ::core::str::FromStr for FsU8Custom {
        type Err = FsU8CustomParseError;
        fn from_str(input: &str) -> ::core::result::Result<Self, FsU8CustomParseError> {
            match <u8 as ::core::str::FromStr>::from_str(input) {
                ::core::result::Result::Err(parse_error) => {
                    ::core::result::Result::Err(FsU8CustomParseError::Parse(parse_error))
                }
                ::core::result::Result::Ok(parsed_value) => match <Self>::try_new(parsed_value) {
                    ::core::result::Result::Ok(valid) => ::core::result::Result::Ok(valid),
                    ::core::result::Result::Err(validation_error) => ::core::result::Result::Err(
                        FsU8CustomParseError::Validate(validation_error),
                    ),
                },
            }
        }
    }
    #[cfg(test)]
    mod tests {
        use super::*;
    }
}
pub use __nutype_FsU8Custom__::FsU8Custom;
pub use __nutype_FsU8Custom__::FsU8CustomParseError;
