// NUTYPE_VERIF_INPUT #[nutype(sanitize(with = san_i128), derive(Debug, FromStr))] pub struct FsI128SanNov(i128);
#[doc(hidden)]
#[allow(
    non_snake_case,
    reason = "we keep original structure name which is probably CamelCase"
)]
mod __nutype_FsI128SanNov__ {
    use super::*;
    #[derive(Debug)]
    pub struct FsI128SanNov(i128);
    impl FsI128SanNov {
        pub fn new(raw_value: i128) -> Self {
            Self(Self::__sanitize__(raw_value))
        }
        fn __sanitize__(mut value: i128) -> i128 {
            value = (san_i128)(value);
            value
        }
    }
    impl FsI128SanNov {
        #[inline]
        pub fn into_inner(self) -> i128 {
            self.0
        }
    }
    #[derive(Debug)]
    pub enum FsI128SanNovParseError {
        Parse(<i128 as ::core::str::FromStr>::Err),
    }
    impl ::core::fmt::Display for FsI128SanNovParseError {
        fn fmt(&self, formatter: &mut ::core::fmt::Formatter<'_>) -> ::core::fmt::Result {
            let Self::Parse(parse_error) = self;
            formatter.write_fmt(::core::format_args!(
                "Failed to parse {}: {:?}",
                "FsI128SanNov",
                parse_error
            ))
        }
    }
    impl ::core::error::Error for FsI128SanNovParseError {
        fn source(&self) -> Option<&(dyn ::core::error::Error + 'static)> {
            None
        }
    }
    impl ::core::str::FromStr for FsI128SanNov {
        type Err = FsI128SanNovParseError;
        fn from_str(input: &str) -> ::core::result::Result<Self, FsI128SanNovParseError> {
            match <i128 as ::core::str::FromStr>::from_str(input) {
                ::core::result::Result::Ok(parsed_value) => {
                    ::core::result::Result::Ok(<Self>::new(parsed_value))
                }
                ::core::result::Result::Err(parse_error) => {
                    ::core::result::Result::Err(FsI128SanNovParseError::Parse(parse_error))
                }
            }
        }
    }
    #[cfg(test)]
    mod tests {
        use super::*;
    }
}
pub use __nutype_FsI128SanNov__::FsI128SanNov;
pub use __nutype_FsI128SanNov__::FsI128SanNovParseError;
