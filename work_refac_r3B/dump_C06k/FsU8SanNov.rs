// NUTYPE_VERIF_INPUT #[nutype(sanitize(with = san_u8), derive(Debug, FromStr))] pub struct FsU8SanNov(u8);
#[doc(hidden)]
#[allow(
    non_snake_case,
    reason = "we keep original structure name which is probably CamelCase"
)]
mod __nutype_FsU8SanNov__ {
    use super::*;
    #[derive(Debug)]
    pub struct FsU8SanNov(u8);
    impl FsU8SanNov {
        pub fn new(raw_value: u8) -> Self {
            Self(Self::__sanitize__(raw_value))
        }
        fn __sanitize__(mut value: u8) -> u8 {
            value = (san_u8)(value);
            value
        }
    }
    impl FsU8SanNov {
        #[inline]
        pub fn into_inner(self) -> u8 {
            self.0
        }
    }
    #[derive(Debug)]
    pub enum FsU8SanNovParseError {
        Parse(<u8 as ::core::str::FromStr>::Err),
    }
    impl ::core::fmt::Display for FsU8SanNovParseError {
        fn fmt(&self, formatter: &mut ::core::fmt::Formatter<'_>) -> ::core::fmt::Result {
            let Self::Parse(parse_error) = self;
            formatter.write_fmt(::core::format_args!(
                "Failed to parse {}: {:?}",
                "FsU8SanNov",
                parse_error
            ))
        }
    }
    impl ::core::error::Error for FsU8SanNovParseError {
        fn source(&self) -> Option<&(dyn ::core::error::Error + 'static)> {
            None
        }
    }
    impl ::core::str::FromStr for FsU8SanNov {
        type Err = FsU8SanNovParseError;
        fn from_str(input: &str) -> ::core::result::Result<Self, FsU8SanNovParseError> {
            match <u8 as ::core::str::FromStr>::from_str(input) {
                ::core::result::Result::Ok(parsed_value) => {
                    ::core::result::Result::Ok(<Self>::new(parsed_value))
                }
                ::core::result::Result::Err(parse_error) => {
                    ::core::result::Result::Err(FsU8SanNovParseError::Parse(parse_error))
                }
            }
        }
    }
    #[cfg(test)]
    mod tests {
        use super::*;
    }
}
pub use __nutype_FsU8SanNov__::FsU8SanNov;
pub use __nutype_FsU8SanNov__::FsU8SanNovParseError;
