// NUTYPE_VERIF_INPUT #[nutype(validate(with = vfn_f32, error = MyErr), derive(Debug, FromStr))] pub struct FsF32Custom(f32);
#[doc(hidden)]
#[allow(
    non_snake_case,
    reason = "we keep original structure name which is probably CamelCase"
)]
mod __nutype_FsF32Custom__ {
    use super::*;
    #[derive(Debug)]
    pub struct FsF32Custom(f32);
    impl FsF32Custom {
        pub fn try_new(raw_value: f32) -> ::core::result::Result<Self, MyErr> {
            let sanitized_value: f32 = Self::__sanitize__(raw_value);
            #[allow(clippy::question_mark)]
            if let Err(e) = Self::__validate__(&sanitized_value) {
                return Err(e);
            }
            Ok(FsF32Custom(sanitized_value))
        }
        fn __sanitize__(mut value: f32) -> f32 {
            value
        }
        #[allow(clippy::ptr_arg)]
        fn __validate__(value: &f32) -> ::core::result::Result<(), MyErr> {
            vfn_f32(value)
        }
    }
    impl FsF32Custom {
        #[inline]
        pub fn into_inner(self) -> f32 {
            self.0
        }
    }
    #[derive(Debug)]
    pub enum FsF32CustomParseError {
        Parse(<f32 as ::core::str::FromStr>::Err),
        Validate(MyErr),
    }
    impl ::core::fmt::Display for FsF32CustomParseError {
        fn fmt(&self, formatter: &mut ::core::fmt::Formatter<'_>) -> ::core::fmt::Result {
            match *self {
                Self::Validate(ref validation_error) => formatter.write_fmt(::core::format_args!(
                    "Failed to parse {}: {}",
                    "FsF32Custom",
                    validation_error
                )),
                Self::Parse(ref parse_error) => formatter.write_fmt(::core::format_args!(
                    "Failed to parse {}: {:?}",
                    "FsF32Custom",
                    parse_error
                )),
            }
        }
    }
    impl ::core::error::Error for FsF32CustomParseError {
        fn source(&self) -> Option<&(dyn ::core::error::Error + 'static)> {
            None
        }
    }
    impl ::core::str::FromStr for FsF32Custom {
        type Err = FsF32CustomParseError;
        fn from_str(input: &str) -> ::core::result::Result<Self, FsF32CustomParseError> {
            match <f32 as ::core::str::FromStr>::from_str(input) {
                ::core::result::Result::Err(parse_error) => {
                    ::core::result::Result::Err(FsF32CustomParseError::Parse(parse_error))
                }
                ::core::result::Result::Ok(parsed_value) => match <Self>::try_new(parsed_value) {
                    ::core::result::Result::Ok(valid) => ::core::result::Result::Ok(valid),
                    ::core::result::Result::Err(validation_error) => ::core::result::Result::Err(
                        FsF32CustomParseError::Validate(validation_error),
                    ),
                },
            }
        }
    }
    #[cfg(test)]
    mod tests {
        use super::*;
    }
}
pub use __nutype_FsF32Custom__::FsF32Custom;
pub use __nutype_FsF32Custom__::FsF32CustomParseError;
