// NUTYPE_VERIF_INPUT #[nutype(validate(finite, greater_or_equal = sym_lo_f64(), less = sym_hi_f64()), derive(Debug, FromStr))] pub struct FsF64Val(f64);
#[doc(hidden)]
#[allow(
    non_snake_case,
    reason = "we keep original structure name which is probably CamelCase"
)]
mod __nutype_FsF64Val__ {
    use super::*;
    #[derive(Debug)]
    pub struct FsF64Val(f64);
    #[derive(Debug, Clone, PartialEq, Eq)]
    #[allow(clippy::enum_variant_names)]
    pub enum FsF64ValError {
        FiniteViolated,
        GreaterOrEqualViolated,
        LessViolated,
    }
    impl ::core::fmt::Display for FsF64ValError {
        fn fmt(&self, f: &mut ::core::fmt::Formatter<'_>) -> ::core::fmt::Result {
            match self {
                FsF64ValError::FiniteViolated => {
                    write!(f, "{} is not finite.", stringify!(FsF64Val))
                }
                FsF64ValError::GreaterOrEqualViolated => write!(
                    f,
                    "{} is too small. The value must be greater or equal to {:#?}.",
                    stringify!(FsF64Val),
                    sym_lo_f64()
                ),
                FsF64ValError::LessViolated => write!(
                    f,
                    "{} is too big. The value must be less than {:#?}.",
                    stringify!(FsF64Val),
                    sym_hi_f64()
                ),
            }
        }
    }
    impl ::core::error::Error for FsF64ValError {
        fn source(&self) -> Option<&(dyn ::core::error::Error + 'static)> {
            None
        }
    }
    impl FsF64Val {
        pub fn try_new(raw_value: f64) -> ::core::result::Result<Self, FsF64ValError> {
            let sanitized_value: f64 = Self::__sanitize__(raw_value);
            #[allow(clippy::question_mark)]
            if let Err(e) = Self::__validate__(&sanitized_value) {
                return Err(e);
            }
            Ok(FsF64Val(sanitized_value))
        }
        fn __sanitize__(mut value: f64) -> f64 {
            value
        }
        fn __validate__(val: &f64) -> core::result::Result<(), FsF64ValError> {
            let val = *val;
            if !val.is_finite() {
                return Err(FsF64ValError::FiniteViolated);
            }
            if val < sym_lo_f64() {
                return Err(FsF64ValError::GreaterOrEqualViolated);
            }
            if val >= sym_hi_f64() {
                return Err(FsF64ValError::LessViolated);
            }
            Ok(())
        }
    }
    impl FsF64Val {
        #[inline]
        pub fn into_inner(self) -> f64 {
            self.0
        }
    }
    #[derive(Debug)]
    pub enum FsF64ValParseError {
        Parse(<f64 as ::core::str::FromStr>::Err),
        Validate(FsF64ValError),
    }
    impl ::core::fmt::Display for FsF64ValParseError {
        fn fmt(&self, formatter: &mut ::core::fmt::Formatter<'_>) -> ::core::fmt::Result {
            match *self {
                Self::Validate(ref validation_error) => formatter.write_fmt(::core::format_args!(
                    "Failed to parse {}: {}",
                    "FsF64Val",
                    validation_error
                )),
                Self::Parse(ref parse_error) => formatter.write_fmt(::core::format_args!(
                    "Failed to parse {}: {:?}",
                    "FsF64Val",
                    parse_error
                )),
            }
        }
    }
    impl ::core::error::Error for FsF64ValParseError {
        fn source(&self) -> Option<&(dyn ::core::error::Error + 'static)> {
            None
        }
    }
    impl ::core::str::FromStr for FsF64Val {
        type Err = FsF64ValParseError;
        fn from_str(input: &str) -> ::core::result::Result<Self, FsF64ValParseError> {
            match <f64 as ::core::str::FromStr>::from_str(input) {
                ::core::result::Result::Err(parse_error) => {
                    ::core::result::Result::Err(FsF64ValParseError::Parse(parse_error))
                }
                ::core::result::Result::Ok(parsed_value) => match <Self>::try_new(parsed_value) {
                    ::core::result::Result::Ok(valid) => ::core::result::Result::Ok(valid),
                    ::core::result::Result::Err(validation_error) => {
                        ::core::result::Result::Err(FsF64ValParseError::Validate(validation_error))
                    }
                },
            }
        }
    }
    #[cfg(test)]
    mod tests {
        use super::*;
        #[test]
        fn should_have_consistent_lower_and_upper_boundaries() {
            assert!
            (sym_hi_f64() >= sym_lo_f64(),
            "\nInconsistent lower and upper boundaries for type `FsF64Val`\nThe upper boundary `sym_hi_f64()` must be greater than or equal to the lower boundary `sym_lo_f64()`\nNote: the test is generated automatically by #[nutype] macro.\n");
        }
    }
}
pub use __nutype_FsF64Val__::FsF64Val;
pub use __nutype_FsF64Val__::FsF64ValError;
pub use __nutype_FsF64Val__::FsF64ValParseError;
