// NUTYPE_VERIF_INPUT #[nutype(validate(greater_or_equal = sym_lo_usize(), less = sym_hi_usize()), derive(Debug, FromStr))] pub struct FsUsizeVal(usize);
#[doc(hidden)]
#[allow(
    non_snake_case,
    reason = "we keep original structure name which is probably CamelCase"
)]
mod __nutype_FsUsizeVal__ {
    use super::*;
    #[derive(Debug)]
    pub struct FsUsizeVal(usize);
    #[derive(Debug, Clone, PartialEq, Eq)]
    #[allow(clippy::enum_variant_names)]
    pub enum FsUsizeValError {
        GreaterOrEqualViolated,
        LessViolated,
    }
    impl ::core::fmt::Display for FsUsizeValError {
        fn fmt(&self, f: &mut ::core::fmt::Formatter<'_>) -> ::core::fmt::Result {
            match self {
                FsUsizeValError::GreaterOrEqualViolated => write!(
                    f,
                    "{} is too small. The value must be greater or equal to {:#?}.",
                    stringify!(FsUsizeVal),
                    sym_lo_usize()
                ),
                FsUsizeValError::LessViolated => write!(
                    f,
                    "{} is too big. The value must be less than {:#?}.",
                    stringify!(FsUsizeVal),
                    sym_hi_usize()
                ),
            }
        }
    }
    impl ::core::error::Error for FsUsizeValError {
        fn source(&self) -> Option<&(dyn ::core::error::Error + 'static)> {
            None
        }
    }
    impl FsUsizeVal {
        pub fn try_new(raw_value: usize) -> ::core::result::Result<Self, FsUsizeValError> {
            let sanitized_value: usize = Self::__sanitize__(raw_value);
            #[allow(clippy::question_mark)]
            if let Err(e) = Self::__validate__(&sanitized_value) {
                return Err(e);
            }
            Ok(FsUsizeVal(sanitized_value))
        }
        fn __sanitize__(mut value: usize) -> usize {
            value
        }
        fn __validate__(val: &usize) -> ::core::result::Result<(), FsUsizeValError> {
            let val = *val;
            if val < sym_lo_usize() {
                return Err(FsUsizeValError::GreaterOrEqualViolated);
            }
            if val >= sym_hi_usize() {
                return Err(FsUsizeValError::LessViolated);
            }
            Ok(())
        }
    }
    impl FsUsizeVal {
        #[inline]
        pub fn into_inner(self) -> usize {
            self.0
        }
    }
    #[derive(Debug)]
    pub enum FsUsizeValParseError {
        Parse(<usize as ::core::str::FromStr>::Err),
        Validate(FsUsizeValError),
    }
    impl ::core::fmt::Display for FsUsizeValParseError {
        fn fmt(&self, formatter: &mut ::core::fmt::Formatter<'_>) -> ::core::fmt::Result {
            match *self {
                Self::Validate(ref validation_error) => formatter.write_fmt(::core::format_args!(
                    "Failed to parse {}: {}",
                    "FsUsizeVal",
                    validation_error
                )),
                Self::Parse(ref parse_error) => formatter.write_fmt(::core::format_args!(
                    "Failed to parse {}: {:?}",
                    "FsUsizeVal",
                    parse_error
                )),
            }
        }
    }
    impl ::core::error::Error for FsUsizeValParseError {
        fn source(&self) -> Option<&(dyn ::core::error::Error + 'static)> {
            None
        }
    }
    impl ::core::str::FromStr for FsUsizeVal {
        type Err = FsUsizeValParseError;
        fn from_str(input: &str) -> ::core::result::Result<Self, FsUsizeValParseError> {
            match <usize as ::core::str::FromStr>::from_str(input) {
                ::core::result::Result::Err(parse_error) => {
                    ::core::result::Result::Err(FsUsizeValParseError::Parse(parse_error))
                }
                ::core::result::Result::Ok(parsed_value) => match <Self>::try_new(parsed_value) {
                    ::core::result::Result::Ok(valid) => ::core::result::Result::Ok(valid),
                    ::core::result::Result::Err(validation_error) => ::core::result::Result::Err(
                        FsUsizeValParseError::Validate(validation_error),
                    ),
                },
            }
        }
    }
    #[cfg(test)]
    mod tests {
        use super::*;
        #[test]
        fn should_have_consistent_lower_and_upper_boundaries() {
            assert!
            (sym_hi_usize() >= sym_lo_usize(),
            "\nInconsistent lower and upper boundaries for type `FsUsizeVal`\nThe upper boundary `sym_hi_usize()` must be greater than or equal to the lower boundary `sym_lo_usize()`\nNote: the test is generated automatically by #[nutype] macro.\n");
        }
    }
}
pub use __nutype_FsUsizeVal__::FsUsizeVal;
pub use __nutype_FsUsizeVal__::FsUsizeValError;
pub use __nutype_FsUsizeVal__::FsUsizeValParseError;
