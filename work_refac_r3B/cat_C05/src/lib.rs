#![allow(dead_code, unused_imports, unused_variables, unused_mut, non_snake_case, non_upper_case_globals, clippy::all)]
use nutype::nutype;
#[derive(Debug, Clone, Copy, PartialEq, Eq)]
pub enum MyErr { Bad, Worse }
impl ::core::fmt::Display for MyErr { fn fmt(&self, f: &mut ::core::fmt::Formatter<'_>) -> ::core::fmt::Result { write!(f, "my err") } }
impl ::core::error::Error for MyErr {}
#[derive(Debug, Clone, Copy, PartialEq, Eq, PartialOrd, Ord, Hash, Default)]
pub struct Point { pub x: i32, pub y: i32 }
pub fn sym_lo_u8() -> u8 { 3 }
pub fn sym_hi_u8() -> u8 { 100 }
pub const fn pred_u8(x: &u8) -> bool { *x != 7 }
pub fn vfn_u8(x: &u8) -> Result<(), MyErr> { if *x != 7 { Ok(()) } else { Err(MyErr::Bad) } }
pub const fn san_u8(x: u8) -> u8 { if x > 50 { 50 } else { x } }
pub fn san2_u8(x: u8) -> u8 { if x < (1 as u8) { 1 as u8 } else { x } }
pub fn sym_lo_u16() -> u16 { 3 }
pub fn sym_hi_u16() -> u16 { 100 }
pub const fn pred_u16(x: &u16) -> bool { *x != 7 }
pub fn vfn_u16(x: &u16) -> Result<(), MyErr> { if *x != 7 { Ok(()) } else { Err(MyErr::Bad) } }
pub const fn san_u16(x: u16) -> u16 { if x > 50 { 50 } else { x } }
pub fn san2_u16(x: u16) -> u16 { if x < (1 as u16) { 1 as u16 } else { x } }
pub fn sym_lo_u32() -> u32 { 3 }
pub fn sym_hi_u32() -> u32 { 100 }
pub const fn pred_u32(x: &u32) -> bool { *x != 7 }
pub fn vfn_u32(x: &u32) -> Result<(), MyErr> { if *x != 7 { Ok(()) } else { Err(MyErr::Bad) } }
pub const fn san_u32(x: u32) -> u32 { if x > 50 { 50 } else { x } }
pub fn san2_u32(x: u32) -> u32 { if x < (1 as u32) { 1 as u32 } else { x } }
pub fn sym_lo_u64() -> u64 { 3 }
pub fn sym_hi_u64() -> u64 { 100 }
pub const fn pred_u64(x: &u64) -> bool { *x != 7 }
pub fn vfn_u64(x: &u64) -> Result<(), MyErr> { if *x != 7 { Ok(()) } else { Err(MyErr::Bad) } }
pub const fn san_u64(x: u64) -> u64 { if x > 50 { 50 } else { x } }
pub fn san2_u64(x: u64) -> u64 { if x < (1 as u64) { 1 as u64 } else { x } }
pub fn sym_lo_u128() -> u128 { 3 }
pub fn sym_hi_u128() -> u128 { 100 }
pub const fn pred_u128(x: &u128) -> bool { *x != 7 }
pub fn vfn_u128(x: &u128) -> Result<(), MyErr> { if *x != 7 { Ok(()) } else { Err(MyErr::Bad) } }
pub const fn san_u128(x: u128) -> u128 { if x > 50 { 50 } else { x } }
pub fn san2_u128(x: u128) -> u128 { if x < (1 as u128) { 1 as u128 } else { x } }
pub fn sym_lo_usize() -> usize { 3 }
pub fn sym_hi_usize() -> usize { 100 }
pub const fn pred_usize(x: &usize) -> bool { *x != 7 }
pub fn vfn_usize(x: &usize) -> Result<(), MyErr> { if *x != 7 { Ok(()) } else { Err(MyErr::Bad) } }
pub const fn san_usize(x: usize) -> usize { if x > 50 { 50 } else { x } }
pub fn san2_usize(x: usize) -> usize { if x < (1 as usize) { 1 as usize } else { x } }
pub fn sym_lo_i8() -> i8 { 3 }
pub fn sym_hi_i8() -> i8 { 100 }
pub const fn pred_i8(x: &i8) -> bool { *x != 7 }
pub fn vfn_i8(x: &i8) -> Result<(), MyErr> { if *x != 7 { Ok(()) } else { Err(MyErr::Bad) } }
pub const fn san_i8(x: i8) -> i8 { if x > 50 { 50 } else { x } }
pub fn san2_i8(x: i8) -> i8 { if x < (1 as i8) { 1 as i8 } else { x } }
pub fn sym_lo_i16() -> i16 { 3 }
pub fn sym_hi_i16() -> i16 { 100 }
pub const fn pred_i16(x: &i16) -> bool { *x != 7 }
pub fn vfn_i16(x: &i16) -> Result<(), MyErr> { if *x != 7 { Ok(()) } else { Err(MyErr::Bad) } }
pub const fn san_i16(x: i16) -> i16 { if x > 50 { 50 } else { x } }
pub fn san2_i16(x: i16) -> i16 { if x < (1 as i16) { 1 as i16 } else { x } }
pub fn sym_lo_i32() -> i32 { 3 }
pub fn sym_hi_i32() -> i32 { 100 }
pub const fn pred_i32(x: &i32) -> bool { *x != 7 }
pub fn vfn_i32(x: &i32) -> Result<(), MyErr> { if *x != 7 { Ok(()) } else { Err(MyErr::Bad) } }
pub const fn san_i32(x: i32) -> i32 { if x > 50 { 50 } else { x } }
pub fn san2_i32(x: i32) -> i32 { if x < (1 as i32) { 1 as i32 } else { x } }
pub fn sym_lo_i64() -> i64 { 3 }
pub fn sym_hi_i64() -> i64 { 100 }
pub const fn pred_i64(x: &i64) -> bool { *x != 7 }
pub fn vfn_i64(x: &i64) -> Result<(), MyErr> { if *x != 7 { Ok(()) } else { Err(MyErr::Bad) } }
pub const fn san_i64(x: i64) -> i64 { if x > 50 { 50 } else { x } }
pub fn san2_i64(x: i64) -> i64 { if x < (1 as i64) { 1 as i64 } else { x } }
pub fn sym_lo_i128() -> i128 { 3 }
pub fn sym_hi_i128() -> i128 { 100 }
pub const fn pred_i128(x: &i128) -> bool { *x != 7 }
pub fn vfn_i128(x: &i128) -> Result<(), MyErr> { if *x != 7 { Ok(()) } else { Err(MyErr::Bad) } }
pub const fn san_i128(x: i128) -> i128 { if x > 50 { 50 } else { x } }
pub fn san2_i128(x: i128) -> i128 { if x < (1 as i128) { 1 as i128 } else { x } }
pub fn sym_lo_isize() -> isize { 3 }
pub fn sym_hi_isize() -> isize { 100 }
pub const fn pred_isize(x: &isize) -> bool { *x != 7 }
pub fn vfn_isize(x: &isize) -> Result<(), MyErr> { if *x != 7 { Ok(()) } else { Err(MyErr::Bad) } }
pub const fn san_isize(x: isize) -> isize { if x > 50 { 50 } else { x } }
pub fn san2_isize(x: isize) -> isize { if x < (1 as isize) { 1 as isize } else { x } }
pub fn sym_len_lo() -> usize { 2 }
pub fn sym_len_hi() -> usize { 8 }
pub fn pred_s(s: &str) -> bool { !s.contains('@') }
pub fn san_s(s: String) -> String { s.replace('-', "") }
pub fn vfn_s(s: &str) -> Result<(), MyErr> { if s.contains('@') { Err(MyErr::Bad) } else { Ok(()) } }
pub fn pred_point(p: &Point) -> bool { p.x <= p.y }
pub fn san_point(p: Point) -> Point { Point { x: p.x.clamp(0, 100), y: p.y.clamp(0, 100) } }
pub fn vfn_point(p: &Point) -> Result<(), MyErr> { if p.x <= p.y { Ok(()) } else { Err(MyErr::Worse) } }
pub fn pred_pair(x: &(i32, u8)) -> bool { true }
pub fn san_pair(x: (i32, u8)) -> (i32, u8) { x }
pub fn pred_opt(x: &Option<i64>) -> bool { true }
pub fn san_opt(x: Option<i64>) -> Option<i64> { x }
pub fn pred_vec<T>(v: &Vec<T>) -> bool { !v.is_empty() }
pub fn san_vec<T: Ord>(mut v: Vec<T>) -> Vec<T> { v.sort(); v }
pub fn vfn_vec<T>(v: &Vec<T>) -> Result<(), MyErr> { if v.is_empty() { Err(MyErr::Bad) } else { Ok(()) } }

pub mod d_int_u8_greater_sym {
    use super::*;
    #[nutype(validate(greater = sym_lo_u8()), derive(Debug, Clone, Copy, PartialEq, Eq, AsRef, Deref, Borrow, Into, TryFrom, FromStr, Display))]
    pub struct IntU8GreaterSym(u8);
}
pub mod d_int_u8_greater_or_equal_sym {
    use super::*;
    #[nutype(validate(greater_or_equal = sym_lo_u8()), derive(Debug, Clone, Copy, PartialEq, Eq, AsRef, Deref, Borrow, Into, TryFrom, FromStr, Display))]
    pub struct IntU8GreaterOrEqualSym(u8);
}
pub mod d_int_u8_less_sym {
    use super::*;
    #[nutype(validate(less = sym_hi_u8()), derive(Debug, Clone, Copy, PartialEq, Eq, AsRef, Deref, Borrow, Into, TryFrom, FromStr, Display))]
    pub struct IntU8LessSym(u8);
}
pub mod d_int_u8_less_or_equal_sym {
    use super::*;
    #[nutype(validate(less_or_equal = sym_hi_u8()), derive(Debug, Clone, Copy, PartialEq, Eq, AsRef, Deref, Borrow, Into, TryFrom, FromStr, Display))]
    pub struct IntU8LessOrEqualSym(u8);
}
pub mod d_int_u8_greater_less_sym {
    use super::*;
    #[nutype(validate(greater = sym_lo_u8(), less = sym_hi_u8()), derive(Debug, Clone, Copy, PartialEq, Eq, AsRef, Deref, Borrow, Into, TryFrom))]
    pub struct IntU8GreaterLessSym(u8);
}
pub mod d_int_u8_greater_less_or_equal_sym {
    use super::*;
    #[nutype(validate(greater = sym_lo_u8(), less_or_equal = sym_hi_u8()), derive(Debug, Clone, Copy, PartialEq, Eq, AsRef, Deref, Borrow, Into, TryFrom))]
    pub struct IntU8GreaterLessOrEqualSym(u8);
}
pub mod d_int_u8_greater_or_equal_less_sym {
    use super::*;
    #[nutype(validate(greater_or_equal = sym_lo_u8(), less = sym_hi_u8()), derive(Debug, Clone, Copy, PartialEq, Eq, AsRef, Deref, Borrow, Into, TryFrom))]
    pub struct IntU8GreaterOrEqualLessSym(u8);
}
pub mod d_int_u8_greater_or_equal_less_or_equal_sym {
    use super::*;
    #[nutype(validate(greater_or_equal = sym_lo_u8(), less_or_equal = sym_hi_u8()), derive(Debug, Clone, Copy, PartialEq, Eq, AsRef, Deref, Borrow, Into, TryFrom))]
    pub struct IntU8GreaterOrEqualLessOrEqualSym(u8);
}
pub mod d_int_u8_le_pred_ge_sym {
    use super::*;
    #[nutype(validate(less_or_equal = sym_hi_u8(), predicate = pred_u8, greater_or_equal = sym_lo_u8()), derive(Debug, TryFrom))]
    pub struct IntU8LePredGeSym(u8);
}
pub mod d_int_u8_custom {
    use super::*;
    #[nutype(validate(with = vfn_u8, error = MyErr), derive(Debug, TryFrom, AsRef))]
    pub struct IntU8Custom(u8);
}
pub mod d_int_u8_san_le {
    use super::*;
    #[nutype(sanitize(with = san_u8), validate(less_or_equal = sym_hi_u8()), derive(Debug, TryFrom, Into))]
    pub struct IntU8SanLe(u8);
}
pub mod d_int_u8_san2_nov {
    use super::*;
    #[nutype(sanitize(with = san2_u8), derive(Debug, From, Into, Deref, Default), default = 7)]
    pub struct IntU8San2Nov(u8);
}
pub mod d_int_u8_san_nov_tf {
    use super::*;
    #[nutype(sanitize(with = san_u8), derive(Debug, TryFrom, Into, AsRef))]
    pub struct IntU8SanNovTf(u8);
}
pub mod d_int_u8_greater_or_equal_lit_min {
    use super::*;
    #[nutype(validate(greater_or_equal = 0), derive(Debug, TryFrom))]
    pub struct IntU8GreaterOrEqualLitMin(u8);
}
pub mod d_int_u8_greater_lit_min1 {
    use super::*;
    #[nutype(validate(greater = 0), derive(Debug, TryFrom))]
    pub struct IntU8GreaterLitMin1(u8);
}
pub mod d_int_u8_less_or_equal_lit_max {
    use super::*;
    #[nutype(validate(less_or_equal = 255), derive(Debug, TryFrom))]
    pub struct IntU8LessOrEqualLitMax(u8);
}
pub mod d_int_u8_less_lit_max1 {
    use super::*;
    #[nutype(validate(less = 255), derive(Debug, TryFrom))]
    pub struct IntU8LessLitMax1(u8);
}
pub mod d_int_u8_greater_lit_zero {
    use super::*;
    #[nutype(validate(greater = 0), derive(Debug, TryFrom))]
    pub struct IntU8GreaterLitZero(u8);
}
pub mod d_int_u8_less_or_equal_lit_one {
    use super::*;
    #[nutype(validate(less_or_equal = 1), derive(Debug, TryFrom))]
    pub struct IntU8LessOrEqualLitOne(u8);
}
pub mod d_int_u8_greater_lit_max_m1 {
    use super::*;
    #[nutype(validate(greater = 254), derive(Debug, TryFrom))]
    pub struct IntU8GreaterLitMaxM1(u8);
}
pub mod d_int_u8_ge_le_lit {
    use super::*;
    #[nutype(validate(greater_or_equal = 1, less_or_equal = 100), derive(Debug, Clone, Copy, PartialEq, Eq, AsRef, Deref, Borrow, Into, TryFrom))]
    pub struct IntU8GeLeLit(u8);
}
pub mod d_int_u8_san_pred_le_const {
    use super::*;
    #[nutype(const_fn, sanitize(with = san_u8), validate(predicate = pred_u8, less_or_equal = 100), derive(Debug, Clone, Copy, TryFrom, Into))]
    pub struct IntU8SanPredLeConst(u8);
}
pub mod d_int_u8_ge_le_lit_const {
    use super::*;
    #[nutype(const_fn, validate(greater_or_equal = 1, less_or_equal = 100), derive(Debug, Clone, Copy, TryFrom, Into))]
    pub struct IntU8GeLeLitConst(u8);
}
pub mod d_int_u16_greater_sym {
    use super::*;
    #[nutype(validate(greater = sym_lo_u16()), derive(Debug, Clone, Copy, PartialEq, Eq, AsRef, Deref, Borrow, Into, TryFrom, FromStr, Display))]
    pub struct IntU16GreaterSym(u16);
}
pub mod d_int_u16_greater_or_equal_sym {
    use super::*;
    #[nutype(validate(greater_or_equal = sym_lo_u16()), derive(Debug, Clone, Copy, PartialEq, Eq, AsRef, Deref, Borrow, Into, TryFrom, FromStr, Display))]
    pub struct IntU16GreaterOrEqualSym(u16);
}
pub mod d_int_u16_less_sym {
    use super::*;
    #[nutype(validate(less = sym_hi_u16()), derive(Debug, Clone, Copy, PartialEq, Eq, AsRef, Deref, Borrow, Into, TryFrom, FromStr, Display))]
    pub struct IntU16LessSym(u16);
}
pub mod d_int_u16_less_or_equal_sym {
    use super::*;
    #[nutype(validate(less_or_equal = sym_hi_u16()), derive(Debug, Clone, Copy, PartialEq, Eq, AsRef, Deref, Borrow, Into, TryFrom, FromStr, Display))]
    pub struct IntU16LessOrEqualSym(u16);
}
pub mod d_int_u16_greater_less_sym {
    use super::*;
    #[nutype(validate(greater = sym_lo_u16(), less = sym_hi_u16()), derive(Debug, Clone, Copy, PartialEq, Eq, AsRef, Deref, Borrow, Into, TryFrom))]
    pub struct IntU16GreaterLessSym(u16);
}
pub mod d_int_u16_greater_less_or_equal_sym {
    use super::*;
    #[nutype(validate(greater = sym_lo_u16(), less_or_equal = sym_hi_u16()), derive(Debug, Clone, Copy, PartialEq, Eq, AsRef, Deref, Borrow, Into, TryFrom))]
    pub struct IntU16GreaterLessOrEqualSym(u16);
}
pub mod d_int_u16_greater_or_equal_less_sym {
    use super::*;
    #[nutype(validate(greater_or_equal = sym_lo_u16(), less = sym_hi_u16()), derive(Debug, Clone, Copy, PartialEq, Eq, AsRef, Deref, Borrow, Into, TryFrom))]
    pub struct IntU16GreaterOrEqualLessSym(u16);
}
pub mod d_int_u16_greater_or_equal_less_or_equal_sym {
    use super::*;
    #[nutype(validate(greater_or_equal = sym_lo_u16(), less_or_equal = sym_hi_u16()), derive(Debug, Clone, Copy, PartialEq, Eq, AsRef, Deref, Borrow, Into, TryFrom))]
    pub struct IntU16GreaterOrEqualLessOrEqualSym(u16);
}
pub mod d_int_u16_le_pred_ge_sym {
    use super::*;
    #[nutype(validate(less_or_equal = sym_hi_u16(), predicate = pred_u16, greater_or_equal = sym_lo_u16()), derive(Debug, TryFrom))]
    pub struct IntU16LePredGeSym(u16);
}
pub mod d_int_u16_custom {
    use super::*;
    #[nutype(validate(with = vfn_u16, error = MyErr), derive(Debug, TryFrom, AsRef))]
    pub struct IntU16Custom(u16);
}
pub mod d_int_u16_san_le {
    use super::*;
    #[nutype(sanitize(with = san_u16), validate(less_or_equal = sym_hi_u16()), derive(Debug, TryFrom, Into))]
    pub struct IntU16SanLe(u16);
}
pub mod d_int_u16_san2_nov {
    use super::*;
    #[nutype(sanitize(with = san2_u16), derive(Debug, From, Into, Deref, Default), default = 7)]
    pub struct IntU16San2Nov(u16);
}
pub mod d_int_u16_san_nov_tf {
    use super::*;
    #[nutype(sanitize(with = san_u16), derive(Debug, TryFrom, Into, AsRef))]
    pub struct IntU16SanNovTf(u16);
}
pub mod d_int_u16_greater_or_equal_lit_min {
    use super::*;
    #[nutype(validate(greater_or_equal = 0), derive(Debug, TryFrom))]
    pub struct IntU16GreaterOrEqualLitMin(u16);
}
pub mod d_int_u16_greater_lit_min1 {
    use super::*;
    #[nutype(validate(greater = 0), derive(Debug, TryFrom))]
    pub struct IntU16GreaterLitMin1(u16);
}
pub mod d_int_u16_less_or_equal_lit_max {
    use super::*;
    #[nutype(validate(less_or_equal = 65535), derive(Debug, TryFrom))]
    pub struct IntU16LessOrEqualLitMax(u16);
}
pub mod d_int_u16_less_lit_max1 {
    use super::*;
    #[nutype(validate(less = 65535), derive(Debug, TryFrom))]
    pub struct IntU16LessLitMax1(u16);
}
pub mod d_int_u16_greater_lit_zero {
    use super::*;
    #[nutype(validate(greater = 0), derive(Debug, TryFrom))]
    pub struct IntU16GreaterLitZero(u16);
}
pub mod d_int_u16_less_or_equal_lit_one {
    use super::*;
    #[nutype(validate(less_or_equal = 1), derive(Debug, TryFrom))]
    pub struct IntU16LessOrEqualLitOne(u16);
}
pub mod d_int_u16_greater_lit_max_m1 {
    use super::*;
    #[nutype(validate(greater = 65534), derive(Debug, TryFrom))]
    pub struct IntU16GreaterLitMaxM1(u16);
}
pub mod d_int_u16_ge_le_lit {
    use super::*;
    #[nutype(validate(greater_or_equal = 1, less_or_equal = 100), derive(Debug, Clone, Copy, PartialEq, Eq, AsRef, Deref, Borrow, Into, TryFrom))]
    pub struct IntU16GeLeLit(u16);
}
pub mod d_int_u16_san_pred_le_const {
    use super::*;
    #[nutype(const_fn, sanitize(with = san_u16), validate(predicate = pred_u16, less_or_equal = 100), derive(Debug, Clone, Copy, TryFrom, Into))]
    pub struct IntU16SanPredLeConst(u16);
}
pub mod d_int_u16_ge_le_lit_const {
    use super::*;
    #[nutype(const_fn, validate(greater_or_equal = 1, less_or_equal = 100), derive(Debug, Clone, Copy, TryFrom, Into))]
    pub struct IntU16GeLeLitConst(u16);
}
pub mod d_int_u32_greater_sym {
    use super::*;
    #[nutype(validate(greater = sym_lo_u32()), derive(Debug, Clone, Copy, PartialEq, Eq, AsRef, Deref, Borrow, Into, TryFrom, FromStr, Display))]
    pub struct IntU32GreaterSym(u32);
}
pub mod d_int_u32_greater_or_equal_sym {
    use super::*;
    #[nutype(validate(greater_or_equal = sym_lo_u32()), derive(Debug, Clone, Copy, PartialEq, Eq, AsRef, Deref, Borrow, Into, TryFrom, FromStr, Display))]
    pub struct IntU32GreaterOrEqualSym(u32);
}
pub mod d_int_u32_less_sym {
    use super::*;
    #[nutype(validate(less = sym_hi_u32()), derive(Debug, Clone, Copy, PartialEq, Eq, AsRef, Deref, Borrow, Into, TryFrom, FromStr, Display))]
    pub struct IntU32LessSym(u32);
}
pub mod d_int_u32_less_or_equal_sym {
    use super::*;
    #[nutype(validate(less_or_equal = sym_hi_u32()), derive(Debug, Clone, Copy, PartialEq, Eq, AsRef, Deref, Borrow, Into, TryFrom, FromStr, Display))]
    pub struct IntU32LessOrEqualSym(u32);
}
pub mod d_int_u32_greater_less_sym {
    use super::*;
    #[nutype(validate(greater = sym_lo_u32(), less = sym_hi_u32()), derive(Debug, Clone, Copy, PartialEq, Eq, AsRef, Deref, Borrow, Into, TryFrom))]
    pub struct IntU32GreaterLessSym(u32);
}
pub mod d_int_u32_greater_less_or_equal_sym {
    use super::*;
    #[nutype(validate(greater = sym_lo_u32(), less_or_equal = sym_hi_u32()), derive(Debug, Clone, Copy, PartialEq, Eq, AsRef, Deref, Borrow, Into, TryFrom))]
    pub struct IntU32GreaterLessOrEqualSym(u32);
}
pub mod d_int_u32_greater_or_equal_less_sym {
    use super::*;
    #[nutype(validate(greater_or_equal = sym_lo_u32(), less = sym_hi_u32()), derive(Debug, Clone, Copy, PartialEq, Eq, AsRef, Deref, Borrow, Into, TryFrom))]
    pub struct IntU32GreaterOrEqualLessSym(u32);
}
pub mod d_int_u32_greater_or_equal_less_or_equal_sym {
    use super::*;
    #[nutype(validate(greater_or_equal = sym_lo_u32(), less_or_equal = sym_hi_u32()), derive(Debug, Clone, Copy, PartialEq, Eq, AsRef, Deref, Borrow, Into, TryFrom))]
    pub struct IntU32GreaterOrEqualLessOrEqualSym(u32);
}
pub mod d_int_u32_le_pred_ge_sym {
    use super::*;
    #[nutype(validate(less_or_equal = sym_hi_u32(), predicate = pred_u32, greater_or_equal = sym_lo_u32()), derive(Debug, TryFrom))]
    pub struct IntU32LePredGeSym(u32);
}
pub mod d_int_u32_custom {
    use super::*;
    #[nutype(validate(with = vfn_u32, error = MyErr), derive(Debug, TryFrom, AsRef))]
    pub struct IntU32Custom(u32);
}
pub mod d_int_u32_san_le {
    use super::*;
    #[nutype(sanitize(with = san_u32), validate(less_or_equal = sym_hi_u32()), derive(Debug, TryFrom, Into))]
    pub struct IntU32SanLe(u32);
}
pub mod d_int_u32_san2_nov {
    use super::*;
    #[nutype(sanitize(with = san2_u32), derive(Debug, From, Into, Deref, Default), default = 7)]
    pub struct IntU32San2Nov(u32);
}
pub mod d_int_u32_san_nov_tf {
    use super::*;
    #[nutype(sanitize(with = san_u32), derive(Debug, TryFrom, Into, AsRef))]
    pub struct IntU32SanNovTf(u32);
}
pub mod d_int_u32_greater_or_equal_lit_min {
    use super::*;
    #[nutype(validate(greater_or_equal = 0), derive(Debug, TryFrom))]
    pub struct IntU32GreaterOrEqualLitMin(u32);
}
pub mod d_int_u32_greater_lit_min1 {
    use super::*;
    #[nutype(validate(greater = 0), derive(Debug, TryFrom))]
    pub struct IntU32GreaterLitMin1(u32);
}
pub mod d_int_u32_less_or_equal_lit_max {
    use super::*;
    #[nutype(validate(less_or_equal = 4294967295), derive(Debug, TryFrom))]
    pub struct IntU32LessOrEqualLitMax(u32);
}
pub mod d_int_u32_less_lit_max1 {
    use super::*;
    #[nutype(validate(less = 4294967295), derive(Debug, TryFrom))]
    pub struct IntU32LessLitMax1(u32);
}
pub mod d_int_u32_greater_lit_zero {
    use super::*;
    #[nutype(validate(greater = 0), derive(Debug, TryFrom))]
    pub struct IntU32GreaterLitZero(u32);
}
pub mod d_int_u32_less_or_equal_lit_one {
    use super::*;
    #[nutype(validate(less_or_equal = 1), derive(Debug, TryFrom))]
    pub struct IntU32LessOrEqualLitOne(u32);
}
pub mod d_int_u32_greater_lit_max_m1 {
    use super::*;
    #[nutype(validate(greater = 4294967294), derive(Debug, TryFrom))]
    pub struct IntU32GreaterLitMaxM1(u32);
}
pub mod d_int_u32_ge_le_lit {
    use super::*;
    #[nutype(validate(greater_or_equal = 1, less_or_equal = 100), derive(Debug, Clone, Copy, PartialEq, Eq, AsRef, Deref, Borrow, Into, TryFrom))]
    pub struct IntU32GeLeLit(u32);
}
pub mod d_int_u32_san_pred_le_const {
    use super::*;
    #[nutype(const_fn, sanitize(with = san_u32), validate(predicate = pred_u32, less_or_equal = 100), derive(Debug, Clone, Copy, TryFrom, Into))]
    pub struct IntU32SanPredLeConst(u32);
}
pub mod d_int_u32_ge_le_lit_const {
    use super::*;
    #[nutype(const_fn, validate(greater_or_equal = 1, less_or_equal = 100), derive(Debug, Clone, Copy, TryFrom, Into))]
    pub struct IntU32GeLeLitConst(u32);
}
pub mod d_int_u64_greater_sym {
    use super::*;
    #[nutype(validate(greater = sym_lo_u64()), derive(Debug, Clone, Copy, PartialEq, Eq, AsRef, Deref, Borrow, Into, TryFrom, FromStr, Display))]
    pub struct IntU64GreaterSym(u64);
}
pub mod d_int_u64_greater_or_equal_sym {
    use super::*;
    #[nutype(validate(greater_or_equal = sym_lo_u64()), derive(Debug, Clone, Copy, PartialEq, Eq, AsRef, Deref, Borrow, Into, TryFrom, FromStr, Display))]
    pub struct IntU64GreaterOrEqualSym(u64);
}
pub mod d_int_u64_less_sym {
    use super::*;
    #[nutype(validate(less = sym_hi_u64()), derive(Debug, Clone, Copy, PartialEq, Eq, AsRef, Deref, Borrow, Into, TryFrom, FromStr, Display))]
    pub struct IntU64LessSym(u64);
}
pub mod d_int_u64_less_or_equal_sym {
    use super::*;
    #[nutype(validate(less_or_equal = sym_hi_u64()), derive(Debug, Clone, Copy, PartialEq, Eq, AsRef, Deref, Borrow, Into, TryFrom, FromStr, Display))]
    pub struct IntU64LessOrEqualSym(u64);
}
pub mod d_int_u64_greater_less_sym {
    use super::*;
    #[nutype(validate(greater = sym_lo_u64(), less = sym_hi_u64()), derive(Debug, Clone, Copy, PartialEq, Eq, AsRef, Deref, Borrow, Into, TryFrom))]
    pub struct IntU64GreaterLessSym(u64);
}
pub mod d_int_u64_greater_less_or_equal_sym {
    use super::*;
    #[nutype(validate(greater = sym_lo_u64(), less_or_equal = sym_hi_u64()), derive(Debug, Clone, Copy, PartialEq, Eq, AsRef, Deref, Borrow, Into, TryFrom))]
    pub struct IntU64GreaterLessOrEqualSym(u64);
}
pub mod d_int_u64_greater_or_equal_less_sym {
    use super::*;
    #[nutype(validate(greater_or_equal = sym_lo_u64(), less = sym_hi_u64()), derive(Debug, Clone, Copy, PartialEq, Eq, AsRef, Deref, Borrow, Into, TryFrom))]
    pub struct IntU64GreaterOrEqualLessSym(u64);
}
pub mod d_int_u64_greater_or_equal_less_or_equal_sym {
    use super::*;
    #[nutype(validate(greater_or_equal = sym_lo_u64(), less_or_equal = sym_hi_u64()), derive(Debug, Clone, Copy, PartialEq, Eq, AsRef, Deref, Borrow, Into, TryFrom))]
    pub struct IntU64GreaterOrEqualLessOrEqualSym(u64);
}
pub mod d_int_u64_le_pred_ge_sym {
    use super::*;
    #[nutype(validate(less_or_equal = sym_hi_u64(), predicate = pred_u64, greater_or_equal = sym_lo_u64()), derive(Debug, TryFrom))]
    pub struct IntU64LePredGeSym(u64);
}
pub mod d_int_u64_custom {
    use super::*;
    #[nutype(validate(with = vfn_u64, error = MyErr), derive(Debug, TryFrom, AsRef))]
    pub struct IntU64Custom(u64);
}
pub mod d_int_u64_san_le {
    use super::*;
    #[nutype(sanitize(with = san_u64), validate(less_or_equal = sym_hi_u64()), derive(Debug, TryFrom, Into))]
    pub struct IntU64SanLe(u64);
}
pub mod d_int_u64_san2_nov {
    use super::*;
    #[nutype(sanitize(with = san2_u64), derive(Debug, From, Into, Deref, Default), default = 7)]
    pub struct IntU64San2Nov(u64);
}
pub mod d_int_u64_san_nov_tf {
    use super::*;
    #[nutype(sanitize(with = san_u64), derive(Debug, TryFrom, Into, AsRef))]
    pub struct IntU64SanNovTf(u64);
}
pub mod d_int_u64_greater_or_equal_lit_min {
    use super::*;
    #[nutype(validate(greater_or_equal = 0), derive(Debug, TryFrom))]
    pub struct IntU64GreaterOrEqualLitMin(u64);
}
pub mod d_int_u64_greater_lit_min1 {
    use super::*;
    #[nutype(validate(greater = 0), derive(Debug, TryFrom))]
    pub struct IntU64GreaterLitMin1(u64);
}
pub mod d_int_u64_less_or_equal_lit_max {
    use super::*;
    #[nutype(validate(less_or_equal = 18446744073709551615), derive(Debug, TryFrom))]
    pub struct IntU64LessOrEqualLitMax(u64);
}
pub mod d_int_u64_less_lit_max1 {
    use super::*;
    #[nutype(validate(less = 18446744073709551615), derive(Debug, TryFrom))]
    pub struct IntU64LessLitMax1(u64);
}
pub mod d_int_u64_greater_lit_zero {
    use super::*;
    #[nutype(validate(greater = 0), derive(Debug, TryFrom))]
    pub struct IntU64GreaterLitZero(u64);
}
pub mod d_int_u64_less_or_equal_lit_one {
    use super::*;
    #[nutype(validate(less_or_equal = 1), derive(Debug, TryFrom))]
    pub struct IntU64LessOrEqualLitOne(u64);
}
pub mod d_int_u64_greater_lit_max_m1 {
    use super::*;
    #[nutype(validate(greater = 18446744073709551614), derive(Debug, TryFrom))]
    pub struct IntU64GreaterLitMaxM1(u64);
}
pub mod d_int_u64_ge_le_lit {
    use super::*;
    #[nutype(validate(greater_or_equal = 1, less_or_equal = 100), derive(Debug, Clone, Copy, PartialEq, Eq, AsRef, Deref, Borrow, Into, TryFrom))]
    pub struct IntU64GeLeLit(u64);
}
pub mod d_int_u64_san_pred_le_const {
    use super::*;
    #[nutype(const_fn, sanitize(with = san_u64), validate(predicate = pred_u64, less_or_equal = 100), derive(Debug, Clone, Copy, TryFrom, Into))]
    pub struct IntU64SanPredLeConst(u64);
}
pub mod d_int_u64_ge_le_lit_const {
    use super::*;
    #[nutype(const_fn, validate(greater_or_equal = 1, less_or_equal = 100), derive(Debug, Clone, Copy, TryFrom, Into))]
    pub struct IntU64GeLeLitConst(u64);
}
pub mod d_int_u128_greater_sym {
    use super::*;
    #[nutype(validate(greater = sym_lo_u128()), derive(Debug, Clone, Copy, PartialEq, Eq, AsRef, Deref, Borrow, Into, TryFrom, FromStr, Display))]
    pub struct IntU128GreaterSym(u128);
}
pub mod d_int_u128_greater_or_equal_sym {
    use super::*;
    #[nutype(validate(greater_or_equal = sym_lo_u128()), derive(Debug, Clone, Copy, PartialEq, Eq, AsRef, Deref, Borrow, Into, TryFrom, FromStr, Display))]
    pub struct IntU128GreaterOrEqualSym(u128);
}
pub mod d_int_u128_less_sym {
    use super::*;
    #[nutype(validate(less = sym_hi_u128()), derive(Debug, Clone, Copy, PartialEq, Eq, AsRef, Deref, Borrow, Into, TryFrom, FromStr, Display))]
    pub struct IntU128LessSym(u128);
}
pub mod d_int_u128_less_or_equal_sym {
    use super::*;
    #[nutype(validate(less_or_equal = sym_hi_u128()), derive(Debug, Clone, Copy, PartialEq, Eq, AsRef, Deref, Borrow, Into, TryFrom, FromStr, Display))]
    pub struct IntU128LessOrEqualSym(u128);
}
pub mod d_int_u128_greater_less_sym {
    use super::*;
    #[nutype(validate(greater = sym_lo_u128(), less = sym_hi_u128()), derive(Debug, Clone, Copy, PartialEq, Eq, AsRef, Deref, Borrow, Into, TryFrom))]
    pub struct IntU128GreaterLessSym(u128);
}
pub mod d_int_u128_greater_less_or_equal_sym {
    use super::*;
    #[nutype(validate(greater = sym_lo_u128(), less_or_equal = sym_hi_u128()), derive(Debug, Clone, Copy, PartialEq, Eq, AsRef, Deref, Borrow, Into, TryFrom))]
    pub struct IntU128GreaterLessOrEqualSym(u128);
}
pub mod d_int_u128_greater_or_equal_less_sym {
    use super::*;
    #[nutype(validate(greater_or_equal = sym_lo_u128(), less = sym_hi_u128()), derive(Debug, Clone, Copy, PartialEq, Eq, AsRef, Deref, Borrow, Into, TryFrom))]
    pub struct IntU128GreaterOrEqualLessSym(u128);
}
pub mod d_int_u128_greater_or_equal_less_or_equal_sym {
    use super::*;
    #[nutype(validate(greater_or_equal = sym_lo_u128(), less_or_equal = sym_hi_u128()), derive(Debug, Clone, Copy, PartialEq, Eq, AsRef, Deref, Borrow, Into, TryFrom))]
    pub struct IntU128GreaterOrEqualLessOrEqualSym(u128);
}
pub mod d_int_u128_le_pred_ge_sym {
    use super::*;
    #[nutype(validate(less_or_equal = sym_hi_u128(), predicate = pred_u128, greater_or_equal = sym_lo_u128()), derive(Debug, TryFrom))]
    pub struct IntU128LePredGeSym(u128);
}
pub mod d_int_u128_custom {
    use super::*;
    #[nutype(validate(with = vfn_u128, error = MyErr), derive(Debug, TryFrom, AsRef))]
    pub struct IntU128Custom(u128);
}
pub mod d_int_u128_san_le {
    use super::*;
    #[nutype(sanitize(with = san_u128), validate(less_or_equal = sym_hi_u128()), derive(Debug, TryFrom, Into))]
    pub struct IntU128SanLe(u128);
}
pub mod d_int_u128_san2_nov {
    use super::*;
    #[nutype(sanitize(with = san2_u128), derive(Debug, From, Into, Deref, Default), default = 7)]
    pub struct IntU128San2Nov(u128);
}
pub mod d_int_u128_san_nov_tf {
    use super::*;
    #[nutype(sanitize(with = san_u128), derive(Debug, TryFrom, Into, AsRef))]
    pub struct IntU128SanNovTf(u128);
}
pub mod d_int_u128_greater_or_equal_lit_min {
    use super::*;
    #[nutype(validate(greater_or_equal = 0), derive(Debug, TryFrom))]
    pub struct IntU128GreaterOrEqualLitMin(u128);
}
pub mod d_int_u128_greater_lit_min1 {
    use super::*;
    #[nutype(validate(greater = 0), derive(Debug, TryFrom))]
    pub struct IntU128GreaterLitMin1(u128);
}
pub mod d_int_u128_less_or_equal_lit_max {
    use super::*;
    #[nutype(validate(less_or_equal = 340282366920938463463374607431768211455), derive(Debug, TryFrom))]
    pub struct IntU128LessOrEqualLitMax(u128);
}
pub mod d_int_u128_less_lit_max1 {
    use super::*;
    #[nutype(validate(less = 340282366920938463463374607431768211455), derive(Debug, TryFrom))]
    pub struct IntU128LessLitMax1(u128);
}
pub mod d_int_u128_greater_lit_zero {
    use super::*;
    #[nutype(validate(greater = 0), derive(Debug, TryFrom))]
    pub struct IntU128GreaterLitZero(u128);
}
pub mod d_int_u128_less_or_equal_lit_one {
    use super::*;
    #[nutype(validate(less_or_equal = 1), derive(Debug, TryFrom))]
    pub struct IntU128LessOrEqualLitOne(u128);
}
pub mod d_int_u128_greater_lit_max_m1 {
    use super::*;
    #[nutype(validate(greater = 340282366920938463463374607431768211454), derive(Debug, TryFrom))]
    pub struct IntU128GreaterLitMaxM1(u128);
}
pub mod d_int_u128_ge_le_lit {
    use super::*;
    #[nutype(validate(greater_or_equal = 1, less_or_equal = 100), derive(Debug, Clone, Copy, PartialEq, Eq, AsRef, Deref, Borrow, Into, TryFrom))]
    pub struct IntU128GeLeLit(u128);
}
pub mod d_int_u128_san_pred_le_const {
    use super::*;
    #[nutype(const_fn, sanitize(with = san_u128), validate(predicate = pred_u128, less_or_equal = 100), derive(Debug, Clone, Copy, TryFrom, Into))]
    pub struct IntU128SanPredLeConst(u128);
}
pub mod d_int_u128_ge_le_lit_const {
    use super::*;
    #[nutype(const_fn, validate(greater_or_equal = 1, less_or_equal = 100), derive(Debug, Clone, Copy, TryFrom, Into))]
    pub struct IntU128GeLeLitConst(u128);
}
pub mod d_int_usize_greater_sym {
    use super::*;
    #[nutype(validate(greater = sym_lo_usize()), derive(Debug, Clone, Copy, PartialEq, Eq, AsRef, Deref, Borrow, Into, TryFrom, FromStr, Display))]
    pub struct IntUsizeGreaterSym(usize);
}
pub mod d_int_usize_greater_or_equal_sym {
    use super::*;
    #[nutype(validate(greater_or_equal = sym_lo_usize()), derive(Debug, Clone, Copy, PartialEq, Eq, AsRef, Deref, Borrow, Into, TryFrom, FromStr, Display))]
    pub struct IntUsizeGreaterOrEqualSym(usize);
}
pub mod d_int_usize_less_sym {
    use super::*;
    #[nutype(validate(less = sym_hi_usize()), derive(Debug, Clone, Copy, PartialEq, Eq, AsRef, Deref, Borrow, Into, TryFrom, FromStr, Display))]
    pub struct IntUsizeLessSym(usize);
}
pub mod d_int_usize_less_or_equal_sym {
    use super::*;
    #[nutype(validate(less_or_equal = sym_hi_usize()), derive(Debug, Clone, Copy, PartialEq, Eq, AsRef, Deref, Borrow, Into, TryFrom, FromStr, Display))]
    pub struct IntUsizeLessOrEqualSym(usize);
}
pub mod d_int_usize_greater_less_sym {
    use super::*;
    #[nutype(validate(greater = sym_lo_usize(), less = sym_hi_usize()), derive(Debug, Clone, Copy, PartialEq, Eq, AsRef, Deref, Borrow, Into, TryFrom))]
    pub struct IntUsizeGreaterLessSym(usize);
}
pub mod d_int_usize_greater_less_or_equal_sym {
    use super::*;
    #[nutype(validate(greater = sym_lo_usize(), less_or_equal = sym_hi_usize()), derive(Debug, Clone, Copy, PartialEq, Eq, AsRef, Deref, Borrow, Into, TryFrom))]
    pub struct IntUsizeGreaterLessOrEqualSym(usize);
}
pub mod d_int_usize_greater_or_equal_less_sym {
    use super::*;
    #[nutype(validate(greater_or_equal = sym_lo_usize(), less = sym_hi_usize()), derive(Debug, Clone, Copy, PartialEq, Eq, AsRef, Deref, Borrow, Into, TryFrom))]
    pub struct IntUsizeGreaterOrEqualLessSym(usize);
}
pub mod d_int_usize_greater_or_equal_less_or_equal_sym {
    use super::*;
    #[nutype(validate(greater_or_equal = sym_lo_usize(), less_or_equal = sym_hi_usize()), derive(Debug, Clone, Copy, PartialEq, Eq, AsRef, Deref, Borrow, Into, TryFrom))]
    pub struct IntUsizeGreaterOrEqualLessOrEqualSym(usize);
}
pub mod d_int_usize_le_pred_ge_sym {
    use super::*;
    #[nutype(validate(less_or_equal = sym_hi_usize(), predicate = pred_usize, greater_or_equal = sym_lo_usize()), derive(Debug, TryFrom))]
    pub struct IntUsizeLePredGeSym(usize);
}
pub mod d_int_usize_custom {
    use super::*;
    #[nutype(validate(with = vfn_usize, error = MyErr), derive(Debug, TryFrom, AsRef))]
    pub struct IntUsizeCustom(usize);
}
pub mod d_int_usize_san_le {
    use super::*;
    #[nutype(sanitize(with = san_usize), validate(less_or_equal = sym_hi_usize()), derive(Debug, TryFrom, Into))]
    pub struct IntUsizeSanLe(usize);
}
pub mod d_int_usize_san2_nov {
    use super::*;
    #[nutype(sanitize(with = san2_usize), derive(Debug, From, Into, Deref, Default), default = 7)]
    pub struct IntUsizeSan2Nov(usize);
}
pub mod d_int_usize_san_nov_tf {
    use super::*;
    #[nutype(sanitize(with = san_usize), derive(Debug, TryFrom, Into, AsRef))]
    pub struct IntUsizeSanNovTf(usize);
}
pub mod d_int_usize_greater_or_equal_lit_min {
    use super::*;
    #[nutype(validate(greater_or_equal = 0), derive(Debug, TryFrom))]
    pub struct IntUsizeGreaterOrEqualLitMin(usize);
}
pub mod d_int_usize_greater_lit_min1 {
    use super::*;
    #[nutype(validate(greater = 0), derive(Debug, TryFrom))]
    pub struct IntUsizeGreaterLitMin1(usize);
}
pub mod d_int_usize_less_or_equal_lit_max {
    use super::*;
    #[nutype(validate(less_or_equal = 18446744073709551615), derive(Debug, TryFrom))]
    pub struct IntUsizeLessOrEqualLitMax(usize);
}
pub mod d_int_usize_less_lit_max1 {
    use super::*;
    #[nutype(validate(less = 18446744073709551615), derive(Debug, TryFrom))]
    pub struct IntUsizeLessLitMax1(usize);
}
pub mod d_int_usize_greater_lit_zero {
    use super::*;
    #[nutype(validate(greater = 0), derive(Debug, TryFrom))]
    pub struct IntUsizeGreaterLitZero(usize);
}
pub mod d_int_usize_less_or_equal_lit_one {
    use super::*;
    #[nutype(validate(less_or_equal = 1), derive(Debug, TryFrom))]
    pub struct IntUsizeLessOrEqualLitOne(usize);
}
pub mod d_int_usize_greater_lit_max_m1 {
    use super::*;
    #[nutype(validate(greater = 18446744073709551614), derive(Debug, TryFrom))]
    pub struct IntUsizeGreaterLitMaxM1(usize);
}
pub mod d_int_usize_ge_le_lit {
    use super::*;
    #[nutype(validate(greater_or_equal = 1, less_or_equal = 100), derive(Debug, Clone, Copy, PartialEq, Eq, AsRef, Deref, Borrow, Into, TryFrom))]
    pub struct IntUsizeGeLeLit(usize);
}
pub mod d_int_usize_san_pred_le_const {
    use super::*;
    #[nutype(const_fn, sanitize(with = san_usize), validate(predicate = pred_usize, less_or_equal = 100), derive(Debug, Clone, Copy, TryFrom, Into))]
    pub struct IntUsizeSanPredLeConst(usize);
}
pub mod d_int_usize_ge_le_lit_const {
    use super::*;
    #[nutype(const_fn, validate(greater_or_equal = 1, less_or_equal = 100), derive(Debug, Clone, Copy, TryFrom, Into))]
    pub struct IntUsizeGeLeLitConst(usize);
}
pub mod d_int_i8_greater_sym {
    use super::*;
    #[nutype(validate(greater = sym_lo_i8()), derive(Debug, Clone, Copy, PartialEq, Eq, AsRef, Deref, Borrow, Into, TryFrom, FromStr, Display))]
    pub struct IntI8GreaterSym(i8);
}
pub mod d_int_i8_greater_or_equal_sym {
    use super::*;
    #[nutype(validate(greater_or_equal = sym_lo_i8()), derive(Debug, Clone, Copy, PartialEq, Eq, AsRef, Deref, Borrow, Into, TryFrom, FromStr, Display))]
    pub struct IntI8GreaterOrEqualSym(i8);
}
pub mod d_int_i8_less_sym {
    use super::*;
    #[nutype(validate(less = sym_hi_i8()), derive(Debug, Clone, Copy, PartialEq, Eq, AsRef, Deref, Borrow, Into, TryFrom, FromStr, Display))]
    pub struct IntI8LessSym(i8);
}
pub mod d_int_i8_less_or_equal_sym {
    use super::*;
    #[nutype(validate(less_or_equal = sym_hi_i8()), derive(Debug, Clone, Copy, PartialEq, Eq, AsRef, Deref, Borrow, Into, TryFrom, FromStr, Display))]
    pub struct IntI8LessOrEqualSym(i8);
}
pub mod d_int_i8_greater_less_sym {
    use super::*;
    #[nutype(validate(greater = sym_lo_i8(), less = sym_hi_i8()), derive(Debug, Clone, Copy, PartialEq, Eq, AsRef, Deref, Borrow, Into, TryFrom))]
    pub struct IntI8GreaterLessSym(i8);
}
pub mod d_int_i8_greater_less_or_equal_sym {
    use super::*;
    #[nutype(validate(greater = sym_lo_i8(), less_or_equal = sym_hi_i8()), derive(Debug, Clone, Copy, PartialEq, Eq, AsRef, Deref, Borrow, Into, TryFrom))]
    pub struct IntI8GreaterLessOrEqualSym(i8);
}
pub mod d_int_i8_greater_or_equal_less_sym {
    use super::*;
    #[nutype(validate(greater_or_equal = sym_lo_i8(), less = sym_hi_i8()), derive(Debug, Clone, Copy, PartialEq, Eq, AsRef, Deref, Borrow, Into, TryFrom))]
    pub struct IntI8GreaterOrEqualLessSym(i8);
}
pub mod d_int_i8_greater_or_equal_less_or_equal_sym {
    use super::*;
    #[nutype(validate(greater_or_equal = sym_lo_i8(), less_or_equal = sym_hi_i8()), derive(Debug, Clone, Copy, PartialEq, Eq, AsRef, Deref, Borrow, Into, TryFrom))]
    pub struct IntI8GreaterOrEqualLessOrEqualSym(i8);
}
pub mod d_int_i8_le_pred_ge_sym {
    use super::*;
    #[nutype(validate(less_or_equal = sym_hi_i8(), predicate = pred_i8, greater_or_equal = sym_lo_i8()), derive(Debug, TryFrom))]
    pub struct IntI8LePredGeSym(i8);
}
pub mod d_int_i8_custom {
    use super::*;
    #[nutype(validate(with = vfn_i8, error = MyErr), derive(Debug, TryFrom, AsRef))]
    pub struct IntI8Custom(i8);
}
pub mod d_int_i8_san_le {
    use super::*;
    #[nutype(sanitize(with = san_i8), validate(less_or_equal = sym_hi_i8()), derive(Debug, TryFrom, Into))]
    pub struct IntI8SanLe(i8);
}
pub mod d_int_i8_san2_nov {
    use super::*;
    #[nutype(sanitize(with = san2_i8), derive(Debug, From, Into, Deref, Default), default = 7)]
    pub struct IntI8San2Nov(i8);
}
pub mod d_int_i8_san_nov_tf {
    use super::*;
    #[nutype(sanitize(with = san_i8), derive(Debug, TryFrom, Into, AsRef))]
    pub struct IntI8SanNovTf(i8);
}
pub mod d_int_i8_greater_or_equal_lit_min {
    use super::*;
    #[nutype(validate(greater_or_equal = -128), derive(Debug, TryFrom))]
    pub struct IntI8GreaterOrEqualLitMin(i8);
}
pub mod d_int_i8_greater_lit_min1 {
    use super::*;
    #[nutype(validate(greater = -128), derive(Debug, TryFrom))]
    pub struct IntI8GreaterLitMin1(i8);
}
pub mod d_int_i8_less_or_equal_lit_max {
    use super::*;
    #[nutype(validate(less_or_equal = 127), derive(Debug, TryFrom))]
    pub struct IntI8LessOrEqualLitMax(i8);
}
pub mod d_int_i8_less_lit_max1 {
    use super::*;
    #[nutype(validate(less = 127), derive(Debug, TryFrom))]
    pub struct IntI8LessLitMax1(i8);
}
pub mod d_int_i8_greater_lit_zero {
    use super::*;
    #[nutype(validate(greater = 0), derive(Debug, TryFrom))]
    pub struct IntI8GreaterLitZero(i8);
}
pub mod d_int_i8_less_or_equal_lit_one {
    use super::*;
    #[nutype(validate(less_or_equal = 1), derive(Debug, TryFrom))]
    pub struct IntI8LessOrEqualLitOne(i8);
}
pub mod d_int_i8_greater_or_equal_lit_neg1 {
    use super::*;
    #[nutype(validate(greater_or_equal = -1), derive(Debug, TryFrom))]
    pub struct IntI8GreaterOrEqualLitNeg1(i8);
}
pub mod d_int_i8_less_lit_min_p1 {
    use super::*;
    #[nutype(validate(less = -127), derive(Debug, TryFrom))]
    pub struct IntI8LessLitMinP1(i8);
}
pub mod d_int_i8_greater_lit_max_m1 {
    use super::*;
    #[nutype(validate(greater = 126), derive(Debug, TryFrom))]
    pub struct IntI8GreaterLitMaxM1(i8);
}
pub mod d_int_i8_ge_le_lit {
    use super::*;
    #[nutype(validate(greater_or_equal = 1, less_or_equal = 100), derive(Debug, Clone, Copy, PartialEq, Eq, AsRef, Deref, Borrow, Into, TryFrom))]
    pub struct IntI8GeLeLit(i8);
}
pub mod d_int_i8_san_pred_le_const {
    use super::*;
    #[nutype(const_fn, sanitize(with = san_i8), validate(predicate = pred_i8, less_or_equal = 100), derive(Debug, Clone, Copy, TryFrom, Into))]
    pub struct IntI8SanPredLeConst(i8);
}
pub mod d_int_i8_ge_le_lit_const {
    use super::*;
    #[nutype(const_fn, validate(greater_or_equal = 1, less_or_equal = 100), derive(Debug, Clone, Copy, TryFrom, Into))]
    pub struct IntI8GeLeLitConst(i8);
}
pub mod d_int_i16_greater_sym {
    use super::*;
    #[nutype(validate(greater = sym_lo_i16()), derive(Debug, Clone, Copy, PartialEq, Eq, AsRef, Deref, Borrow, Into, TryFrom, FromStr, Display))]
    pub struct IntI16GreaterSym(i16);
}
pub mod d_int_i16_greater_or_equal_sym {
    use super::*;
    #[nutype(validate(greater_or_equal = sym_lo_i16()), derive(Debug, Clone, Copy, PartialEq, Eq, AsRef, Deref, Borrow, Into, TryFrom, FromStr, Display))]
    pub struct IntI16GreaterOrEqualSym(i16);
}
pub mod d_int_i16_less_sym {
    use super::*;
    #[nutype(validate(less = sym_hi_i16()), derive(Debug, Clone, Copy, PartialEq, Eq, AsRef, Deref, Borrow, Into, TryFrom, FromStr, Display))]
    pub struct IntI16LessSym(i16);
}
pub mod d_int_i16_less_or_equal_sym {
    use super::*;
    #[nutype(validate(less_or_equal = sym_hi_i16()), derive(Debug, Clone, Copy, PartialEq, Eq, AsRef, Deref, Borrow, Into, TryFrom, FromStr, Display))]
    pub struct IntI16LessOrEqualSym(i16);
}
pub mod d_int_i16_greater_less_sym {
    use super::*;
    #[nutype(validate(greater = sym_lo_i16(), less = sym_hi_i16()), derive(Debug, Clone, Copy, PartialEq, Eq, AsRef, Deref, Borrow, Into, TryFrom))]
    pub struct IntI16GreaterLessSym(i16);
}
pub mod d_int_i16_greater_less_or_equal_sym {
    use super::*;
    #[nutype(validate(greater = sym_lo_i16(), less_or_equal = sym_hi_i16()), derive(Debug, Clone, Copy, PartialEq, Eq, AsRef, Deref, Borrow, Into, TryFrom))]
    pub struct IntI16GreaterLessOrEqualSym(i16);
}
pub mod d_int_i16_greater_or_equal_less_sym {
    use super::*;
    #[nutype(validate(greater_or_equal = sym_lo_i16(), less = sym_hi_i16()), derive(Debug, Clone, Copy, PartialEq, Eq, AsRef, Deref, Borrow, Into, TryFrom))]
    pub struct IntI16GreaterOrEqualLessSym(i16);
}
pub mod d_int_i16_greater_or_equal_less_or_equal_sym {
    use super::*;
    #[nutype(validate(greater_or_equal = sym_lo_i16(), less_or_equal = sym_hi_i16()), derive(Debug, Clone, Copy, PartialEq, Eq, AsRef, Deref, Borrow, Into, TryFrom))]
    pub struct IntI16GreaterOrEqualLessOrEqualSym(i16);
}
pub mod d_int_i16_le_pred_ge_sym {
    use super::*;
    #[nutype(validate(less_or_equal = sym_hi_i16(), predicate = pred_i16, greater_or_equal = sym_lo_i16()), derive(Debug, TryFrom))]
    pub struct IntI16LePredGeSym(i16);
}
pub mod d_int_i16_custom {
    use super::*;
    #[nutype(validate(with = vfn_i16, error = MyErr), derive(Debug, TryFrom, AsRef))]
    pub struct IntI16Custom(i16);
}
pub mod d_int_i16_san_le {
    use super::*;
    #[nutype(sanitize(with = san_i16), validate(less_or_equal = sym_hi_i16()), derive(Debug, TryFrom, Into))]
    pub struct IntI16SanLe(i16);
}
pub mod d_int_i16_san2_nov {
    use super::*;
    #[nutype(sanitize(with = san2_i16), derive(Debug, From, Into, Deref, Default), default = 7)]
    pub struct IntI16San2Nov(i16);
}
pub mod d_int_i16_san_nov_tf {
    use super::*;
    #[nutype(sanitize(with = san_i16), derive(Debug, TryFrom, Into, AsRef))]
    pub struct IntI16SanNovTf(i16);
}
pub mod d_int_i16_greater_or_equal_lit_min {
    use super::*;
    #[nutype(validate(greater_or_equal = -32768), derive(Debug, TryFrom))]
    pub struct IntI16GreaterOrEqualLitMin(i16);
}
pub mod d_int_i16_greater_lit_min1 {
    use super::*;
    #[nutype(validate(greater = -32768), derive(Debug, TryFrom))]
    pub struct IntI16GreaterLitMin1(i16);
}
pub mod d_int_i16_less_or_equal_lit_max {
    use super::*;
    #[nutype(validate(less_or_equal = 32767), derive(Debug, TryFrom))]
    pub struct IntI16LessOrEqualLitMax(i16);
}
pub mod d_int_i16_less_lit_max1 {
    use super::*;
    #[nutype(validate(less = 32767), derive(Debug, TryFrom))]
    pub struct IntI16LessLitMax1(i16);
}
pub mod d_int_i16_greater_lit_zero {
    use super::*;
    #[nutype(validate(greater = 0), derive(Debug, TryFrom))]
    pub struct IntI16GreaterLitZero(i16);
}
pub mod d_int_i16_less_or_equal_lit_one {
    use super::*;
    #[nutype(validate(less_or_equal = 1), derive(Debug, TryFrom))]
    pub struct IntI16LessOrEqualLitOne(i16);
}
pub mod d_int_i16_greater_or_equal_lit_neg1 {
    use super::*;
    #[nutype(validate(greater_or_equal = -1), derive(Debug, TryFrom))]
    pub struct IntI16GreaterOrEqualLitNeg1(i16);
}
pub mod d_int_i16_less_lit_min_p1 {
    use super::*;
    #[nutype(validate(less = -32767), derive(Debug, TryFrom))]
    pub struct IntI16LessLitMinP1(i16);
}
pub mod d_int_i16_greater_lit_max_m1 {
    use super::*;
    #[nutype(validate(greater = 32766), derive(Debug, TryFrom))]
    pub struct IntI16GreaterLitMaxM1(i16);
}
pub mod d_int_i16_ge_le_lit {
    use super::*;
    #[nutype(validate(greater_or_equal = 1, less_or_equal = 100), derive(Debug, Clone, Copy, PartialEq, Eq, AsRef, Deref, Borrow, Into, TryFrom))]
    pub struct IntI16GeLeLit(i16);
}
pub mod d_int_i16_san_pred_le_const {
    use super::*;
    #[nutype(const_fn, sanitize(with = san_i16), validate(predicate = pred_i16, less_or_equal = 100), derive(Debug, Clone, Copy, TryFrom, Into))]
    pub struct IntI16SanPredLeConst(i16);
}
pub mod d_int_i16_ge_le_lit_const {
    use super::*;
    #[nutype(const_fn, validate(greater_or_equal = 1, less_or_equal = 100), derive(Debug, Clone, Copy, TryFrom, Into))]
    pub struct IntI16GeLeLitConst(i16);
}
pub mod d_int_i32_greater_sym {
    use super::*;
    #[nutype(validate(greater = sym_lo_i32()), derive(Debug, Clone, Copy, PartialEq, Eq, AsRef, Deref, Borrow, Into, TryFrom, FromStr, Display))]
    pub struct IntI32GreaterSym(i32);
}
pub mod d_int_i32_greater_or_equal_sym {
    use super::*;
    #[nutype(validate(greater_or_equal = sym_lo_i32()), derive(Debug, Clone, Copy, PartialEq, Eq, AsRef, Deref, Borrow, Into, TryFrom, FromStr, Display))]
    pub struct IntI32GreaterOrEqualSym(i32);
}
pub mod d_int_i32_less_sym {
    use super::*;
    #[nutype(validate(less = sym_hi_i32()), derive(Debug, Clone, Copy, PartialEq, Eq, AsRef, Deref, Borrow, Into, TryFrom, FromStr, Display))]
    pub struct IntI32LessSym(i32);
}
pub mod d_int_i32_less_or_equal_sym {
    use super::*;
    #[nutype(validate(less_or_equal = sym_hi_i32()), derive(Debug, Clone, Copy, PartialEq, Eq, AsRef, Deref, Borrow, Into, TryFrom, FromStr, Display))]
    pub struct IntI32LessOrEqualSym(i32);
}
pub mod d_int_i32_greater_less_sym {
    use super::*;
    #[nutype(validate(greater = sym_lo_i32(), less = sym_hi_i32()), derive(Debug, Clone, Copy, PartialEq, Eq, AsRef, Deref, Borrow, Into, TryFrom))]
    pub struct IntI32GreaterLessSym(i32);
}
pub mod d_int_i32_greater_less_or_equal_sym {
    use super::*;
    #[nutype(validate(greater = sym_lo_i32(), less_or_equal = sym_hi_i32()), derive(Debug, Clone, Copy, PartialEq, Eq, AsRef, Deref, Borrow, Into, TryFrom))]
    pub struct IntI32GreaterLessOrEqualSym(i32);
}
pub mod d_int_i32_greater_or_equal_less_sym {
    use super::*;
    #[nutype(validate(greater_or_equal = sym_lo_i32(), less = sym_hi_i32()), derive(Debug, Clone, Copy, PartialEq, Eq, AsRef, Deref, Borrow, Into, TryFrom))]
    pub struct IntI32GreaterOrEqualLessSym(i32);
}
pub mod d_int_i32_greater_or_equal_less_or_equal_sym {
    use super::*;
    #[nutype(validate(greater_or_equal = sym_lo_i32(), less_or_equal = sym_hi_i32()), derive(Debug, Clone, Copy, PartialEq, Eq, AsRef, Deref, Borrow, Into, TryFrom))]
    pub struct IntI32GreaterOrEqualLessOrEqualSym(i32);
}
pub mod d_int_i32_le_pred_ge_sym {
    use super::*;
    #[nutype(validate(less_or_equal = sym_hi_i32(), predicate = pred_i32, greater_or_equal = sym_lo_i32()), derive(Debug, TryFrom))]
    pub struct IntI32LePredGeSym(i32);
}
pub mod d_int_i32_custom {
    use super::*;
    #[nutype(validate(with = vfn_i32, error = MyErr), derive(Debug, TryFrom, AsRef))]
    pub struct IntI32Custom(i32);
}
pub mod d_int_i32_san_le {
    use super::*;
    #[nutype(sanitize(with = san_i32), validate(less_or_equal = sym_hi_i32()), derive(Debug, TryFrom, Into))]
    pub struct IntI32SanLe(i32);
}
pub mod d_int_i32_san2_nov {
    use super::*;
    #[nutype(sanitize(with = san2_i32), derive(Debug, From, Into, Deref, Default), default = 7)]
    pub struct IntI32San2Nov(i32);
}
pub mod d_int_i32_san_nov_tf {
    use super::*;
    #[nutype(sanitize(with = san_i32), derive(Debug, TryFrom, Into, AsRef))]
    pub struct IntI32SanNovTf(i32);
}
pub mod d_int_i32_greater_or_equal_lit_min {
    use super::*;
    #[nutype(validate(greater_or_equal = -2147483648), derive(Debug, TryFrom))]
    pub struct IntI32GreaterOrEqualLitMin(i32);
}
pub mod d_int_i32_greater_lit_min1 {
    use super::*;
    #[nutype(validate(greater = -2147483648), derive(Debug, TryFrom))]
    pub struct IntI32GreaterLitMin1(i32);
}
pub mod d_int_i32_less_or_equal_lit_max {
    use super::*;
    #[nutype(validate(less_or_equal = 2147483647), derive(Debug, TryFrom))]
    pub struct IntI32LessOrEqualLitMax(i32);
}
pub mod d_int_i32_less_lit_max1 {
    use super::*;
    #[nutype(validate(less = 2147483647), derive(Debug, TryFrom))]
    pub struct IntI32LessLitMax1(i32);
}
pub mod d_int_i32_greater_lit_zero {
    use super::*;
    #[nutype(validate(greater = 0), derive(Debug, TryFrom))]
    pub struct IntI32GreaterLitZero(i32);
}
pub mod d_int_i32_less_or_equal_lit_one {
    use super::*;
    #[nutype(validate(less_or_equal = 1), derive(Debug, TryFrom))]
    pub struct IntI32LessOrEqualLitOne(i32);
}
pub mod d_int_i32_greater_or_equal_lit_neg1 {
    use super::*;
    #[nutype(validate(greater_or_equal = -1), derive(Debug, TryFrom))]
    pub struct IntI32GreaterOrEqualLitNeg1(i32);
}
pub mod d_int_i32_less_lit_min_p1 {
    use super::*;
    #[nutype(validate(less = -2147483647), derive(Debug, TryFrom))]
    pub struct IntI32LessLitMinP1(i32);
}
pub mod d_int_i32_greater_lit_max_m1 {
    use super::*;
    #[nutype(validate(greater = 2147483646), derive(Debug, TryFrom))]
    pub struct IntI32GreaterLitMaxM1(i32);
}
pub mod d_int_i32_ge_le_lit {
    use super::*;
    #[nutype(validate(greater_or_equal = 1, less_or_equal = 100), derive(Debug, Clone, Copy, PartialEq, Eq, AsRef, Deref, Borrow, Into, TryFrom))]
    pub struct IntI32GeLeLit(i32);
}
pub mod d_int_i32_san_pred_le_const {
    use super::*;
    #[nutype(const_fn, sanitize(with = san_i32), validate(predicate = pred_i32, less_or_equal = 100), derive(Debug, Clone, Copy, TryFrom, Into))]
    pub struct IntI32SanPredLeConst(i32);
}
pub mod d_int_i32_ge_le_lit_const {
    use super::*;
    #[nutype(const_fn, validate(greater_or_equal = 1, less_or_equal = 100), derive(Debug, Clone, Copy, TryFrom, Into))]
    pub struct IntI32GeLeLitConst(i32);
}
pub mod d_int_i64_greater_sym {
    use super::*;
    #[nutype(validate(greater = sym_lo_i64()), derive(Debug, Clone, Copy, PartialEq, Eq, AsRef, Deref, Borrow, Into, TryFrom, FromStr, Display))]
    pub struct IntI64GreaterSym(i64);
}
pub mod d_int_i64_greater_or_equal_sym {
    use super::*;
    #[nutype(validate(greater_or_equal = sym_lo_i64()), derive(Debug, Clone, Copy, PartialEq, Eq, AsRef, Deref, Borrow, Into, TryFrom, FromStr, Display))]
    pub struct IntI64GreaterOrEqualSym(i64);
}
pub mod d_int_i64_less_sym {
    use super::*;
    #[nutype(validate(less = sym_hi_i64()), derive(Debug, Clone, Copy, PartialEq, Eq, AsRef, Deref, Borrow, Into, TryFrom, FromStr, Display))]
    pub struct IntI64LessSym(i64);
}
pub mod d_int_i64_less_or_equal_sym {
    use super::*;
    #[nutype(validate(less_or_equal = sym_hi_i64()), derive(Debug, Clone, Copy, PartialEq, Eq, AsRef, Deref, Borrow, Into, TryFrom, FromStr, Display))]
    pub struct IntI64LessOrEqualSym(i64);
}
pub mod d_int_i64_greater_less_sym {
    use super::*;
    #[nutype(validate(greater = sym_lo_i64(), less = sym_hi_i64()), derive(Debug, Clone, Copy, PartialEq, Eq, AsRef, Deref, Borrow, Into, TryFrom))]
    pub struct IntI64GreaterLessSym(i64);
}
pub mod d_int_i64_greater_less_or_equal_sym {
    use super::*;
    #[nutype(validate(greater = sym_lo_i64(), less_or_equal = sym_hi_i64()), derive(Debug, Clone, Copy, PartialEq, Eq, AsRef, Deref, Borrow, Into, TryFrom))]
    pub struct IntI64GreaterLessOrEqualSym(i64);
}
pub mod d_int_i64_greater_or_equal_less_sym {
    use super::*;
    #[nutype(validate(greater_or_equal = sym_lo_i64(), less = sym_hi_i64()), derive(Debug, Clone, Copy, PartialEq, Eq, AsRef, Deref, Borrow, Into, TryFrom))]
    pub struct IntI64GreaterOrEqualLessSym(i64);
}
pub mod d_int_i64_greater_or_equal_less_or_equal_sym {
    use super::*;
    #[nutype(validate(greater_or_equal = sym_lo_i64(), less_or_equal = sym_hi_i64()), derive(Debug, Clone, Copy, PartialEq, Eq, AsRef, Deref, Borrow, Into, TryFrom))]
    pub struct IntI64GreaterOrEqualLessOrEqualSym(i64);
}
pub mod d_int_i64_le_pred_ge_sym {
    use super::*;
    #[nutype(validate(less_or_equal = sym_hi_i64(), predicate = pred_i64, greater_or_equal = sym_lo_i64()), derive(Debug, TryFrom))]
    pub struct IntI64LePredGeSym(i64);
}
pub mod d_int_i64_custom {
    use super::*;
    #[nutype(validate(with = vfn_i64, error = MyErr), derive(Debug, TryFrom, AsRef))]
    pub struct IntI64Custom(i64);
}
pub mod d_int_i64_san_le {
    use super::*;
    #[nutype(sanitize(with = san_i64), validate(less_or_equal = sym_hi_i64()), derive(Debug, TryFrom, Into))]
    pub struct IntI64SanLe(i64);
}
pub mod d_int_i64_san2_nov {
    use super::*;
    #[nutype(sanitize(with = san2_i64), derive(Debug, From, Into, Deref, Default), default = 7)]
    pub struct IntI64San2Nov(i64);
}
pub mod d_int_i64_san_nov_tf {
    use super::*;
    #[nutype(sanitize(with = san_i64), derive(Debug, TryFrom, Into, AsRef))]
    pub struct IntI64SanNovTf(i64);
}
pub mod d_int_i64_greater_or_equal_lit_min {
    use super::*;
    #[nutype(validate(greater_or_equal = -9223372036854775808), derive(Debug, TryFrom))]
    pub struct IntI64GreaterOrEqualLitMin(i64);
}
pub mod d_int_i64_greater_lit_min1 {
    use super::*;
    #[nutype(validate(greater = -9223372036854775808), derive(Debug, TryFrom))]
    pub struct IntI64GreaterLitMin1(i64);
}
pub mod d_int_i64_less_or_equal_lit_max {
    use super::*;
    #[nutype(validate(less_or_equal = 9223372036854775807), derive(Debug, TryFrom))]
    pub struct IntI64LessOrEqualLitMax(i64);
}
pub mod d_int_i64_less_lit_max1 {
    use super::*;
    #[nutype(validate(less = 9223372036854775807), derive(Debug, TryFrom))]
    pub struct IntI64LessLitMax1(i64);
}
pub mod d_int_i64_greater_lit_zero {
    use super::*;
    #[nutype(validate(greater = 0), derive(Debug, TryFrom))]
    pub struct IntI64GreaterLitZero(i64);
}
pub mod d_int_i64_less_or_equal_lit_one {
    use super::*;
    #[nutype(validate(less_or_equal = 1), derive(Debug, TryFrom))]
    pub struct IntI64LessOrEqualLitOne(i64);
}
pub mod d_int_i64_greater_or_equal_lit_neg1 {
    use super::*;
    #[nutype(validate(greater_or_equal = -1), derive(Debug, TryFrom))]
    pub struct IntI64GreaterOrEqualLitNeg1(i64);
}
pub mod d_int_i64_less_lit_min_p1 {
    use super::*;
    #[nutype(validate(less = -9223372036854775807), derive(Debug, TryFrom))]
    pub struct IntI64LessLitMinP1(i64);
}
pub mod d_int_i64_greater_lit_max_m1 {
    use super::*;
    #[nutype(validate(greater = 9223372036854775806), derive(Debug, TryFrom))]
    pub struct IntI64GreaterLitMaxM1(i64);
}
pub mod d_int_i64_ge_le_lit {
    use super::*;
    #[nutype(validate(greater_or_equal = 1, less_or_equal = 100), derive(Debug, Clone, Copy, PartialEq, Eq, AsRef, Deref, Borrow, Into, TryFrom))]
    pub struct IntI64GeLeLit(i64);
}
pub mod d_int_i64_san_pred_le_const {
    use super::*;
    #[nutype(const_fn, sanitize(with = san_i64), validate(predicate = pred_i64, less_or_equal = 100), derive(Debug, Clone, Copy, TryFrom, Into))]
    pub struct IntI64SanPredLeConst(i64);
}
pub mod d_int_i64_ge_le_lit_const {
    use super::*;
    #[nutype(const_fn, validate(greater_or_equal = 1, less_or_equal = 100), derive(Debug, Clone, Copy, TryFrom, Into))]
    pub struct IntI64GeLeLitConst(i64);
}
pub mod d_int_i128_greater_sym {
    use super::*;
    #[nutype(validate(greater = sym_lo_i128()), derive(Debug, Clone, Copy, PartialEq, Eq, AsRef, Deref, Borrow, Into, TryFrom, FromStr, Display))]
    pub struct IntI128GreaterSym(i128);
}
pub mod d_int_i128_greater_or_equal_sym {
    use super::*;
    #[nutype(validate(greater_or_equal = sym_lo_i128()), derive(Debug, Clone, Copy, PartialEq, Eq, AsRef, Deref, Borrow, Into, TryFrom, FromStr, Display))]
    pub struct IntI128GreaterOrEqualSym(i128);
}
pub mod d_int_i128_less_sym {
    use super::*;
    #[nutype(validate(less = sym_hi_i128()), derive(Debug, Clone, Copy, PartialEq, Eq, AsRef, Deref, Borrow, Into, TryFrom, FromStr, Display))]
    pub struct IntI128LessSym(i128);
}
pub mod d_int_i128_less_or_equal_sym {
    use super::*;
    #[nutype(validate(less_or_equal = sym_hi_i128()), derive(Debug, Clone, Copy, PartialEq, Eq, AsRef, Deref, Borrow, Into, TryFrom, FromStr, Display))]
    pub struct IntI128LessOrEqualSym(i128);
}
pub mod d_int_i128_greater_less_sym {
    use super::*;
    #[nutype(validate(greater = sym_lo_i128(), less = sym_hi_i128()), derive(Debug, Clone, Copy, PartialEq, Eq, AsRef, Deref, Borrow, Into, TryFrom))]
    pub struct IntI128GreaterLessSym(i128);
}
pub mod d_int_i128_greater_less_or_equal_sym {
    use super::*;
    #[nutype(validate(greater = sym_lo_i128(), less_or_equal = sym_hi_i128()), derive(Debug, Clone, Copy, PartialEq, Eq, AsRef, Deref, Borrow, Into, TryFrom))]
    pub struct IntI128GreaterLessOrEqualSym(i128);
}
pub mod d_int_i128_greater_or_equal_less_sym {
    use super::*;
    #[nutype(validate(greater_or_equal = sym_lo_i128(), less = sym_hi_i128()), derive(Debug, Clone, Copy, PartialEq, Eq, AsRef, Deref, Borrow, Into, TryFrom))]
    pub struct IntI128GreaterOrEqualLessSym(i128);
}
pub mod d_int_i128_greater_or_equal_less_or_equal_sym {
    use super::*;
    #[nutype(validate(greater_or_equal = sym_lo_i128(), less_or_equal = sym_hi_i128()), derive(Debug, Clone, Copy, PartialEq, Eq, AsRef, Deref, Borrow, Into, TryFrom))]
    pub struct IntI128GreaterOrEqualLessOrEqualSym(i128);
}
pub mod d_int_i128_le_pred_ge_sym {
    use super::*;
    #[nutype(validate(less_or_equal = sym_hi_i128(), predicate = pred_i128, greater_or_equal = sym_lo_i128()), derive(Debug, TryFrom))]
    pub struct IntI128LePredGeSym(i128);
}
pub mod d_int_i128_custom {
    use super::*;
    #[nutype(validate(with = vfn_i128, error = MyErr), derive(Debug, TryFrom, AsRef))]
    pub struct IntI128Custom(i128);
}
pub mod d_int_i128_san_le {
    use super::*;
    #[nutype(sanitize(with = san_i128), validate(less_or_equal = sym_hi_i128()), derive(Debug, TryFrom, Into))]
    pub struct IntI128SanLe(i128);
}
pub mod d_int_i128_san2_nov {
    use super::*;
    #[nutype(sanitize(with = san2_i128), derive(Debug, From, Into, Deref, Default), default = 7)]
    pub struct IntI128San2Nov(i128);
}
pub mod d_int_i128_san_nov_tf {
    use super::*;
    #[nutype(sanitize(with = san_i128), derive(Debug, TryFrom, Into, AsRef))]
    pub struct IntI128SanNovTf(i128);
}
pub mod d_int_i128_greater_or_equal_lit_min {
    use super::*;
    #[nutype(validate(greater_or_equal = -170141183460469231731687303715884105728), derive(Debug, TryFrom))]
    pub struct IntI128GreaterOrEqualLitMin(i128);
}
pub mod d_int_i128_greater_lit_min1 {
    use super::*;
    #[nutype(validate(greater = -170141183460469231731687303715884105728), derive(Debug, TryFrom))]
    pub struct IntI128GreaterLitMin1(i128);
}
pub mod d_int_i128_less_or_equal_lit_max {
    use super::*;
    #[nutype(validate(less_or_equal = 170141183460469231731687303715884105727), derive(Debug, TryFrom))]
    pub struct IntI128LessOrEqualLitMax(i128);
}
pub mod d_int_i128_less_lit_max1 {
    use super::*;
    #[nutype(validate(less = 170141183460469231731687303715884105727), derive(Debug, TryFrom))]
    pub struct IntI128LessLitMax1(i128);
}
pub mod d_int_i128_greater_lit_zero {
    use super::*;
    #[nutype(validate(greater = 0), derive(Debug, TryFrom))]
    pub struct IntI128GreaterLitZero(i128);
}
pub mod d_int_i128_less_or_equal_lit_one {
    use super::*;
    #[nutype(validate(less_or_equal = 1), derive(Debug, TryFrom))]
    pub struct IntI128LessOrEqualLitOne(i128);
}
pub mod d_int_i128_greater_or_equal_lit_neg1 {
    use super::*;
    #[nutype(validate(greater_or_equal = -1), derive(Debug, TryFrom))]
    pub struct IntI128GreaterOrEqualLitNeg1(i128);
}
pub mod d_int_i128_less_lit_min_p1 {
    use super::*;
    #[nutype(validate(less = -170141183460469231731687303715884105727), derive(Debug, TryFrom))]
    pub struct IntI128LessLitMinP1(i128);
}
pub mod d_int_i128_greater_lit_max_m1 {
    use super::*;
    #[nutype(validate(greater = 170141183460469231731687303715884105726), derive(Debug, TryFrom))]
    pub struct IntI128GreaterLitMaxM1(i128);
}
pub mod d_int_i128_ge_le_lit {
    use super::*;
    #[nutype(validate(greater_or_equal = 1, less_or_equal = 100), derive(Debug, Clone, Copy, PartialEq, Eq, AsRef, Deref, Borrow, Into, TryFrom))]
    pub struct IntI128GeLeLit(i128);
}
pub mod d_int_i128_san_pred_le_const {
    use super::*;
    #[nutype(const_fn, sanitize(with = san_i128), validate(predicate = pred_i128, less_or_equal = 100), derive(Debug, Clone, Copy, TryFrom, Into))]
    pub struct IntI128SanPredLeConst(i128);
}
pub mod d_int_i128_ge_le_lit_const {
    use super::*;
    #[nutype(const_fn, validate(greater_or_equal = 1, less_or_equal = 100), derive(Debug, Clone, Copy, TryFrom, Into))]
    pub struct IntI128GeLeLitConst(i128);
}
pub mod d_int_isize_greater_sym {
    use super::*;
    #[nutype(validate(greater = sym_lo_isize()), derive(Debug, Clone, Copy, PartialEq, Eq, AsRef, Deref, Borrow, Into, TryFrom, FromStr, Display))]
    pub struct IntIsizeGreaterSym(isize);
}
pub mod d_int_isize_greater_or_equal_sym {
    use super::*;
    #[nutype(validate(greater_or_equal = sym_lo_isize()), derive(Debug, Clone, Copy, PartialEq, Eq, AsRef, Deref, Borrow, Into, TryFrom, FromStr, Display))]
    pub struct IntIsizeGreaterOrEqualSym(isize);
}
pub mod d_int_isize_less_sym {
    use super::*;
    #[nutype(validate(less = sym_hi_isize()), derive(Debug, Clone, Copy, PartialEq, Eq, AsRef, Deref, Borrow, Into, TryFrom, FromStr, Display))]
    pub struct IntIsizeLessSym(isize);
}
pub mod d_int_isize_less_or_equal_sym {
    use super::*;
    #[nutype(validate(less_or_equal = sym_hi_isize()), derive(Debug, Clone, Copy, PartialEq, Eq, AsRef, Deref, Borrow, Into, TryFrom, FromStr, Display))]
    pub struct IntIsizeLessOrEqualSym(isize);
}
pub mod d_int_isize_greater_less_sym {
    use super::*;
    #[nutype(validate(greater = sym_lo_isize(), less = sym_hi_isize()), derive(Debug, Clone, Copy, PartialEq, Eq, AsRef, Deref, Borrow, Into, TryFrom))]
    pub struct IntIsizeGreaterLessSym(isize);
}
pub mod d_int_isize_greater_less_or_equal_sym {
    use super::*;
    #[nutype(validate(greater = sym_lo_isize(), less_or_equal = sym_hi_isize()), derive(Debug, Clone, Copy, PartialEq, Eq, AsRef, Deref, Borrow, Into, TryFrom))]
    pub struct IntIsizeGreaterLessOrEqualSym(isize);
}
pub mod d_int_isize_greater_or_equal_less_sym {
    use super::*;
    #[nutype(validate(greater_or_equal = sym_lo_isize(), less = sym_hi_isize()), derive(Debug, Clone, Copy, PartialEq, Eq, AsRef, Deref, Borrow, Into, TryFrom))]
    pub struct IntIsizeGreaterOrEqualLessSym(isize);
}
pub mod d_int_isize_greater_or_equal_less_or_equal_sym {
    use super::*;
    #[nutype(validate(greater_or_equal = sym_lo_isize(), less_or_equal = sym_hi_isize()), derive(Debug, Clone, Copy, PartialEq, Eq, AsRef, Deref, Borrow, Into, TryFrom))]
    pub struct IntIsizeGreaterOrEqualLessOrEqualSym(isize);
}
pub mod d_int_isize_le_pred_ge_sym {
    use super::*;
    #[nutype(validate(less_or_equal = sym_hi_isize(), predicate = pred_isize, greater_or_equal = sym_lo_isize()), derive(Debug, TryFrom))]
    pub struct IntIsizeLePredGeSym(isize);
}
pub mod d_int_isize_custom {
    use super::*;
    #[nutype(validate(with = vfn_isize, error = MyErr), derive(Debug, TryFrom, AsRef))]
    pub struct IntIsizeCustom(isize);
}
pub mod d_int_isize_san_le {
    use super::*;
    #[nutype(sanitize(with = san_isize), validate(less_or_equal = sym_hi_isize()), derive(Debug, TryFrom, Into))]
    pub struct IntIsizeSanLe(isize);
}
pub mod d_int_isize_san2_nov {
    use super::*;
    #[nutype(sanitize(with = san2_isize), derive(Debug, From, Into, Deref, Default), default = 7)]
    pub struct IntIsizeSan2Nov(isize);
}
pub mod d_int_isize_san_nov_tf {
    use super::*;
    #[nutype(sanitize(with = san_isize), derive(Debug, TryFrom, Into, AsRef))]
    pub struct IntIsizeSanNovTf(isize);
}
pub mod d_int_isize_greater_or_equal_lit_min {
    use super::*;
    #[nutype(validate(greater_or_equal = -9223372036854775808), derive(Debug, TryFrom))]
    pub struct IntIsizeGreaterOrEqualLitMin(isize);
}
pub mod d_int_isize_greater_lit_min1 {
    use super::*;
    #[nutype(validate(greater = -9223372036854775808), derive(Debug, TryFrom))]
    pub struct IntIsizeGreaterLitMin1(isize);
}
pub mod d_int_isize_less_or_equal_lit_max {
    use super::*;
    #[nutype(validate(less_or_equal = 9223372036854775807), derive(Debug, TryFrom))]
    pub struct IntIsizeLessOrEqualLitMax(isize);
}
pub mod d_int_isize_less_lit_max1 {
    use super::*;
    #[nutype(validate(less = 9223372036854775807), derive(Debug, TryFrom))]
    pub struct IntIsizeLessLitMax1(isize);
}
pub mod d_int_isize_greater_lit_zero {
    use super::*;
    #[nutype(validate(greater = 0), derive(Debug, TryFrom))]
    pub struct IntIsizeGreaterLitZero(isize);
}
pub mod d_int_isize_less_or_equal_lit_one {
    use super::*;
    #[nutype(validate(less_or_equal = 1), derive(Debug, TryFrom))]
    pub struct IntIsizeLessOrEqualLitOne(isize);
}
pub mod d_int_isize_greater_or_equal_lit_neg1 {
    use super::*;
    #[nutype(validate(greater_or_equal = -1), derive(Debug, TryFrom))]
    pub struct IntIsizeGreaterOrEqualLitNeg1(isize);
}
pub mod d_int_isize_less_lit_min_p1 {
    use super::*;
    #[nutype(validate(less = -9223372036854775807), derive(Debug, TryFrom))]
    pub struct IntIsizeLessLitMinP1(isize);
}
pub mod d_int_isize_greater_lit_max_m1 {
    use super::*;
    #[nutype(validate(greater = 9223372036854775806), derive(Debug, TryFrom))]
    pub struct IntIsizeGreaterLitMaxM1(isize);
}
pub mod d_int_isize_ge_le_lit {
    use super::*;
    #[nutype(validate(greater_or_equal = 1, less_or_equal = 100), derive(Debug, Clone, Copy, PartialEq, Eq, AsRef, Deref, Borrow, Into, TryFrom))]
    pub struct IntIsizeGeLeLit(isize);
}
pub mod d_int_isize_san_pred_le_const {
    use super::*;
    #[nutype(const_fn, sanitize(with = san_isize), validate(predicate = pred_isize, less_or_equal = 100), derive(Debug, Clone, Copy, TryFrom, Into))]
    pub struct IntIsizeSanPredLeConst(isize);
}
pub mod d_int_isize_ge_le_lit_const {
    use super::*;
    #[nutype(const_fn, validate(greater_or_equal = 1, less_or_equal = 100), derive(Debug, Clone, Copy, TryFrom, Into))]
    pub struct IntIsizeGeLeLitConst(isize);
}
pub mod d_str_nos_nov {
    use super::*;
    #[nutype(derive(Debug, PartialEq, Eq, AsRef, Deref, Borrow, Into, From, FromStr, Display))]
    pub struct StrNosNov(String);
}
pub mod d_str_nos_ne {
    use super::*;
    #[nutype(validate(not_empty), derive(Debug, PartialEq, Eq, AsRef, Deref, Borrow, Into, TryFrom, FromStr, Display))]
    pub struct StrNosNe(String);
}
pub mod d_str_nos_min {
    use super::*;
    #[nutype(validate(len_char_min = sym_len_lo()), derive(Debug, PartialEq, Eq, AsRef, Deref, Borrow, Into, TryFrom, FromStr, Display))]
    pub struct StrNosMin(String);
}
pub mod d_str_nos_max {
    use super::*;
    #[nutype(validate(len_char_max = sym_len_hi()), derive(Debug, PartialEq, Eq, AsRef, Deref, Borrow, Into, TryFrom, FromStr, Display))]
    pub struct StrNosMax(String);
}
pub mod d_str_nos_minmax {
    use super::*;
    #[nutype(validate(len_char_min = 3, len_char_max = 20), derive(Debug, PartialEq, Eq, AsRef, Deref, Borrow, Into, TryFrom, FromStr, Display))]
    pub struct StrNosMinmax(String);
}
pub mod d_str_nos_pred {
    use super::*;
    #[nutype(validate(predicate = pred_s), derive(Debug, PartialEq, Eq, AsRef, Deref, Borrow, Into, TryFrom, FromStr, Display))]
    pub struct StrNosPred(String);
}
pub mod d_str_nos_all_a {
    use super::*;
    #[nutype(validate(not_empty, len_char_min = sym_len_lo(), len_char_max = sym_len_hi(), predicate = pred_s), derive(Debug, PartialEq, Eq, AsRef, Deref, Borrow, Into, TryFrom, FromStr, Display))]
    pub struct StrNosAllA(String);
}
pub mod d_str_nos_all_b {
    use super::*;
    #[nutype(validate(predicate = pred_s, len_char_max = sym_len_hi(), len_char_min = sym_len_lo(), not_empty), derive(Debug, PartialEq, Eq, AsRef, Deref, Borrow, Into, TryFrom, FromStr, Display))]
    pub struct StrNosAllB(String);
}
pub mod d_str_tr_nov {
    use super::*;
    #[nutype(sanitize(trim), derive(Debug, PartialEq, Eq, AsRef, Deref, Borrow, Into, From, FromStr, Display))]
    pub struct StrTrNov(String);
}
pub mod d_str_tr_ne {
    use super::*;
    #[nutype(sanitize(trim), validate(not_empty), derive(Debug, PartialEq, Eq, AsRef, Deref, Borrow, Into, TryFrom, FromStr, Display))]
    pub struct StrTrNe(String);
}
pub mod d_str_tr_min {
    use super::*;
    #[nutype(sanitize(trim), validate(len_char_min = sym_len_lo()), derive(Debug, PartialEq, Eq, AsRef, Deref, Borrow, Into, TryFrom, FromStr, Display))]
    pub struct StrTrMin(String);
}
pub mod d_str_tr_max {
    use super::*;
    #[nutype(sanitize(trim), validate(len_char_max = sym_len_hi()), derive(Debug, PartialEq, Eq, AsRef, Deref, Borrow, Into, TryFrom, FromStr, Display))]
    pub struct StrTrMax(String);
}
pub mod d_str_tr_minmax {
    use super::*;
    #[nutype(sanitize(trim), validate(len_char_min = 3, len_char_max = 20), derive(Debug, PartialEq, Eq, AsRef, Deref, Borrow, Into, TryFrom, FromStr, Display))]
    pub struct StrTrMinmax(String);
}
pub mod d_str_tr_pred {
    use super::*;
    #[nutype(sanitize(trim), validate(predicate = pred_s), derive(Debug, PartialEq, Eq, AsRef, Deref, Borrow, Into, TryFrom, FromStr, Display))]
    pub struct StrTrPred(String);
}
pub mod d_str_tr_all_a {
    use super::*;
    #[nutype(sanitize(trim), validate(not_empty, len_char_min = sym_len_lo(), len_char_max = sym_len_hi(), predicate = pred_s), derive(Debug, PartialEq, Eq, AsRef, Deref, Borrow, Into, TryFrom, FromStr, Display))]
    pub struct StrTrAllA(String);
}
pub mod d_str_tr_all_b {
    use super::*;
    #[nutype(sanitize(trim), validate(predicate = pred_s, len_char_max = sym_len_hi(), len_char_min = sym_len_lo(), not_empty), derive(Debug, PartialEq, Eq, AsRef, Deref, Borrow, Into, TryFrom, FromStr, Display))]
    pub struct StrTrAllB(String);
}
pub mod d_str_lo_nov {
    use super::*;
    #[nutype(sanitize(lowercase), derive(Debug, PartialEq, Eq, AsRef, Deref, Borrow, Into, From, FromStr, Display))]
    pub struct StrLoNov(String);
}
pub mod d_str_lo_ne {
    use super::*;
    #[nutype(sanitize(lowercase), validate(not_empty), derive(Debug, PartialEq, Eq, AsRef, Deref, Borrow, Into, TryFrom, FromStr, Display))]
    pub struct StrLoNe(String);
}
pub mod d_str_lo_min {
    use super::*;
    #[nutype(sanitize(lowercase), validate(len_char_min = sym_len_lo()), derive(Debug, PartialEq, Eq, AsRef, Deref, Borrow, Into, TryFrom, FromStr, Display))]
    pub struct StrLoMin(String);
}
pub mod d_str_lo_max {
    use super::*;
    #[nutype(sanitize(lowercase), validate(len_char_max = sym_len_hi()), derive(Debug, PartialEq, Eq, AsRef, Deref, Borrow, Into, TryFrom, FromStr, Display))]
    pub struct StrLoMax(String);
}
pub mod d_str_lo_minmax {
    use super::*;
    #[nutype(sanitize(lowercase), validate(len_char_min = 3, len_char_max = 20), derive(Debug, PartialEq, Eq, AsRef, Deref, Borrow, Into, TryFrom, FromStr, Display))]
    pub struct StrLoMinmax(String);
}
pub mod d_str_lo_pred {
    use super::*;
    #[nutype(sanitize(lowercase), validate(predicate = pred_s), derive(Debug, PartialEq, Eq, AsRef, Deref, Borrow, Into, TryFrom, FromStr, Display))]
    pub struct StrLoPred(String);
}
pub mod d_str_lo_all_a {
    use super::*;
    #[nutype(sanitize(lowercase), validate(not_empty, len_char_min = sym_len_lo(), len_char_max = sym_len_hi(), predicate = pred_s), derive(Debug, PartialEq, Eq, AsRef, Deref, Borrow, Into, TryFrom, FromStr, Display))]
    pub struct StrLoAllA(String);
}
pub mod d_str_lo_all_b {
    use super::*;
    #[nutype(sanitize(lowercase), validate(predicate = pred_s, len_char_max = sym_len_hi(), len_char_min = sym_len_lo(), not_empty), derive(Debug, PartialEq, Eq, AsRef, Deref, Borrow, Into, TryFrom, FromStr, Display))]
    pub struct StrLoAllB(String);
}
pub mod d_str_up_nov {
    use super::*;
    #[nutype(sanitize(uppercase), derive(Debug, PartialEq, Eq, AsRef, Deref, Borrow, Into, From, FromStr, Display))]
    pub struct StrUpNov(String);
}
pub mod d_str_up_ne {
    use super::*;
    #[nutype(sanitize(uppercase), validate(not_empty), derive(Debug, PartialEq, Eq, AsRef, Deref, Borrow, Into, TryFrom, FromStr, Display))]
    pub struct StrUpNe(String);
}
pub mod d_str_up_min {
    use super::*;
    #[nutype(sanitize(uppercase), validate(len_char_min = sym_len_lo()), derive(Debug, PartialEq, Eq, AsRef, Deref, Borrow, Into, TryFrom, FromStr, Display))]
    pub struct StrUpMin(String);
}
pub mod d_str_up_max {
    use super::*;
    #[nutype(sanitize(uppercase), validate(len_char_max = sym_len_hi()), derive(Debug, PartialEq, Eq, AsRef, Deref, Borrow, Into, TryFrom, FromStr, Display))]
    pub struct StrUpMax(String);
}
pub mod d_str_up_minmax {
    use super::*;
    #[nutype(sanitize(uppercase), validate(len_char_min = 3, len_char_max = 20), derive(Debug, PartialEq, Eq, AsRef, Deref, Borrow, Into, TryFrom, FromStr, Display))]
    pub struct StrUpMinmax(String);
}
pub mod d_str_up_pred {
    use super::*;
    #[nutype(sanitize(uppercase), validate(predicate = pred_s), derive(Debug, PartialEq, Eq, AsRef, Deref, Borrow, Into, TryFrom, FromStr, Display))]
    pub struct StrUpPred(String);
}
pub mod d_str_up_all_a {
    use super::*;
    #[nutype(sanitize(uppercase), validate(not_empty, len_char_min = sym_len_lo(), len_char_max = sym_len_hi(), predicate = pred_s), derive(Debug, PartialEq, Eq, AsRef, Deref, Borrow, Into, TryFrom, FromStr, Display))]
    pub struct StrUpAllA(String);
}
pub mod d_str_up_all_b {
    use super::*;
    #[nutype(sanitize(uppercase), validate(predicate = pred_s, len_char_max = sym_len_hi(), len_char_min = sym_len_lo(), not_empty), derive(Debug, PartialEq, Eq, AsRef, Deref, Borrow, Into, TryFrom, FromStr, Display))]
    pub struct StrUpAllB(String);
}
pub mod d_str_f_nov {
    use super::*;
    #[nutype(sanitize(with = san_s), derive(Debug, PartialEq, Eq, AsRef, Deref, Borrow, Into, From, FromStr, Display))]
    pub struct StrFNov(String);
}
pub mod d_str_f_ne {
    use super::*;
    #[nutype(sanitize(with = san_s), validate(not_empty), derive(Debug, PartialEq, Eq, AsRef, Deref, Borrow, Into, TryFrom, FromStr, Display))]
    pub struct StrFNe(String);
}
pub mod d_str_f_min {
    use super::*;
    #[nutype(sanitize(with = san_s), validate(len_char_min = sym_len_lo()), derive(Debug, PartialEq, Eq, AsRef, Deref, Borrow, Into, TryFrom, FromStr, Display))]
    pub struct StrFMin(String);
}
pub mod d_str_f_max {
    use super::*;
    #[nutype(sanitize(with = san_s), validate(len_char_max = sym_len_hi()), derive(Debug, PartialEq, Eq, AsRef, Deref, Borrow, Into, TryFrom, FromStr, Display))]
    pub struct StrFMax(String);
}
pub mod d_str_f_minmax {
    use super::*;
    #[nutype(sanitize(with = san_s), validate(len_char_min = 3, len_char_max = 20), derive(Debug, PartialEq, Eq, AsRef, Deref, Borrow, Into, TryFrom, FromStr, Display))]
    pub struct StrFMinmax(String);
}
pub mod d_str_f_pred {
    use super::*;
    #[nutype(sanitize(with = san_s), validate(predicate = pred_s), derive(Debug, PartialEq, Eq, AsRef, Deref, Borrow, Into, TryFrom, FromStr, Display))]
    pub struct StrFPred(String);
}
pub mod d_str_f_all_a {
    use super::*;
    #[nutype(sanitize(with = san_s), validate(not_empty, len_char_min = sym_len_lo(), len_char_max = sym_len_hi(), predicate = pred_s), derive(Debug, PartialEq, Eq, AsRef, Deref, Borrow, Into, TryFrom, FromStr, Display))]
    pub struct StrFAllA(String);
}
pub mod d_str_f_all_b {
    use super::*;
    #[nutype(sanitize(with = san_s), validate(predicate = pred_s, len_char_max = sym_len_hi(), len_char_min = sym_len_lo(), not_empty), derive(Debug, PartialEq, Eq, AsRef, Deref, Borrow, Into, TryFrom, FromStr, Display))]
    pub struct StrFAllB(String);
}
pub mod d_str_tr_lo_nov {
    use super::*;
    #[nutype(sanitize(trim, lowercase), derive(Debug, PartialEq, Eq, AsRef, Deref, Borrow, Into, From, FromStr, Display))]
    pub struct StrTrLoNov(String);
}
pub mod d_str_tr_lo_ne {
    use super::*;
    #[nutype(sanitize(trim, lowercase), validate(not_empty), derive(Debug, PartialEq, Eq, AsRef, Deref, Borrow, Into, TryFrom, FromStr, Display))]
    pub struct StrTrLoNe(String);
}
pub mod d_str_tr_lo_min {
    use super::*;
    #[nutype(sanitize(trim, lowercase), validate(len_char_min = sym_len_lo()), derive(Debug, PartialEq, Eq, AsRef, Deref, Borrow, Into, TryFrom, FromStr, Display))]
    pub struct StrTrLoMin(String);
}
pub mod d_str_tr_lo_max {
    use super::*;
    #[nutype(sanitize(trim, lowercase), validate(len_char_max = sym_len_hi()), derive(Debug, PartialEq, Eq, AsRef, Deref, Borrow, Into, TryFrom, FromStr, Display))]
    pub struct StrTrLoMax(String);
}
pub mod d_str_tr_lo_minmax {
    use super::*;
    #[nutype(sanitize(trim, lowercase), validate(len_char_min = 3, len_char_max = 20), derive(Debug, PartialEq, Eq, AsRef, Deref, Borrow, Into, TryFrom, FromStr, Display))]
    pub struct StrTrLoMinmax(String);
}
pub mod d_str_tr_lo_pred {
    use super::*;
    #[nutype(sanitize(trim, lowercase), validate(predicate = pred_s), derive(Debug, PartialEq, Eq, AsRef, Deref, Borrow, Into, TryFrom, FromStr, Display))]
    pub struct StrTrLoPred(String);
}
pub mod d_str_tr_lo_all_a {
    use super::*;
    #[nutype(sanitize(trim, lowercase), validate(not_empty, len_char_min = sym_len_lo(), len_char_max = sym_len_hi(), predicate = pred_s), derive(Debug, PartialEq, Eq, AsRef, Deref, Borrow, Into, TryFrom, FromStr, Display))]
    pub struct StrTrLoAllA(String);
}
pub mod d_str_tr_lo_all_b {
    use super::*;
    #[nutype(sanitize(trim, lowercase), validate(predicate = pred_s, len_char_max = sym_len_hi(), len_char_min = sym_len_lo(), not_empty), derive(Debug, PartialEq, Eq, AsRef, Deref, Borrow, Into, TryFrom, FromStr, Display))]
    pub struct StrTrLoAllB(String);
}
pub mod d_str_tr_up_nov {
    use super::*;
    #[nutype(sanitize(trim, uppercase), derive(Debug, PartialEq, Eq, AsRef, Deref, Borrow, Into, From, FromStr, Display))]
    pub struct StrTrUpNov(String);
}
pub mod d_str_tr_up_ne {
    use super::*;
    #[nutype(sanitize(trim, uppercase), validate(not_empty), derive(Debug, PartialEq, Eq, AsRef, Deref, Borrow, Into, TryFrom, FromStr, Display))]
    pub struct StrTrUpNe(String);
}
pub mod d_str_tr_up_min {
    use super::*;
    #[nutype(sanitize(trim, uppercase), validate(len_char_min = sym_len_lo()), derive(Debug, PartialEq, Eq, AsRef, Deref, Borrow, Into, TryFrom, FromStr, Display))]
    pub struct StrTrUpMin(String);
}
pub mod d_str_tr_up_max {
    use super::*;
    #[nutype(sanitize(trim, uppercase), validate(len_char_max = sym_len_hi()), derive(Debug, PartialEq, Eq, AsRef, Deref, Borrow, Into, TryFrom, FromStr, Display))]
    pub struct StrTrUpMax(String);
}
pub mod d_str_tr_up_minmax {
    use super::*;
    #[nutype(sanitize(trim, uppercase), validate(len_char_min = 3, len_char_max = 20), derive(Debug, PartialEq, Eq, AsRef, Deref, Borrow, Into, TryFrom, FromStr, Display))]
    pub struct StrTrUpMinmax(String);
}
pub mod d_str_tr_up_pred {
    use super::*;
    #[nutype(sanitize(trim, uppercase), validate(predicate = pred_s), derive(Debug, PartialEq, Eq, AsRef, Deref, Borrow, Into, TryFrom, FromStr, Display))]
    pub struct StrTrUpPred(String);
}
pub mod d_str_tr_up_all_a {
    use super::*;
    #[nutype(sanitize(trim, uppercase), validate(not_empty, len_char_min = sym_len_lo(), len_char_max = sym_len_hi(), predicate = pred_s), derive(Debug, PartialEq, Eq, AsRef, Deref, Borrow, Into, TryFrom, FromStr, Display))]
    pub struct StrTrUpAllA(String);
}
pub mod d_str_tr_up_all_b {
    use super::*;
    #[nutype(sanitize(trim, uppercase), validate(predicate = pred_s, len_char_max = sym_len_hi(), len_char_min = sym_len_lo(), not_empty), derive(Debug, PartialEq, Eq, AsRef, Deref, Borrow, Into, TryFrom, FromStr, Display))]
    pub struct StrTrUpAllB(String);
}
pub mod d_str_tr_f_nov {
    use super::*;
    #[nutype(sanitize(trim, with = san_s), derive(Debug, PartialEq, Eq, AsRef, Deref, Borrow, Into, From, FromStr, Display))]
    pub struct StrTrFNov(String);
}
pub mod d_str_tr_f_ne {
    use super::*;
    #[nutype(sanitize(trim, with = san_s), validate(not_empty), derive(Debug, PartialEq, Eq, AsRef, Deref, Borrow, Into, TryFrom, FromStr, Display))]
    pub struct StrTrFNe(String);
}
pub mod d_str_tr_f_min {
    use super::*;
    #[nutype(sanitize(trim, with = san_s), validate(len_char_min = sym_len_lo()), derive(Debug, PartialEq, Eq, AsRef, Deref, Borrow, Into, TryFrom, FromStr, Display))]
    pub struct StrTrFMin(String);
}
pub mod d_str_tr_f_max {
    use super::*;
    #[nutype(sanitize(trim, with = san_s), validate(len_char_max = sym_len_hi()), derive(Debug, PartialEq, Eq, AsRef, Deref, Borrow, Into, TryFrom, FromStr, Display))]
    pub struct StrTrFMax(String);
}
pub mod d_str_tr_f_minmax {
    use super::*;
    #[nutype(sanitize(trim, with = san_s), validate(len_char_min = 3, len_char_max = 20), derive(Debug, PartialEq, Eq, AsRef, Deref, Borrow, Into, TryFrom, FromStr, Display))]
    pub struct StrTrFMinmax(String);
}
pub mod d_str_tr_f_pred {
    use super::*;
    #[nutype(sanitize(trim, with = san_s), validate(predicate = pred_s), derive(Debug, PartialEq, Eq, AsRef, Deref, Borrow, Into, TryFrom, FromStr, Display))]
    pub struct StrTrFPred(String);
}
pub mod d_str_tr_f_all_a {
    use super::*;
    #[nutype(sanitize(trim, with = san_s), validate(not_empty, len_char_min = sym_len_lo(), len_char_max = sym_len_hi(), predicate = pred_s), derive(Debug, PartialEq, Eq, AsRef, Deref, Borrow, Into, TryFrom, FromStr, Display))]
    pub struct StrTrFAllA(String);
}
pub mod d_str_tr_f_all_b {
    use super::*;
    #[nutype(sanitize(trim, with = san_s), validate(predicate = pred_s, len_char_max = sym_len_hi(), len_char_min = sym_len_lo(), not_empty), derive(Debug, PartialEq, Eq, AsRef, Deref, Borrow, Into, TryFrom, FromStr, Display))]
    pub struct StrTrFAllB(String);
}
pub mod d_str_lo_tr_nov {
    use super::*;
    #[nutype(sanitize(lowercase, trim), derive(Debug, PartialEq, Eq, AsRef, Deref, Borrow, Into, From, FromStr, Display))]
    pub struct StrLoTrNov(String);
}
pub mod d_str_lo_tr_ne {
    use super::*;
    #[nutype(sanitize(lowercase, trim), validate(not_empty), derive(Debug, PartialEq, Eq, AsRef, Deref, Borrow, Into, TryFrom, FromStr, Display))]
    pub struct StrLoTrNe(String);
}
pub mod d_str_lo_tr_min {
    use super::*;
    #[nutype(sanitize(lowercase, trim), validate(len_char_min = sym_len_lo()), derive(Debug, PartialEq, Eq, AsRef, Deref, Borrow, Into, TryFrom, FromStr, Display))]
    pub struct StrLoTrMin(String);
}
pub mod d_str_lo_tr_max {
    use super::*;
    #[nutype(sanitize(lowercase, trim), validate(len_char_max = sym_len_hi()), derive(Debug, PartialEq, Eq, AsRef, Deref, Borrow, Into, TryFrom, FromStr, Display))]
    pub struct StrLoTrMax(String);
}
pub mod d_str_lo_tr_minmax {
    use super::*;
    #[nutype(sanitize(lowercase, trim), validate(len_char_min = 3, len_char_max = 20), derive(Debug, PartialEq, Eq, AsRef, Deref, Borrow, Into, TryFrom, FromStr, Display))]
    pub struct StrLoTrMinmax(String);
}
pub mod d_str_lo_tr_pred {
    use super::*;
    #[nutype(sanitize(lowercase, trim), validate(predicate = pred_s), derive(Debug, PartialEq, Eq, AsRef, Deref, Borrow, Into, TryFrom, FromStr, Display))]
    pub struct StrLoTrPred(String);
}
pub mod d_str_lo_tr_all_a {
    use super::*;
    #[nutype(sanitize(lowercase, trim), validate(not_empty, len_char_min = sym_len_lo(), len_char_max = sym_len_hi(), predicate = pred_s), derive(Debug, PartialEq, Eq, AsRef, Deref, Borrow, Into, TryFrom, FromStr, Display))]
    pub struct StrLoTrAllA(String);
}
pub mod d_str_lo_tr_all_b {
    use super::*;
    #[nutype(sanitize(lowercase, trim), validate(predicate = pred_s, len_char_max = sym_len_hi(), len_char_min = sym_len_lo(), not_empty), derive(Debug, PartialEq, Eq, AsRef, Deref, Borrow, Into, TryFrom, FromStr, Display))]
    pub struct StrLoTrAllB(String);
}
pub mod d_str_lo_f_nov {
    use super::*;
    #[nutype(sanitize(lowercase, with = san_s), derive(Debug, PartialEq, Eq, AsRef, Deref, Borrow, Into, From, FromStr, Display))]
    pub struct StrLoFNov(String);
}
pub mod d_str_lo_f_ne {
    use super::*;
    #[nutype(sanitize(lowercase, with = san_s), validate(not_empty), derive(Debug, PartialEq, Eq, AsRef, Deref, Borrow, Into, TryFrom, FromStr, Display))]
    pub struct StrLoFNe(String);
}
pub mod d_str_lo_f_min {
    use super::*;
    #[nutype(sanitize(lowercase, with = san_s), validate(len_char_min = sym_len_lo()), derive(Debug, PartialEq, Eq, AsRef, Deref, Borrow, Into, TryFrom, FromStr, Display))]
    pub struct StrLoFMin(String);
}
pub mod d_str_lo_f_max {
    use super::*;
    #[nutype(sanitize(lowercase, with = san_s), validate(len_char_max = sym_len_hi()), derive(Debug, PartialEq, Eq, AsRef, Deref, Borrow, Into, TryFrom, FromStr, Display))]
    pub struct StrLoFMax(String);
}
pub mod d_str_lo_f_minmax {
    use super::*;
    #[nutype(sanitize(lowercase, with = san_s), validate(len_char_min = 3, len_char_max = 20), derive(Debug, PartialEq, Eq, AsRef, Deref, Borrow, Into, TryFrom, FromStr, Display))]
    pub struct StrLoFMinmax(String);
}
pub mod d_str_lo_f_pred {
    use super::*;
    #[nutype(sanitize(lowercase, with = san_s), validate(predicate = pred_s), derive(Debug, PartialEq, Eq, AsRef, Deref, Borrow, Into, TryFrom, FromStr, Display))]
    pub struct StrLoFPred(String);
}
pub mod d_str_lo_f_all_a {
    use super::*;
    #[nutype(sanitize(lowercase, with = san_s), validate(not_empty, len_char_min = sym_len_lo(), len_char_max = sym_len_hi(), predicate = pred_s), derive(Debug, PartialEq, Eq, AsRef, Deref, Borrow, Into, TryFrom, FromStr, Display))]
    pub struct StrLoFAllA(String);
}
pub mod d_str_lo_f_all_b {
    use super::*;
    #[nutype(sanitize(lowercase, with = san_s), validate(predicate = pred_s, len_char_max = sym_len_hi(), len_char_min = sym_len_lo(), not_empty), derive(Debug, PartialEq, Eq, AsRef, Deref, Borrow, Into, TryFrom, FromStr, Display))]
    pub struct StrLoFAllB(String);
}
pub mod d_str_up_tr_nov {
    use super::*;
    #[nutype(sanitize(uppercase, trim), derive(Debug, PartialEq, Eq, AsRef, Deref, Borrow, Into, From, FromStr, Display))]
    pub struct StrUpTrNov(String);
}
pub mod d_str_up_tr_ne {
    use super::*;
    #[nutype(sanitize(uppercase, trim), validate(not_empty), derive(Debug, PartialEq, Eq, AsRef, Deref, Borrow, Into, TryFrom, FromStr, Display))]
    pub struct StrUpTrNe(String);
}
pub mod d_str_up_tr_min {
    use super::*;
    #[nutype(sanitize(uppercase, trim), validate(len_char_min = sym_len_lo()), derive(Debug, PartialEq, Eq, AsRef, Deref, Borrow, Into, TryFrom, FromStr, Display))]
    pub struct StrUpTrMin(String);
}
pub mod d_str_up_tr_max {
    use super::*;
    #[nutype(sanitize(uppercase, trim), validate(len_char_max = sym_len_hi()), derive(Debug, PartialEq, Eq, AsRef, Deref, Borrow, Into, TryFrom, FromStr, Display))]
    pub struct StrUpTrMax(String);
}
pub mod d_str_up_tr_minmax {
    use super::*;
    #[nutype(sanitize(uppercase, trim), validate(len_char_min = 3, len_char_max = 20), derive(Debug, PartialEq, Eq, AsRef, Deref, Borrow, Into, TryFrom, FromStr, Display))]
    pub struct StrUpTrMinmax(String);
}
pub mod d_str_up_tr_pred {
    use super::*;
    #[nutype(sanitize(uppercase, trim), validate(predicate = pred_s), derive(Debug, PartialEq, Eq, AsRef, Deref, Borrow, Into, TryFrom, FromStr, Display))]
    pub struct StrUpTrPred(String);
}
pub mod d_str_up_tr_all_a {
    use super::*;
    #[nutype(sanitize(uppercase, trim), validate(not_empty, len_char_min = sym_len_lo(), len_char_max = sym_len_hi(), predicate = pred_s), derive(Debug, PartialEq, Eq, AsRef, Deref, Borrow, Into, TryFrom, FromStr, Display))]
    pub struct StrUpTrAllA(String);
}
pub mod d_str_up_tr_all_b {
    use super::*;
    #[nutype(sanitize(uppercase, trim), validate(predicate = pred_s, len_char_max = sym_len_hi(), len_char_min = sym_len_lo(), not_empty), derive(Debug, PartialEq, Eq, AsRef, Deref, Borrow, Into, TryFrom, FromStr, Display))]
    pub struct StrUpTrAllB(String);
}
pub mod d_str_up_f_nov {
    use super::*;
    #[nutype(sanitize(uppercase, with = san_s), derive(Debug, PartialEq, Eq, AsRef, Deref, Borrow, Into, From, FromStr, Display))]
    pub struct StrUpFNov(String);
}
pub mod d_str_up_f_ne {
    use super::*;
    #[nutype(sanitize(uppercase, with = san_s), validate(not_empty), derive(Debug, PartialEq, Eq, AsRef, Deref, Borrow, Into, TryFrom, FromStr, Display))]
    pub struct StrUpFNe(String);
}
pub mod d_str_up_f_min {
    use super::*;
    #[nutype(sanitize(uppercase, with = san_s), validate(len_char_min = sym_len_lo()), derive(Debug, PartialEq, Eq, AsRef, Deref, Borrow, Into, TryFrom, FromStr, Display))]
    pub struct StrUpFMin(String);
}
pub mod d_str_up_f_max {
    use super::*;
    #[nutype(sanitize(uppercase, with = san_s), validate(len_char_max = sym_len_hi()), derive(Debug, PartialEq, Eq, AsRef, Deref, Borrow, Into, TryFrom, FromStr, Display))]
    pub struct StrUpFMax(String);
}
pub mod d_str_up_f_minmax {
    use super::*;
    #[nutype(sanitize(uppercase, with = san_s), validate(len_char_min = 3, len_char_max = 20), derive(Debug, PartialEq, Eq, AsRef, Deref, Borrow, Into, TryFrom, FromStr, Display))]
    pub struct StrUpFMinmax(String);
}
pub mod d_str_up_f_pred {
    use super::*;
    #[nutype(sanitize(uppercase, with = san_s), validate(predicate = pred_s), derive(Debug, PartialEq, Eq, AsRef, Deref, Borrow, Into, TryFrom, FromStr, Display))]
    pub struct StrUpFPred(String);
}
pub mod d_str_up_f_all_a {
    use super::*;
    #[nutype(sanitize(uppercase, with = san_s), validate(not_empty, len_char_min = sym_len_lo(), len_char_max = sym_len_hi(), predicate = pred_s), derive(Debug, PartialEq, Eq, AsRef, Deref, Borrow, Into, TryFrom, FromStr, Display))]
    pub struct StrUpFAllA(String);
}
pub mod d_str_up_f_all_b {
    use super::*;
    #[nutype(sanitize(uppercase, with = san_s), validate(predicate = pred_s, len_char_max = sym_len_hi(), len_char_min = sym_len_lo(), not_empty), derive(Debug, PartialEq, Eq, AsRef, Deref, Borrow, Into, TryFrom, FromStr, Display))]
    pub struct StrUpFAllB(String);
}
pub mod d_str_f_tr_nov {
    use super::*;
    #[nutype(sanitize(with = san_s, trim), derive(Debug, PartialEq, Eq, AsRef, Deref, Borrow, Into, From, FromStr, Display))]
    pub struct StrFTrNov(String);
}
pub mod d_str_f_tr_ne {
    use super::*;
    #[nutype(sanitize(with = san_s, trim), validate(not_empty), derive(Debug, PartialEq, Eq, AsRef, Deref, Borrow, Into, TryFrom, FromStr, Display))]
    pub struct StrFTrNe(String);
}
pub mod d_str_f_tr_min {
    use super::*;
    #[nutype(sanitize(with = san_s, trim), validate(len_char_min = sym_len_lo()), derive(Debug, PartialEq, Eq, AsRef, Deref, Borrow, Into, TryFrom, FromStr, Display))]
    pub struct StrFTrMin(String);
}
pub mod d_str_f_tr_max {
    use super::*;
    #[nutype(sanitize(with = san_s, trim), validate(len_char_max = sym_len_hi()), derive(Debug, PartialEq, Eq, AsRef, Deref, Borrow, Into, TryFrom, FromStr, Display))]
    pub struct StrFTrMax(String);
}
pub mod d_str_f_tr_minmax {
    use super::*;
    #[nutype(sanitize(with = san_s, trim), validate(len_char_min = 3, len_char_max = 20), derive(Debug, PartialEq, Eq, AsRef, Deref, Borrow, Into, TryFrom, FromStr, Display))]
    pub struct StrFTrMinmax(String);
}
pub mod d_str_f_tr_pred {
    use super::*;
    #[nutype(sanitize(with = san_s, trim), validate(predicate = pred_s), derive(Debug, PartialEq, Eq, AsRef, Deref, Borrow, Into, TryFrom, FromStr, Display))]
    pub struct StrFTrPred(String);
}
pub mod d_str_f_tr_all_a {
    use super::*;
    #[nutype(sanitize(with = san_s, trim), validate(not_empty, len_char_min = sym_len_lo(), len_char_max = sym_len_hi(), predicate = pred_s), derive(Debug, PartialEq, Eq, AsRef, Deref, Borrow, Into, TryFrom, FromStr, Display))]
    pub struct StrFTrAllA(String);
}
pub mod d_str_f_tr_all_b {
    use super::*;
    #[nutype(sanitize(with = san_s, trim), validate(predicate = pred_s, len_char_max = sym_len_hi(), len_char_min = sym_len_lo(), not_empty), derive(Debug, PartialEq, Eq, AsRef, Deref, Borrow, Into, TryFrom, FromStr, Display))]
    pub struct StrFTrAllB(String);
}
pub mod d_str_f_lo_nov {
    use super::*;
    #[nutype(sanitize(with = san_s, lowercase), derive(Debug, PartialEq, Eq, AsRef, Deref, Borrow, Into, From, FromStr, Display))]
    pub struct StrFLoNov(String);
}
pub mod d_str_f_lo_ne {
    use super::*;
    #[nutype(sanitize(with = san_s, lowercase), validate(not_empty), derive(Debug, PartialEq, Eq, AsRef, Deref, Borrow, Into, TryFrom, FromStr, Display))]
    pub struct StrFLoNe(String);
}
pub mod d_str_f_lo_min {
    use super::*;
    #[nutype(sanitize(with = san_s, lowercase), validate(len_char_min = sym_len_lo()), derive(Debug, PartialEq, Eq, AsRef, Deref, Borrow, Into, TryFrom, FromStr, Display))]
    pub struct StrFLoMin(String);
}
pub mod d_str_f_lo_max {
    use super::*;
    #[nutype(sanitize(with = san_s, lowercase), validate(len_char_max = sym_len_hi()), derive(Debug, PartialEq, Eq, AsRef, Deref, Borrow, Into, TryFrom, FromStr, Display))]
    pub struct StrFLoMax(String);
}
pub mod d_str_f_lo_minmax {
    use super::*;
    #[nutype(sanitize(with = san_s, lowercase), validate(len_char_min = 3, len_char_max = 20), derive(Debug, PartialEq, Eq, AsRef, Deref, Borrow, Into, TryFrom, FromStr, Display))]
    pub struct StrFLoMinmax(String);
}
pub mod d_str_f_lo_pred {
    use super::*;
    #[nutype(sanitize(with = san_s, lowercase), validate(predicate = pred_s), derive(Debug, PartialEq, Eq, AsRef, Deref, Borrow, Into, TryFrom, FromStr, Display))]
    pub struct StrFLoPred(String);
}
pub mod d_str_f_lo_all_a {
    use super::*;
    #[nutype(sanitize(with = san_s, lowercase), validate(not_empty, len_char_min = sym_len_lo(), len_char_max = sym_len_hi(), predicate = pred_s), derive(Debug, PartialEq, Eq, AsRef, Deref, Borrow, Into, TryFrom, FromStr, Display))]
    pub struct StrFLoAllA(String);
}
pub mod d_str_f_lo_all_b {
    use super::*;
    #[nutype(sanitize(with = san_s, lowercase), validate(predicate = pred_s, len_char_max = sym_len_hi(), len_char_min = sym_len_lo(), not_empty), derive(Debug, PartialEq, Eq, AsRef, Deref, Borrow, Into, TryFrom, FromStr, Display))]
    pub struct StrFLoAllB(String);
}
pub mod d_str_f_up_nov {
    use super::*;
    #[nutype(sanitize(with = san_s, uppercase), derive(Debug, PartialEq, Eq, AsRef, Deref, Borrow, Into, From, FromStr, Display))]
    pub struct StrFUpNov(String);
}
pub mod d_str_f_up_ne {
    use super::*;
    #[nutype(sanitize(with = san_s, uppercase), validate(not_empty), derive(Debug, PartialEq, Eq, AsRef, Deref, Borrow, Into, TryFrom, FromStr, Display))]
    pub struct StrFUpNe(String);
}
pub mod d_str_f_up_min {
    use super::*;
    #[nutype(sanitize(with = san_s, uppercase), validate(len_char_min = sym_len_lo()), derive(Debug, PartialEq, Eq, AsRef, Deref, Borrow, Into, TryFrom, FromStr, Display))]
    pub struct StrFUpMin(String);
}
pub mod d_str_f_up_max {
    use super::*;
    #[nutype(sanitize(with = san_s, uppercase), validate(len_char_max = sym_len_hi()), derive(Debug, PartialEq, Eq, AsRef, Deref, Borrow, Into, TryFrom, FromStr, Display))]
    pub struct StrFUpMax(String);
}
pub mod d_str_f_up_minmax {
    use super::*;
    #[nutype(sanitize(with = san_s, uppercase), validate(len_char_min = 3, len_char_max = 20), derive(Debug, PartialEq, Eq, AsRef, Deref, Borrow, Into, TryFrom, FromStr, Display))]
    pub struct StrFUpMinmax(String);
}
pub mod d_str_f_up_pred {
    use super::*;
    #[nutype(sanitize(with = san_s, uppercase), validate(predicate = pred_s), derive(Debug, PartialEq, Eq, AsRef, Deref, Borrow, Into, TryFrom, FromStr, Display))]
    pub struct StrFUpPred(String);
}
pub mod d_str_f_up_all_a {
    use super::*;
    #[nutype(sanitize(with = san_s, uppercase), validate(not_empty, len_char_min = sym_len_lo(), len_char_max = sym_len_hi(), predicate = pred_s), derive(Debug, PartialEq, Eq, AsRef, Deref, Borrow, Into, TryFrom, FromStr, Display))]
    pub struct StrFUpAllA(String);
}
pub mod d_str_f_up_all_b {
    use super::*;
    #[nutype(sanitize(with = san_s, uppercase), validate(predicate = pred_s, len_char_max = sym_len_hi(), len_char_min = sym_len_lo(), not_empty), derive(Debug, PartialEq, Eq, AsRef, Deref, Borrow, Into, TryFrom, FromStr, Display))]
    pub struct StrFUpAllB(String);
}
pub mod d_str_tr_lo_f_nov {
    use super::*;
    #[nutype(sanitize(trim, lowercase, with = san_s), derive(Debug, PartialEq, Eq, AsRef, Deref, Borrow, Into, From, FromStr, Display))]
    pub struct StrTrLoFNov(String);
}
pub mod d_str_tr_lo_f_minmax {
    use super::*;
    #[nutype(sanitize(trim, lowercase, with = san_s), validate(len_char_min = 3, len_char_max = 20), derive(Debug, PartialEq, Eq, AsRef, Deref, Borrow, Into, TryFrom, FromStr, Display))]
    pub struct StrTrLoFMinmax(String);
}
pub mod d_str_tr_lo_f_all_a {
    use super::*;
    #[nutype(sanitize(trim, lowercase, with = san_s), validate(not_empty, len_char_min = sym_len_lo(), len_char_max = sym_len_hi(), predicate = pred_s), derive(Debug, PartialEq, Eq, AsRef, Deref, Borrow, Into, TryFrom, FromStr, Display))]
    pub struct StrTrLoFAllA(String);
}
pub mod d_str_tr_up_f_nov {
    use super::*;
    #[nutype(sanitize(trim, uppercase, with = san_s), derive(Debug, PartialEq, Eq, AsRef, Deref, Borrow, Into, From, FromStr, Display))]
    pub struct StrTrUpFNov(String);
}
pub mod d_str_tr_up_f_minmax {
    use super::*;
    #[nutype(sanitize(trim, uppercase, with = san_s), validate(len_char_min = 3, len_char_max = 20), derive(Debug, PartialEq, Eq, AsRef, Deref, Borrow, Into, TryFrom, FromStr, Display))]
    pub struct StrTrUpFMinmax(String);
}
pub mod d_str_tr_up_f_all_a {
    use super::*;
    #[nutype(sanitize(trim, uppercase, with = san_s), validate(not_empty, len_char_min = sym_len_lo(), len_char_max = sym_len_hi(), predicate = pred_s), derive(Debug, PartialEq, Eq, AsRef, Deref, Borrow, Into, TryFrom, FromStr, Display))]
    pub struct StrTrUpFAllA(String);
}
pub mod d_str_tr_f_lo_nov {
    use super::*;
    #[nutype(sanitize(trim, with = san_s, lowercase), derive(Debug, PartialEq, Eq, AsRef, Deref, Borrow, Into, From, FromStr, Display))]
    pub struct StrTrFLoNov(String);
}
pub mod d_str_tr_f_lo_minmax {
    use super::*;
    #[nutype(sanitize(trim, with = san_s, lowercase), validate(len_char_min = 3, len_char_max = 20), derive(Debug, PartialEq, Eq, AsRef, Deref, Borrow, Into, TryFrom, FromStr, Display))]
    pub struct StrTrFLoMinmax(String);
}
pub mod d_str_tr_f_lo_all_a {
    use super::*;
    #[nutype(sanitize(trim, with = san_s, lowercase), validate(not_empty, len_char_min = sym_len_lo(), len_char_max = sym_len_hi(), predicate = pred_s), derive(Debug, PartialEq, Eq, AsRef, Deref, Borrow, Into, TryFrom, FromStr, Display))]
    pub struct StrTrFLoAllA(String);
}
pub mod d_str_tr_f_up_nov {
    use super::*;
    #[nutype(sanitize(trim, with = san_s, uppercase), derive(Debug, PartialEq, Eq, AsRef, Deref, Borrow, Into, From, FromStr, Display))]
    pub struct StrTrFUpNov(String);
}
pub mod d_str_tr_f_up_minmax {
    use super::*;
    #[nutype(sanitize(trim, with = san_s, uppercase), validate(len_char_min = 3, len_char_max = 20), derive(Debug, PartialEq, Eq, AsRef, Deref, Borrow, Into, TryFrom, FromStr, Display))]
    pub struct StrTrFUpMinmax(String);
}
pub mod d_str_tr_f_up_all_a {
    use super::*;
    #[nutype(sanitize(trim, with = san_s, uppercase), validate(not_empty, len_char_min = sym_len_lo(), len_char_max = sym_len_hi(), predicate = pred_s), derive(Debug, PartialEq, Eq, AsRef, Deref, Borrow, Into, TryFrom, FromStr, Display))]
    pub struct StrTrFUpAllA(String);
}
pub mod d_str_lo_tr_f_nov {
    use super::*;
    #[nutype(sanitize(lowercase, trim, with = san_s), derive(Debug, PartialEq, Eq, AsRef, Deref, Borrow, Into, From, FromStr, Display))]
    pub struct StrLoTrFNov(String);
}
pub mod d_str_lo_tr_f_minmax {
    use super::*;
    #[nutype(sanitize(lowercase, trim, with = san_s), validate(len_char_min = 3, len_char_max = 20), derive(Debug, PartialEq, Eq, AsRef, Deref, Borrow, Into, TryFrom, FromStr, Display))]
    pub struct StrLoTrFMinmax(String);
}
pub mod d_str_lo_tr_f_all_a {
    use super::*;
    #[nutype(sanitize(lowercase, trim, with = san_s), validate(not_empty, len_char_min = sym_len_lo(), len_char_max = sym_len_hi(), predicate = pred_s), derive(Debug, PartialEq, Eq, AsRef, Deref, Borrow, Into, TryFrom, FromStr, Display))]
    pub struct StrLoTrFAllA(String);
}
pub mod d_str_lo_f_tr_nov {
    use super::*;
    #[nutype(sanitize(lowercase, with = san_s, trim), derive(Debug, PartialEq, Eq, AsRef, Deref, Borrow, Into, From, FromStr, Display))]
    pub struct StrLoFTrNov(String);
}
pub mod d_str_lo_f_tr_minmax {
    use super::*;
    #[nutype(sanitize(lowercase, with = san_s, trim), validate(len_char_min = 3, len_char_max = 20), derive(Debug, PartialEq, Eq, AsRef, Deref, Borrow, Into, TryFrom, FromStr, Display))]
    pub struct StrLoFTrMinmax(String);
}
pub mod d_str_lo_f_tr_all_a {
    use super::*;
    #[nutype(sanitize(lowercase, with = san_s, trim), validate(not_empty, len_char_min = sym_len_lo(), len_char_max = sym_len_hi(), predicate = pred_s), derive(Debug, PartialEq, Eq, AsRef, Deref, Borrow, Into, TryFrom, FromStr, Display))]
    pub struct StrLoFTrAllA(String);
}
pub mod d_str_up_tr_f_nov {
    use super::*;
    #[nutype(sanitize(uppercase, trim, with = san_s), derive(Debug, PartialEq, Eq, AsRef, Deref, Borrow, Into, From, FromStr, Display))]
    pub struct StrUpTrFNov(String);
}
pub mod d_str_up_tr_f_minmax {
    use super::*;
    #[nutype(sanitize(uppercase, trim, with = san_s), validate(len_char_min = 3, len_char_max = 20), derive(Debug, PartialEq, Eq, AsRef, Deref, Borrow, Into, TryFrom, FromStr, Display))]
    pub struct StrUpTrFMinmax(String);
}
pub mod d_str_up_tr_f_all_a {
    use super::*;
    #[nutype(sanitize(uppercase, trim, with = san_s), validate(not_empty, len_char_min = sym_len_lo(), len_char_max = sym_len_hi(), predicate = pred_s), derive(Debug, PartialEq, Eq, AsRef, Deref, Borrow, Into, TryFrom, FromStr, Display))]
    pub struct StrUpTrFAllA(String);
}
pub mod d_str_up_f_tr_nov {
    use super::*;
    #[nutype(sanitize(uppercase, with = san_s, trim), derive(Debug, PartialEq, Eq, AsRef, Deref, Borrow, Into, From, FromStr, Display))]
    pub struct StrUpFTrNov(String);
}
pub mod d_str_up_f_tr_minmax {
    use super::*;
    #[nutype(sanitize(uppercase, with = san_s, trim), validate(len_char_min = 3, len_char_max = 20), derive(Debug, PartialEq, Eq, AsRef, Deref, Borrow, Into, TryFrom, FromStr, Display))]
    pub struct StrUpFTrMinmax(String);
}
pub mod d_str_up_f_tr_all_a {
    use super::*;
    #[nutype(sanitize(uppercase, with = san_s, trim), validate(not_empty, len_char_min = sym_len_lo(), len_char_max = sym_len_hi(), predicate = pred_s), derive(Debug, PartialEq, Eq, AsRef, Deref, Borrow, Into, TryFrom, FromStr, Display))]
    pub struct StrUpFTrAllA(String);
}
pub mod d_str_f_tr_lo_nov {
    use super::*;
    #[nutype(sanitize(with = san_s, trim, lowercase), derive(Debug, PartialEq, Eq, AsRef, Deref, Borrow, Into, From, FromStr, Display))]
    pub struct StrFTrLoNov(String);
}
pub mod d_str_f_tr_lo_minmax {
    use super::*;
    #[nutype(sanitize(with = san_s, trim, lowercase), validate(len_char_min = 3, len_char_max = 20), derive(Debug, PartialEq, Eq, AsRef, Deref, Borrow, Into, TryFrom, FromStr, Display))]
    pub struct StrFTrLoMinmax(String);
}
pub mod d_str_f_tr_lo_all_a {
    use super::*;
    #[nutype(sanitize(with = san_s, trim, lowercase), validate(not_empty, len_char_min = sym_len_lo(), len_char_max = sym_len_hi(), predicate = pred_s), derive(Debug, PartialEq, Eq, AsRef, Deref, Borrow, Into, TryFrom, FromStr, Display))]
    pub struct StrFTrLoAllA(String);
}
pub mod d_str_f_tr_up_nov {
    use super::*;
    #[nutype(sanitize(with = san_s, trim, uppercase), derive(Debug, PartialEq, Eq, AsRef, Deref, Borrow, Into, From, FromStr, Display))]
    pub struct StrFTrUpNov(String);
}
pub mod d_str_f_tr_up_minmax {
    use super::*;
    #[nutype(sanitize(with = san_s, trim, uppercase), validate(len_char_min = 3, len_char_max = 20), derive(Debug, PartialEq, Eq, AsRef, Deref, Borrow, Into, TryFrom, FromStr, Display))]
    pub struct StrFTrUpMinmax(String);
}
pub mod d_str_f_tr_up_all_a {
    use super::*;
    #[nutype(sanitize(with = san_s, trim, uppercase), validate(not_empty, len_char_min = sym_len_lo(), len_char_max = sym_len_hi(), predicate = pred_s), derive(Debug, PartialEq, Eq, AsRef, Deref, Borrow, Into, TryFrom, FromStr, Display))]
    pub struct StrFTrUpAllA(String);
}
pub mod d_str_f_lo_tr_nov {
    use super::*;
    #[nutype(sanitize(with = san_s, lowercase, trim), derive(Debug, PartialEq, Eq, AsRef, Deref, Borrow, Into, From, FromStr, Display))]
    pub struct StrFLoTrNov(String);
}
pub mod d_str_f_lo_tr_minmax {
    use super::*;
    #[nutype(sanitize(with = san_s, lowercase, trim), validate(len_char_min = 3, len_char_max = 20), derive(Debug, PartialEq, Eq, AsRef, Deref, Borrow, Into, TryFrom, FromStr, Display))]
    pub struct StrFLoTrMinmax(String);
}
pub mod d_str_f_lo_tr_all_a {
    use super::*;
    #[nutype(sanitize(with = san_s, lowercase, trim), validate(not_empty, len_char_min = sym_len_lo(), len_char_max = sym_len_hi(), predicate = pred_s), derive(Debug, PartialEq, Eq, AsRef, Deref, Borrow, Into, TryFrom, FromStr, Display))]
    pub struct StrFLoTrAllA(String);
}
pub mod d_str_f_up_tr_nov {
    use super::*;
    #[nutype(sanitize(with = san_s, uppercase, trim), derive(Debug, PartialEq, Eq, AsRef, Deref, Borrow, Into, From, FromStr, Display))]
    pub struct StrFUpTrNov(String);
}
pub mod d_str_f_up_tr_minmax {
    use super::*;
    #[nutype(sanitize(with = san_s, uppercase, trim), validate(len_char_min = 3, len_char_max = 20), derive(Debug, PartialEq, Eq, AsRef, Deref, Borrow, Into, TryFrom, FromStr, Display))]
    pub struct StrFUpTrMinmax(String);
}
pub mod d_str_f_up_tr_all_a {
    use super::*;
    #[nutype(sanitize(with = san_s, uppercase, trim), validate(not_empty, len_char_min = sym_len_lo(), len_char_max = sym_len_hi(), predicate = pred_s), derive(Debug, PartialEq, Eq, AsRef, Deref, Borrow, Into, TryFrom, FromStr, Display))]
    pub struct StrFUpTrAllA(String);
}
pub mod d_str_tr_nov_tf {
    use super::*;
    #[nutype(sanitize(trim), derive(Debug, TryFrom, FromStr, AsRef, Into))]
    pub struct StrTrNovTf(String);
}
pub mod d_str_lo_nov_tf {
    use super::*;
    #[nutype(sanitize(lowercase), derive(Debug, TryFrom, FromStr, AsRef, Into))]
    pub struct StrLoNovTf(String);
}
pub mod d_str_up_nov_tf {
    use super::*;
    #[nutype(sanitize(uppercase), derive(Debug, TryFrom, FromStr, AsRef, Into))]
    pub struct StrUpNovTf(String);
}
pub mod d_str_f_nov_tf {
    use super::*;
    #[nutype(sanitize(with = san_s), derive(Debug, TryFrom, FromStr, AsRef, Into))]
    pub struct StrFNovTf(String);
}
pub mod d_str_tr_lo_nov_tf {
    use super::*;
    #[nutype(sanitize(trim, lowercase), derive(Debug, TryFrom, FromStr, AsRef, Into))]
    pub struct StrTrLoNovTf(String);
}
pub mod d_str_tr_up_nov_tf {
    use super::*;
    #[nutype(sanitize(trim, uppercase), derive(Debug, TryFrom, FromStr, AsRef, Into))]
    pub struct StrTrUpNovTf(String);
}
pub mod d_str_tr_f_nov_tf {
    use super::*;
    #[nutype(sanitize(trim, with = san_s), derive(Debug, TryFrom, FromStr, AsRef, Into))]
    pub struct StrTrFNovTf(String);
}
pub mod d_str_lo_tr_nov_tf {
    use super::*;
    #[nutype(sanitize(lowercase, trim), derive(Debug, TryFrom, FromStr, AsRef, Into))]
    pub struct StrLoTrNovTf(String);
}
pub mod d_str_lo_f_nov_tf {
    use super::*;
    #[nutype(sanitize(lowercase, with = san_s), derive(Debug, TryFrom, FromStr, AsRef, Into))]
    pub struct StrLoFNovTf(String);
}
pub mod d_str_up_tr_nov_tf {
    use super::*;
    #[nutype(sanitize(uppercase, trim), derive(Debug, TryFrom, FromStr, AsRef, Into))]
    pub struct StrUpTrNovTf(String);
}
pub mod d_str_up_f_nov_tf {
    use super::*;
    #[nutype(sanitize(uppercase, with = san_s), derive(Debug, TryFrom, FromStr, AsRef, Into))]
    pub struct StrUpFNovTf(String);
}
pub mod d_str_f_tr_nov_tf {
    use super::*;
    #[nutype(sanitize(with = san_s, trim), derive(Debug, TryFrom, FromStr, AsRef, Into))]
    pub struct StrFTrNovTf(String);
}
pub mod d_str_f_lo_nov_tf {
    use super::*;
    #[nutype(sanitize(with = san_s, lowercase), derive(Debug, TryFrom, FromStr, AsRef, Into))]
    pub struct StrFLoNovTf(String);
}
pub mod d_str_f_up_nov_tf {
    use super::*;
    #[nutype(sanitize(with = san_s, uppercase), derive(Debug, TryFrom, FromStr, AsRef, Into))]
    pub struct StrFUpNovTf(String);
}
pub mod d_str_tr_lo_custom {
    use super::*;
    #[nutype(sanitize(trim, lowercase), validate(with = vfn_s, error = MyErr), derive(Debug, TryFrom, FromStr, AsRef, Into))]
    pub struct StrTrLoCustom(String);
}
pub mod d_any_point_pred {
    use super::*;
    #[nutype(validate(predicate = pred_point), derive(Debug, Clone, Copy, PartialEq, Eq, AsRef, Deref, Borrow, Into, TryFrom))]
    pub struct AnyPointPred(Point);
}
pub mod d_any_point_san_pred {
    use super::*;
    #[nutype(sanitize(with = san_point), validate(predicate = pred_point), derive(Debug, Clone, Copy, PartialEq, Eq, AsRef, Deref, Borrow, Into, TryFrom))]
    pub struct AnyPointSanPred(Point);
}
pub mod d_any_point_san_nov {
    use super::*;
    #[nutype(sanitize(with = san_point), derive(Debug, Clone, Copy, PartialEq, Eq, AsRef, Deref, Borrow, Into, From))]
    pub struct AnyPointSanNov(Point);
}
pub mod d_any_point_san_nov_tf {
    use super::*;
    #[nutype(sanitize(with = san_point), derive(Debug, Clone, Copy, PartialEq, Eq, AsRef, Deref, Borrow, Into, TryFrom))]
    pub struct AnyPointSanNovTf(Point);
}
pub mod d_any_point_custom {
    use super::*;
    #[nutype(sanitize(with = san_point), validate(with = vfn_point, error = MyErr), derive(Debug, Clone, Copy, PartialEq, Eq, AsRef, Deref, Borrow, Into, TryFrom))]
    pub struct AnyPointCustom(Point);
}
pub mod d_any_point_nothing {
    use super::*;
    #[nutype(derive(Debug, Clone, Copy, PartialEq, Eq, AsRef, Deref, Borrow, Into, From))]
    pub struct AnyPointNothing(Point);
}
pub mod d_any_pair_san_pred {
    use super::*;
    #[nutype(sanitize(with = san_pair), validate(predicate = pred_pair), derive(Debug, Clone, Copy, PartialEq, AsRef, Deref, Borrow, Into, TryFrom))]
    pub struct AnyPairSanPred((i32, u8));
}
pub mod d_any_pair_san_nov {
    use super::*;
    #[nutype(sanitize(with = san_pair), derive(Debug, Clone, Copy, PartialEq, AsRef, Deref, Into, From))]
    pub struct AnyPairSanNov((i32, u8));
}
pub mod d_any_opt_san_pred {
    use super::*;
    #[nutype(sanitize(with = san_opt), validate(predicate = pred_opt), derive(Debug, Clone, Copy, PartialEq, AsRef, Deref, Borrow, Into, TryFrom))]
    pub struct AnyOptSanPred(Option<i64>);
}
pub mod d_any_opt_san_nov {
    use super::*;
    #[nutype(sanitize(with = san_opt), derive(Debug, Clone, Copy, PartialEq, AsRef, Deref, Into, From))]
    pub struct AnyOptSanNov(Option<i64>);
}
pub mod d_any_vec_pred {
    use super::*;
    #[nutype(validate(predicate = pred_vec), derive(Debug, AsRef, Deref, Borrow, Into, TryFrom))]
    pub struct AnyVecPred<T>(Vec<T>);
}
pub mod d_any_vec_san_pred {
    use super::*;
    #[nutype(sanitize(with = san_vec), validate(predicate = pred_vec), derive(Debug, AsRef, Deref, Borrow, TryFrom))]
    pub struct AnyVecSanPred<T: Ord>(Vec<T>);
}
pub mod d_any_vec_san_nov {
    use super::*;
    #[nutype(sanitize(with = san_vec), derive(Debug, AsRef, Deref, Borrow, From))]
    pub struct AnyVecSanNov<T: Ord>(Vec<T>);
}
pub mod d_any_vec_san_nov_tf {
    use super::*;
    #[nutype(sanitize(with = san_vec), derive(Debug, AsRef, Deref, Borrow, TryFrom))]
    pub struct AnyVecSanNovTf<T: Ord>(Vec<T>);
}
pub mod d_any_vec_custom {
    use super::*;
    #[nutype(validate(with = vfn_vec, error = MyErr), derive(Debug, AsRef, Deref, Borrow, Into, TryFrom))]
    pub struct AnyVecCustom<T>(Vec<T>);
}
pub mod d_unck_i32_flag {
    use super::*;
    #[nutype(new_unchecked, validate(greater = sym_lo_i32()), derive(Debug, TryFrom, AsRef))]
    pub struct UnckI32Flag(i32);
}
pub mod d_unck_i32_flag_const {
    use super::*;
    #[nutype(new_unchecked, const_fn, validate(greater = 1), derive(Debug, TryFrom, AsRef))]
    pub struct UnckI32FlagConst(i32);
}
pub mod d_unck_i32_noflag {
    use super::*;
    #[nutype(validate(greater = sym_lo_i32()), derive(Debug, TryFrom, AsRef))]
    pub struct UnckI32Noflag(i32);
}
pub mod d_unck_u64_flag {
    use super::*;
    #[nutype(new_unchecked, validate(greater = sym_lo_u64()), derive(Debug, TryFrom, AsRef))]
    pub struct UnckU64Flag(u64);
}
pub mod d_unck_u64_flag_const {
    use super::*;
    #[nutype(new_unchecked, const_fn, validate(greater = 1), derive(Debug, TryFrom, AsRef))]
    pub struct UnckU64FlagConst(u64);
}
pub mod d_unck_u64_noflag {
    use super::*;
    #[nutype(validate(greater = sym_lo_u64()), derive(Debug, TryFrom, AsRef))]
    pub struct UnckU64Noflag(u64);
}
pub mod d_unck_str_flag {
    use super::*;
    #[nutype(new_unchecked, sanitize(trim), validate(not_empty), derive(Debug, TryFrom, AsRef))]
    pub struct UnckStrFlag(String);
}
pub mod d_unck_point_flag {
    use super::*;
    #[nutype(new_unchecked, validate(predicate = pred_point), derive(Debug, TryFrom, AsRef))]
    pub struct UnckPointFlag(Point);
}
pub mod d_unck_nov_flag {
    use super::*;
    #[nutype(new_unchecked, derive(Debug, From, AsRef))]
    pub struct UnckNovFlag(i16);
}
