#![allow(dead_code, unused_imports, unused_variables, unused_mut, non_snake_case, non_upper_case_globals, clippy::all)]
use nutype::nutype;
pub fn sym_lo_i32() -> i32 { 3 }
pub fn sym_hi_i32() -> i32 { 100 }
pub const fn san_i32(x: i32) -> i32 { if x > 50 { 50 } else { x } }
pub fn san3_i32(x: i32) -> i32 { x / (2 as i32) + (10 as i32) }
pub fn sym_lo_u8() -> u8 { 3 }
pub fn sym_hi_u8() -> u8 { 100 }
pub const fn san_u8(x: u8) -> u8 { if x > 50 { 50 } else { x } }
pub fn san3_u8(x: u8) -> u8 { x / (2 as u8) + (10 as u8) }
pub fn sym_lo_i64() -> i64 { 3 }
pub fn sym_hi_i64() -> i64 { 100 }
pub const fn san_i64(x: i64) -> i64 { if x > 50 { 50 } else { x } }
pub fn san3_i64(x: i64) -> i64 { x / (2 as i64) + (10 as i64) }
pub fn sym_lo_f32() -> f32 { 3.0 }
pub fn sym_hi_f32() -> f32 { 100.0 }
pub const fn san_f32(x: f32) -> f32 { if x < 0.0 { -x } else { x } }
pub fn san3_f32(x: f32) -> f32 { x / (2 as f32) + (10 as f32) }
pub fn sym_lo_f64() -> f64 { 3.0 }
pub fn sym_hi_f64() -> f64 { 100.0 }
pub const fn san_f64(x: f64) -> f64 { if x < 0.0 { -x } else { x } }
pub fn san3_f64(x: f64) -> f64 { x / (2 as f64) + (10 as f64) }
pub const fn san_i128(x: i128) -> i128 { if x > 50 { 50 } else { x } }
pub fn sym_lo_i128() -> i128 { 3 }
pub fn sym_hi_i128() -> i128 { 100 }

pub mod d_grd_i32_val {
    use super::*;
    #[nutype(validate(greater_or_equal = sym_lo_i32(), less = sym_hi_i32()), derive(Debug, TryFrom, FromStr, Serialize, Deserialize, Arbitrary))]
    pub struct GrdI32Val(i32);
}
pub mod d_grd_i32_san_val {
    use super::*;
    #[nutype(sanitize(with = san_i32), validate(greater_or_equal = sym_lo_i32(), less = sym_hi_i32()), derive(Debug, TryFrom, FromStr, Serialize, Deserialize))]
    pub struct GrdI32SanVal(i32);
}
pub mod d_grd_i32_san_nov {
    use super::*;
    #[nutype(sanitize(with = san_i32), derive(Debug, TryFrom, FromStr, Serialize, Deserialize))]
    pub struct GrdI32SanNov(i32);
}
pub mod d_grd_i32_san3_val {
    use super::*;
    #[nutype(sanitize(with = san3_i32), validate(greater_or_equal = sym_lo_i32(), less = sym_hi_i32()), derive(Debug, TryFrom, FromStr, Serialize, Deserialize))]
    pub struct GrdI32San3Val(i32);
}
pub mod d_grd_u8_val {
    use super::*;
    #[nutype(validate(greater_or_equal = sym_lo_u8(), less = sym_hi_u8()), derive(Debug, TryFrom, FromStr, Serialize, Deserialize, Arbitrary))]
    pub struct GrdU8Val(u8);
}
pub mod d_grd_u8_san_val {
    use super::*;
    #[nutype(sanitize(with = san_u8), validate(greater_or_equal = sym_lo_u8(), less = sym_hi_u8()), derive(Debug, TryFrom, FromStr, Serialize, Deserialize))]
    pub struct GrdU8SanVal(u8);
}
pub mod d_grd_u8_san_nov {
    use super::*;
    #[nutype(sanitize(with = san_u8), derive(Debug, TryFrom, FromStr, Serialize, Deserialize))]
    pub struct GrdU8SanNov(u8);
}
pub mod d_grd_u8_san3_val {
    use super::*;
    #[nutype(sanitize(with = san3_u8), validate(greater_or_equal = sym_lo_u8(), less = sym_hi_u8()), derive(Debug, TryFrom, FromStr, Serialize, Deserialize))]
    pub struct GrdU8San3Val(u8);
}
pub mod d_grd_i64_val {
    use super::*;
    #[nutype(validate(greater_or_equal = sym_lo_i64(), less = sym_hi_i64()), derive(Debug, TryFrom, FromStr, Serialize, Deserialize, Arbitrary))]
    pub struct GrdI64Val(i64);
}
pub mod d_grd_i64_san_val {
    use super::*;
    #[nutype(sanitize(with = san_i64), validate(greater_or_equal = sym_lo_i64(), less = sym_hi_i64()), derive(Debug, TryFrom, FromStr, Serialize, Deserialize))]
    pub struct GrdI64SanVal(i64);
}
pub mod d_grd_i64_san_nov {
    use super::*;
    #[nutype(sanitize(with = san_i64), derive(Debug, TryFrom, FromStr, Serialize, Deserialize))]
    pub struct GrdI64SanNov(i64);
}
pub mod d_grd_i64_san3_val {
    use super::*;
    #[nutype(sanitize(with = san3_i64), validate(greater_or_equal = sym_lo_i64(), less = sym_hi_i64()), derive(Debug, TryFrom, FromStr, Serialize, Deserialize))]
    pub struct GrdI64San3Val(i64);
}
pub mod d_grd_f32_val {
    use super::*;
    #[nutype(validate(finite, greater_or_equal = sym_lo_f32(), less = sym_hi_f32()), derive(Debug, TryFrom, FromStr, Serialize, Deserialize, Arbitrary))]
    pub struct GrdF32Val(f32);
}
pub mod d_grd_f32_san_val {
    use super::*;
    #[nutype(sanitize(with = san_f32), validate(finite, greater_or_equal = sym_lo_f32(), less = sym_hi_f32()), derive(Debug, TryFrom, FromStr, Serialize, Deserialize))]
    pub struct GrdF32SanVal(f32);
}
pub mod d_grd_f32_san_nov {
    use super::*;
    #[nutype(sanitize(with = san_f32), derive(Debug, TryFrom, FromStr, Serialize, Deserialize))]
    pub struct GrdF32SanNov(f32);
}
pub mod d_grd_f32_san3_val {
    use super::*;
    #[nutype(sanitize(with = san3_f32), validate(finite, greater_or_equal = sym_lo_f32(), less = sym_hi_f32()), derive(Debug, TryFrom, FromStr, Serialize, Deserialize))]
    pub struct GrdF32San3Val(f32);
}
pub mod d_grd_f64_val {
    use super::*;
    #[nutype(validate(finite, greater_or_equal = sym_lo_f64(), less = sym_hi_f64()), derive(Debug, TryFrom, FromStr, Serialize, Deserialize, Arbitrary))]
    pub struct GrdF64Val(f64);
}
pub mod d_grd_f64_san_val {
    use super::*;
    #[nutype(sanitize(with = san_f64), validate(finite, greater_or_equal = sym_lo_f64(), less = sym_hi_f64()), derive(Debug, TryFrom, FromStr, Serialize, Deserialize))]
    pub struct GrdF64SanVal(f64);
}
pub mod d_grd_f64_san_nov {
    use super::*;
    #[nutype(sanitize(with = san_f64), derive(Debug, TryFrom, FromStr, Serialize, Deserialize))]
    pub struct GrdF64SanNov(f64);
}
pub mod d_grd_f64_san3_val {
    use super::*;
    #[nutype(sanitize(with = san3_f64), validate(finite, greater_or_equal = sym_lo_f64(), less = sym_hi_f64()), derive(Debug, TryFrom, FromStr, Serialize, Deserialize))]
    pub struct GrdF64San3Val(f64);
}
pub mod d_def_i32_valid {
    use super::*;
    #[nutype(validate(greater_or_equal = 0, less_or_equal = 10), derive(Debug, Default), default = 5)]
    pub struct DefI32Valid(i32);
}
pub mod d_def_i32_sanitized {
    use super::*;
    #[nutype(sanitize(with = san_i32), validate(less_or_equal = 60), derive(Debug, Default), default = 77)]
    pub struct DefI32Sanitized(i32);
}
pub mod d_def_i32_symbolic_valid {
    use super::*;
    #[nutype(validate(greater_or_equal = sym_lo_i32()), derive(Debug, Default), default = sym_hi_i32())]
    pub struct DefI32SymbolicValid(i32);
}
pub mod d_def_u8_valid {
    use super::*;
    #[nutype(validate(greater_or_equal = 0, less_or_equal = 10), derive(Debug, Default), default = 5)]
    pub struct DefU8Valid(u8);
}
pub mod d_def_u8_sanitized {
    use super::*;
    #[nutype(sanitize(with = san_u8), validate(less_or_equal = 60), derive(Debug, Default), default = 77)]
    pub struct DefU8Sanitized(u8);
}
pub mod d_def_u8_symbolic_valid {
    use super::*;
    #[nutype(validate(greater_or_equal = sym_lo_u8()), derive(Debug, Default), default = sym_hi_u8())]
    pub struct DefU8SymbolicValid(u8);
}
pub mod d_def_f64_valid {
    use super::*;
    #[nutype(validate(greater_or_equal = 0.0, less_or_equal = 10.0), derive(Debug, Default), default = 5.0)]
    pub struct DefF64Valid(f64);
}
pub mod d_def_f64_sanitized {
    use super::*;
    #[nutype(sanitize(with = san_f64), validate(less_or_equal = 60.0), derive(Debug, Default), default = -3.0)]
    pub struct DefF64Sanitized(f64);
}
pub mod d_def_f64_symbolic_valid {
    use super::*;
    #[nutype(validate(greater_or_equal = sym_lo_f64()), derive(Debug, Default), default = sym_hi_f64())]
    pub struct DefF64SymbolicValid(f64);
}
pub mod d_def_f32_valid {
    use super::*;
    #[nutype(validate(greater_or_equal = 0.0, less_or_equal = 10.0), derive(Debug, Default), default = 5.0)]
    pub struct DefF32Valid(f32);
}
pub mod d_def_f32_sanitized {
    use super::*;
    #[nutype(sanitize(with = san_f32), validate(less_or_equal = 60.0), derive(Debug, Default), default = -3.0)]
    pub struct DefF32Sanitized(f32);
}
pub mod d_def_f32_symbolic_valid {
    use super::*;
    #[nutype(validate(greater_or_equal = sym_lo_f32()), derive(Debug, Default), default = sym_hi_f32())]
    pub struct DefF32SymbolicValid(f32);
}
pub mod d_def_i128_valid {
    use super::*;
    #[nutype(validate(greater_or_equal = 0, less_or_equal = 10), derive(Debug, Default), default = 5)]
    pub struct DefI128Valid(i128);
}
pub mod d_def_i128_sanitized {
    use super::*;
    #[nutype(sanitize(with = san_i128), validate(less_or_equal = 60), derive(Debug, Default), default = 77)]
    pub struct DefI128Sanitized(i128);
}
pub mod d_def_i128_symbolic_valid {
    use super::*;
    #[nutype(validate(greater_or_equal = sym_lo_i128()), derive(Debug, Default), default = sym_hi_i128())]
    pub struct DefI128SymbolicValid(i128);
}
