// NUTYPE_VERIF_INPUT #[nutype(validate(greater_or_equal = sym_lo_u8(), less = sym_hi_u8()), derive(Debug))] pub struct C16U8GeLtEmbed(u8);
#[doc(hidden)]
#[allow(
    non_snake_case,
    reason = "we keep original structure name which is probably CamelCase"
)]
mod __nutype_C16U8GeLtEmbed__ {
    use super::*;
    #[derive(Debug)]
    pub struct C16U8GeLtEmbed(u8);
    #[derive(Debug, Clone, PartialEq, Eq)]
    #[allow(clippy::enum_variant_names)]
    pub enum C16U8GeLtEmbedError {
        GreaterOrEqualViolated,
        LessViolated,
    }
    impl ::core::fmt::Display for C16U8GeLtEmbedError {
        fn fmt(&self, f: &mut ::core::fmt::Formatter<'_>) -> ::core::fmt::Result {
            match self {
                C16U8GeLtEmbedError::GreaterOrEqualViolated => write!(
                    f,
                    "{} is too small. The value must be greater or equal to {:#?}.",
                    stringify!(C16U8GeLtEmbed),
                    sym_lo_u8()
                ),
                C16U8GeLtEmbedError::LessViolated => write!(
                    f,
                    "{} is too big. The value must be less than {:#?}.",
                    stringify!(C16U8GeLtEmbed),
                    sym_hi_u8()
                ),
            }
        }
    }
    impl ::core::error::Error for C16U8GeLtEmbedError {
        fn source(&self) -> Option<&(dyn ::core::error::Error + 'static)> {
            None
        }
    }
    impl C16U8GeLtEmbed {
        pub fn try_new(raw_value: u8) -> ::core::result::Result<Self, C16U8GeLtEmbedError> {
            let sanitized_value: u8 = Self::__sanitize__(raw_value);
            #[allow(clippy::question_mark)]
            if let Err(e) = Self::__validate__(&sanitized_value) {
                return Err(e);
            }
            Ok(C16U8GeLtEmbed(sanitized_value))
        }
        fn __sanitize__(mut value: u8) -> u8 {
            value
        }
        fn __validate__(val: &u8) -> ::core::result::Result<(), C16U8GeLtEmbedError> {
            let val = *val;
            if val < sym_lo_u8() {
                return Err(C16U8GeLtEmbedError::GreaterOrEqualViolated);
            }
            if val >= sym_hi_u8() {
                return Err(C16U8GeLtEmbedError::LessViolated);
            }
            Ok(())
        }
    }
    impl C16U8GeLtEmbed {
        #[inline]
        pub fn into_inner(self) -> u8 {
            self.0
        }
    }
    #[cfg(test)]
    mod tests {
        use super::*;
        #[test]
        fn should_have_consistent_lower_and_upper_boundaries() {
            assert!
            (sym_hi_u8() >= sym_lo_u8(),
            "\nInconsistent lower and upper boundaries for type `C16U8GeLtEmbed`\nThe upper boundary `sym_hi_u8()` must be greater than or equal to the lower boundary `sym_lo_u8()`\nNote: the test is generated automatically by #[nutype] macro.\n");
        }
    }
}
pub use __nutype_C16U8GeLtEmbed__::C16U8GeLtEmbed;
pub use __nutype_C16U8GeLtEmbed__::C16U8GeLtEmbedError;
