// NUTYPE_VERIF_INPUT #[nutype(validate(less_or_equal = sym_hi_i32(), greater = sym_lo_i32()), derive(Debug))] pub struct C16I32LeGtEmbed(i32);
#[doc(hidden)]
#[allow(
    non_snake_case,
    reason = "we keep original structure name which is probably CamelCase"
)]
mod __nutype_C16I32LeGtEmbed__ {
    use super::*;
    #[derive(Debug)]
    pub struct C16I32LeGtEmbed(i32);
    #[derive(Debug, Clone, PartialEq, Eq)]
    #[allow(clippy::enum_variant_names)]
    pub enum C16I32LeGtEmbedError {
        LessOrEqualViolated,
        GreaterViolated,
    }
    impl ::core::fmt::Display for C16I32LeGtEmbedError {
        fn fmt(&self, f: &mut ::core::fmt::Formatter<'_>) -> ::core::fmt::Result {
            match self {
                C16I32LeGtEmbedError::LessOrEqualViolated => write!(
                    f,
                    "{} is too big. The value must be less or equal to {:#?}.",
                    stringify!(C16I32LeGtEmbed),
                    sym_hi_i32()
                ),
                C16I32LeGtEmbedError::GreaterViolated => write!(
                    f,
                    "{} is too small. The value must be greater than {:#?}.",
                    stringify!(C16I32LeGtEmbed),
                    sym_lo_i32()
                ),
            }
        }
    }
    impl ::core::error::Error for C16I32LeGtEmbedError {
        fn source(&self) -> Option<&(dyn ::core::error::Error + 'static)> {
            None
        }
    }
    impl C16I32LeGtEmbed {
        pub fn try_new(raw_value: i32) -> ::core::result::Result<Self, C16I32LeGtEmbedError> {
            let sanitized_value: i32 = Self::__sanitize__(raw_value);
            #[allow(clippy::question_mark)]
            if let Err(e) = Self::__validate__(&sanitized_value) {
                return Err(e);
            }
            Ok(C16I32LeGtEmbed(sanitized_value))
        }
        fn __sanitize__(mut value: i32) -> i32 {
            value
        }
        fn __validate__(val: &i32) -> ::core::result::Result<(), C16I32LeGtEmbedError> {
            let val = *val;
            if val > sym_hi_i32() {
                return Err(C16I32LeGtEmbedError::LessOrEqualViolated);
            }
            if val <= sym_lo_i32() {
                return Err(C16I32LeGtEmbedError::GreaterViolated);
            }
            Ok(())
        }
    }
    impl C16I32LeGtEmbed {
        #[inline]
        pub fn into_inner(self) -> i32 {
            self.0
        }
    }
    #[cfg(test)]
    mod tests {
        use super::*;
        #[test]
        fn should_have_consistent_lower_and_upper_boundaries() {
            assert!
            (sym_hi_i32() >= sym_lo_i32(),
            "\nInconsistent lower and upper boundaries for type `C16I32LeGtEmbed`\nThe upper boundary `sym_hi_i32()` must be greater than or equal to the lower boundary `sym_lo_i32()`\nNote: the test is generated automatically by #[nutype] macro.\n");
        }
    }
}
pub use __nutype_C16I32LeGtEmbed__::C16I32LeGtEmbed;
pub use __nutype_C16I32LeGtEmbed__::C16I32LeGtEmbedError;
