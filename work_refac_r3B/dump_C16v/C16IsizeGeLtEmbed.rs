// NUTYPE_VERIF_INPUT #[nutype(validate(greater_or_equal = sym_lo_isize(), less = sym_hi_isize()), derive(Debug))] pub struct C16IsizeGeLtEmbed(isize);
#[doc(hidden)]
#[allow(
    non_snake_case,
    reason = "we keep original structure name which is probably CamelCase"
)]
mod __nutype_C16IsizeGeLtEmbed__ {
    use super::*;
    #[derive(Debug)]
    pub struct C16IsizeGeLtEmbed(isize);
    #[derive(Debug, Clone, PartialEq, Eq)]
    #[allow(clippy::enum_variant_names)]
    pub enum C16IsizeGeLtEmbedError {
        GreaterOrEqualViolated,
        LessViolated,
    }
    impl ::core::fmt::Display for C16IsizeGeLtEmbedError {
        fn fmt(&self, f: &mut ::core::fmt::Formatter<'_>) -> ::core::fmt::Result {
            match self {
                C16IsizeGeLtEmbedError::GreaterOrEqualViolated => write!(
                    f,
                    "{} is too small. The value must be greater or equal to {:#?}.",
                    stringify!(C16IsizeGeLtEmbed),
                    sym_lo_isize()
                ),
                C16IsizeGeLtEmbedError::LessViolated => write!(
                    f,
                    "{} is too big. The value must be less than {:#?}.",
                    stringify!(C16IsizeGeLtEmbed),
                    sym_hi_isize()
                ),
            }
        }
    }
    impl ::core::error::Error for C16IsizeGeLtEmbedError {
        fn source(&self) -> Option<&(dyn ::core::error::Error + 'static)> {
            None
        }
    }
    impl C16IsizeGeLtEmbed {
        pub fn try_new(raw_value: isize) -> ::core::result::Result<Self, C16IsizeGeLtEmbedError> {
            let sanitized_value: isize = Self::__sanitize__(raw_value);
            #[allow(clippy::question_mark)]
            if let Err(e) = Self::__validate__(&sanitized_value) {
                return Err(e);
            }
            Ok(C16IsizeGeLtEmbed(sanitized_value))
        }
        fn __sanitize__(mut value: isize) -> isize {
            value
        }
        fn __validate__(val: &isize) -> ::core::result::Result<(), C16IsizeGeLtEmbedError> {
            let val = *val;
            if val < sym_lo_isize() {
                return Err(C16IsizeGeLtEmbedError::GreaterOrEqualViolated);
            }
            if val >= sym_hi_isize() {
                return Err(C16IsizeGeLtEmbedError::LessViolated);
            }
            Ok(())
        }
    }
    impl C16IsizeGeLtEmbed {
        #[inline]
        pub fn into_inner(self) -> isize {
            self.0
        }
    }
    #[cfg(test)]
    mod tests {
        use super::*;
        #[test]
        fn should_have_consistent_lower_and_upper_boundaries() {
            assert!
            (sym_hi_isize() >= sym_lo_isize(),
            "\nInconsistent lower and upper boundaries for type `C16IsizeGeLtEmbed`\nThe upper boundary `sym_hi_isize()` must be greater than or equal to the lower boundary `sym_lo_isize()`\nNote: the test is generated automatically by #[nutype] macro.\n");
        }
    }
}
pub use __nutype_C16IsizeGeLtEmbed__::C16IsizeGeLtEmbed;
pub use __nutype_C16IsizeGeLtEmbed__::C16IsizeGeLtEmbedError;
