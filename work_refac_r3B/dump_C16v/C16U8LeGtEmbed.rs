// NUTYPE_VERIF_INPUT #[nutype(validate(less_or_equal = sym_hi_u8(), greater = sym_lo_u8()), derive(Debug))] pub struct C16U8LeGtEmbed(u8);
#[doc(hidden)]
#[allow(
    non_snake_case,
    reason = "we keep original structure name which is probably CamelCase"
)]
mod __nutype_C16U8LeGtEmbed__ {
    use super::*;
    #[derive(Debug)]
    pub struct C16U8LeGtEmbed(u8);
    #[derive(Debug, Clone, PartialEq, Eq)]
    #[allow(clippy::enum_variant_names)]
    pub enum C16U8LeGtEmbedError {
        LessOrEqualViolated,
        GreaterViolated,
    }
    impl ::core::fmt::Display for C16U8LeGtEmbedError {
        fn fmt(&self, f: &mut ::core::fmt::Formatter<'_>) -> ::core::fmt::Result {
            match self {
                C16U8LeGtEmbedError::LessOrEqualViolated => write!(
                    f,
                    "{} is too big. The value must be less or equal to {:#?}.",
                    stringify!(C16U8LeGtEmbed),
                    sym_hi_u8()
                ),
                C16U8LeGtEmbedError::GreaterViolated => write!(
                    f,
                    "{} is too small. The value must be greater than {:#?}.",
                    stringify!(C16U8LeGtEmbed),
                    sym_lo_u8()
                ),
            }
        }
    }
    impl ::core::error::Error for C16U8LeGtEmbedError {
        fn source(&self) -> Option<&(dyn ::core::error::Error + 'static)> {
            None
        }
    }
    impl C16U8LeGtEmbed {
        pub fn try_new(raw_value: u8) -> ::core::result::Result<Self, C16U8LeGtEmbedError> {
            let sanitized_value: u8 = Self::__sanitize__(raw_value);
            #[allow(clippy::question_mark)]
            if let Err(e) = Self::__validate__(&sanitized_value) {
                return Err(e);
            }
            Ok(C16U8LeGtEmbed(sanitized_value))
        }
        fn __sanitize__(mut value: u8) -> u8 {
            value
        }
        fn __validate__(val: &u8) -> ::core::result::Result<(), C16U8LeGtEmbedError> {
            let val = *val;
            if val > sym_hi_u8() {
                return Err(C16U8LeGtEmbedError::LessOrEqualViolated);
            }
            if val <= sym_lo_u8() {
                return Err(C16U8LeGtEmbedError::GreaterViolated);
            }
            Ok(())
        }
    }
    impl C16U8LeGtEmbed {
        #[inline]
        pub fn into_inner(self) -> u8 {
            self.0
        }
    }
    #[cfg(test)]
    mod tests {
        use super::*;
        #[test]
        fn should_have_consistent_lower_and_upper_boundaries() {
            assert!
            (sym_hi_u8() >= sym_lo_u8(),
            "\nInconsistent lower and upper boundaries for type `C16U8LeGtEmbed`\nThe upper boundary `sym_hi_u8()` must be greater than or equal to the lower boundary `sym_lo_u8()`\nNote: the test is generated automatically by #[nutype] macro.\n");
        }
    }
}
pub use __nutype_C16U8LeGtEmbed__::C16U8LeGtEmbed;
pub use __nutype_C16U8LeGtEmbed__::C16U8LeGtEmbedError;
