// NUTYPE_VERIF_INPUT #[nutype(validate(less_or_equal = sym_hi_isize(), greater = sym_lo_isize()), derive(Debug))] pub struct C16IsizeLeGtEmbed(isize);
#[doc(hidden)]
#[allow(
    non_snake_case,
    reason = "we keep original structure name which is probably CamelCase"
)]
mod __nutype_C16IsizeLeGtEmbed__ {
    use super::*;
    #[derive(Debug)]
    pub struct C16IsizeLeGtEmbed(isize);
    #[derive(Debug, Clone, PartialEq, Eq)]
    #[allow(clippy::enum_variant_names)]
    pub enum C16IsizeLeGtEmbedError {
        LessOrEqualViolated,
        GreaterViolated,
    }
    impl ::core::fmt::Display for C16IsizeLeGtEmbedError {
        fn fmt(&self, f: &mut ::core::fmt::Formatter<'_>) -> ::core::fmt::Result {
            match self {
                C16IsizeLeGtEmbedError::LessOrEqualViolated => write!(
                    f,
                    "{} is too big. The value must be less or equal to {:#?}.",
                    stringify!(C16IsizeLeGtEmbed),
                    sym_hi_isize()
                ),
                C16IsizeLeGtEmbedError::GreaterViolated => write!(
                    f,
                    "{} is too small. The value must be greater than {:#?}.",
                    stringify!(C16IsizeLeGtEmbed),
                    sym_lo_isize()
                ),
            }
        }
    }
    impl ::core::error::Error for C16IsizeLeGtEmbedError {
        fn source(&self) -> Option<&(dyn ::core::error::Error + 'static)> {
            None
        }
    }
    impl C16IsizeLeGtEmbed {
        pub fn try_new(raw_value: isize) -> ::core::result::Result<Self, C16IsizeLeGtEmbedError> {
            let sanitized_value: isize = Self::__sanitize__(raw_value);
            #[allow(clippy::question_mark)]
            if let Err(e) = Self::__validate__(&sanitized_value) {
                return Err(e);
            }
            Ok(C16IsizeLeGtEmbed(sanitized_value))
        }
        fn __sanitize__(mut value: isize) -> isize {
            value
        }
        fn __validate__(val: &isize) -> ::core::result::Result<(), C16IsizeLeGtEmbedError> {
            let val = *val;
            if val > sym_hi_isize() {
                return Err(C16IsizeLeGtEmbedError::LessOrEqualViolated);
            }
            if val <= sym_lo_isize() {
                return Err(C16IsizeLeGtEmbedError::GreaterViolated);
            }
            Ok(())
        }
    }
    impl C16IsizeLeGtEmbed {
        #[inline]
        pub fn into_inner(self) -> isize {
            self.0
        }
    }
    #[cfg(test)]
    mod tests {
        use super::*;
        #[test]
        fn should_have_consistent_lower_and_upper_boundaries() {
            assert!
            (sym_hi_isize() >= sym_lo_isize(),
            "\nInconsistent lower and upper boundaries for type `C16IsizeLeGtEmbed`\nThe upper boundary `sym_hi_isize()` must be greater than or equal to the lower boundary `sym_lo_isize()`\nNote: the test is generated automatically by #[nutype] macro.\n");
        }
    }
}
pub use __nutype_C16IsizeLeGtEmbed__::C16IsizeLeGtEmbed;
pub use __nutype_C16IsizeLeGtEmbed__::C16IsizeLeGtEmbedError;
