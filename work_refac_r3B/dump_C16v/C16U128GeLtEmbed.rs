// NUTYPE_VERIF_INPUT #[nutype(validate(greater_or_equal = sym_lo_u128(), less = sym_hi_u128()), derive(Debug))] pub struct C16U128GeLtEmbed(u128);
#[doc(hidden)]
#[allow(
    non_snake_case,
    reason = "we keep original structure name which is probably CamelCase"
)]
mod __nutype_C16U128GeLtEmbed__ {
    use super::*;
    #[derive(Debug)]
    pub struct C16U128GeLtEmbed(u128);
    #[derive(Debug, Clone, PartialEq, Eq)]
    #[allow(clippy::enum_variant_names)]
    pub enum C16U128GeLtEmbedError {
        GreaterOrEqualViolated,
        LessViolated,
    }
    impl ::core::fmt::Display for C16U128GeLtEmbedError {
        fn fmt(&self, f: &mut ::core::fmt::Formatter<'_>) -> ::core::fmt::Result {
            match self {
                C16U128GeLtEmbedError::GreaterOrEqualViolated => write!(
                    f,
                    "{} is too small. The value must be greater or equal to {:#?}.",
                    stringify!(C16U128GeLtEmbed),
                    sym_lo_u128()
                ),
                C16U128GeLtEmbedError::LessViolated => write!(
                    f,
                    "{} is too big. The value must be less than {:#?}.",
                    stringify!(C16U128GeLtEmbed),
                    sym_hi_u128()
                ),
            }
        }
    }
    impl ::core::error::Error for C16U128GeLtEmbedError {
        fn source(&self) -> Option<&(dyn ::core::error::Error + 'static)> {
            None
        }
    }
    impl C16U128GeLtEmbed {
        pub fn try_new(raw_value: u128) -> ::core::result::Result<Self, C16U128GeLtEmbedError> {
            let sanitized_value: u128 = Self::__sanitize__(raw_value);
            #[allow(clippy::question_mark)]
            if let Err(e) = Self::__validate__(&sanitized_value) {
                return Err(e);
            }
            Ok(C16U128GeLtEmbed(sanitized_value))
        }
        fn __sanitize__(mut value: u128) -> u128 {
            value
        }
        fn __validate__(val: &u128) -> ::core::result::Result<(), C16U128GeLtEmbedError> {
            let val = *val;
            if val < sym_lo_u128() {
                return Err(C16U128GeLtEmbedError::GreaterOrEqualViolated);
            }
            if val >= sym_hi_u128() {
                return Err(C16U128GeLtEmbedError::LessViolated);
            }
            Ok(())
        }
    }
    impl C16U128GeLtEmbed {
        #[inline]
        pub fn into_inner(self) -> u128 {
            self.0
        }
    }
    #[cfg(test)]
    mod tests {
        use super::*;
        #[test]
        fn should_have_consistent_lower_and_upper_boundaries() {
            assert!
            (sym_hi_u128() >= sym_lo_u128(),
            "\nInconsistent lower and upper boundaries for type `C16U128GeLtEmbed`\nThe upper boundary `sym_hi_u128()` must be greater than or equal to the lower boundary `sym_lo_u128()`\nNote: the test is generated automatically by #[nutype] macro.\n");
        }
    }
}
pub use __nutype_C16U128GeLtEmbed__::C16U128GeLtEmbed;
pub use __nutype_C16U128GeLtEmbed__::C16U128GeLtEmbedError;
