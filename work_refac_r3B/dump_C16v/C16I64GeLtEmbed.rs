// NUTYPE_VERIF_INPUT #[nutype(validate(greater_or_equal = sym_lo_i64(), less = sym_hi_i64()), derive(Debug))] pub struct C16I64GeLtEmbed(i64);
#[doc(hidden)]
#[allow(
    non_snake_case,
    reason = "we keep original structure name which is probably CamelCase"
)]
mod __nutype_C16I64GeLtEmbed__ {
    use super::*;
    #[derive(Debug)]
    pub struct C16I64GeLtEmbed(i64);
    #[derive(Debug, Clone, PartialEq, Eq)]
    #[allow(clippy::enum_variant_names)]
    pub enum C16I64GeLtEmbedError {
        GreaterOrEqualViolated,
        LessViolated,
    }
    impl ::core::fmt::Display for C16I64GeLtEmbedError {
        fn fmt(&self, f: &mut ::core::fmt::Formatter<'_>) -> ::core::fmt::Result {
            match self {
                C16I64GeLtEmbedError::GreaterOrEqualViolated => write!(
                    f,
                    "{} is too small. The value must be greater or equal to {:#?}.",
                    stringify!(C16I64GeLtEmbed),
                    sym_lo_i64()
                ),
                C16I64GeLtEmbedError::LessViolated => write!(
                    f,
                    "{} is too big. The value must be less than {:#?}.",
                    stringify!(C16I64GeLtEmbed),
                    sym_hi_i64()
                ),
            }
        }
    }
    impl ::core::error::Error for C16I64GeLtEmbedError {
        fn source(&self) -> Option<&(dyn ::core::error::Error + 'static)> {
            None
        }
    }
    impl C16I64GeLtEmbed {
        pub fn try_new(raw_value: i64) -> ::core::result::Result<Self, C16I64GeLtEmbedError> {
            let sanitized_value: i64 = Self::__sanitize__(raw_value);
            #[allow(clippy::question_mark)]
            if let Err(e) = Self::__validate__(&sanitized_value) {
                return Err(e);
            }
            Ok(C16I64GeLtEmbed(sanitized_value))
        }
        fn __sanitize__(mut value: i64) -> i64 {
            value
        }
        fn __validate__(val: &i64) -> ::core::result::Result<(), C16I64GeLtEmbedError> {
            let val = *val;
            if val < sym_lo_i64() {
                return Err(C16I64GeLtEmbedError::GreaterOrEqualViolated);
            }
            if val >= sym_hi_i64() {
                return Err(C16I64GeLtEmbedError::LessViolated);
            }
            Ok(())
        }
    }
    impl C16I64GeLtEmbed {
        #[inline]
        pub fn into_inner(self) -> i64 {
            self.0
        }
    }
    #[cfg(test)]
    mod tests {
        use super::*;
        #[test]
        fn should_have_consistent_lower_and_upper_boundaries() {
            assert!
            (sym_hi_i64() >= sym_lo_i64(),
            "\nInconsistent lower and upper boundaries for type `C16I64GeLtEmbed`\nThe upper boundary `sym_hi_i64()` must be greater than or equal to the lower boundary `sym_lo_i64()`\nNote: the test is generated automatically by #[nutype] macro.\n");
        }
    }
}
pub use __nutype_C16I64GeLtEmbed__::C16I64GeLtEmbed;
pub use __nutype_C16I64GeLtEmbed__::C16I64GeLtEmbedError;
